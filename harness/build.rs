// Registers every src/fam/<name>.rs as driver family <name> (no shared file to edit).
use std::fs;
use std::path::Path;

fn main() {
    let dir = Path::new(env!("CARGO_MANIFEST_DIR")).join("src").join("fam");
    let mut names: Vec<String> = fs::read_dir(&dir)
        .unwrap()
        .filter_map(|e| e.ok())
        .map(|e| e.file_name().to_string_lossy().to_string())
        .filter(|n| n.ends_with(".rs") && n != "mod.rs")
        .map(|n| n.trim_end_matches(".rs").to_string())
        .collect();
    names.sort();
    let mut out = String::new();
    for n in &names {
        out.push_str(&format!(
            "#[path = \"{}/{}.rs\"] pub mod {};\n",
            dir.display(),
            n,
            n
        ));
    }
    out.push_str("pub fn dispatch(name: &str, log: &mut crate::Log) -> bool {\n    match name {\n");
    for n in &names {
        out.push_str(&format!("        \"{}\" => {}::drive(log),\n", n, n));
    }
    out.push_str("        _ => return false,\n    }\n    true\n}\n");
    let dest = Path::new(&std::env::var("OUT_DIR").unwrap()).join("fam_gen.rs");
    fs::write(dest, out).unwrap();
    println!("cargo:rerun-if-changed=src/fam");
    println!("cargo:rerun-if-changed=build.rs");
}
