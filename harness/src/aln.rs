//! Projection helpers shared by the pairwise / banded drivers (no oracle here).
use crate::Rng;
use bio_types::alignment::{Alignment, AlignmentMode, AlignmentOperation};
use serde_json::{json, Value};

pub const MIN_SCORE: i32 = -858_993_459;

/// A substitution table as a match function that can be cloned together with the aligner owning it
/// (a boxed closure cannot).
#[derive(Clone, Debug)]
pub struct TabFn {
    pub al: Vec<u8>,
    pub tab: Vec<Vec<i32>>,
}
impl bio::alignment::pairwise::MatchFunc for TabFn {
    fn score(&self, a: u8, b: u8) -> i32 {
        let i = self.al.iter().position(|&x| x == a).unwrap();
        let j = self.al.iter().position(|&x| x == b).unwrap();
        self.tab[i][j]
    }
}

/// symbol index (1-based) of byte b in the run's alphabet
pub fn sym(alpha: &[u8], b: u8) -> i64 {
    alpha.iter().position(|&a| a == b).map(|p| p as i64 + 1).unwrap_or(0)
}
pub fn syms(alpha: &[u8], s: &[u8]) -> Value {
    Value::Array(s.iter().map(|&b| json!(sym(alpha, b))).collect())
}
pub fn table_json(t: &[Vec<i32>]) -> Value {
    Value::Array(t.iter().map(|r| Value::Array(r.iter().map(|&v| json!(v)).collect())).collect())
}
pub fn mm_table(sigma: usize, m: i32, mm: i32) -> Vec<Vec<i32>> {
    (0..sigma).map(|i| (0..sigma).map(|j| if i == j { m } else { mm }).collect()).collect()
}

pub fn alignment_json(a: &Alignment) -> Value {
    let ops: Vec<Value> = a
        .operations
        .iter()
        .map(|op| match *op {
            AlignmentOperation::Match => json!([0, 1]),
            AlignmentOperation::Subst => json!([1, 1]),
            AlignmentOperation::Del => json!([2, 1]),
            AlignmentOperation::Ins => json!([3, 1]),
            AlignmentOperation::Xclip(k) => json!([4, k]),
            AlignmentOperation::Yclip(k) => json!([5, k]),
        })
        .collect();
    let mode = match a.mode {
        AlignmentMode::Local => 0,
        AlignmentMode::Semiglobal => 1,
        AlignmentMode::Global => 2,
        AlignmentMode::Custom => 3,
    };
    json!({"score": a.score, "xstart": a.xstart, "xend": a.xend, "ystart": a.ystart, "yend": a.yend,
           "xlen": a.xlen, "ylen": a.ylen, "mode": mode, "ops": ops})
}

/// a scoring scheme as the drivers generate it
#[derive(Clone, Debug)]
pub struct Scheme {
    pub table: Vec<Vec<i32>>, // [x symbol][y symbol]
    pub simple: Option<(i32, i32)>, // Some((match, mismatch)) when the table is of that form
    pub go: i32,
    pub ge: i32,
    pub clip: [i32; 4], // xp, xs, yp, ys
}

impl Scheme {
    pub fn cfg(&self) -> Value {
        json!({"S": table_json(&self.table), "go": self.go, "ge": self.ge,
               "clip": [self.clip[0], self.clip[1], self.clip[2], self.clip[3]]})
    }
}

pub fn pick_clip(rng: &mut Rng) -> i32 {
    match rng.below(6) {
        0 | 1 => MIN_SCORE,
        2 => 0,
        3 => -1,
        4 => -(rng.range(2, 6) as i32),
        _ => -(rng.range(0, 12) as i32),
    }
}

pub fn random_scheme(rng: &mut Rng, sigma: usize) -> Scheme {
    let simple = rng.chance(1, 2);
    let (table, s) = if simple {
        let m = rng.range(0, 4) as i32;
        let mm = -(rng.range(0, 5) as i32);
        (mm_table(sigma, m, mm), Some((m, mm)))
    } else {
        let t: Vec<Vec<i32>> = (0..sigma)
            .map(|i| {
                (0..sigma)
                    .map(|j| if i == j { rng.range(0, 6) as i32 } else { rng.range(-6, 2) as i32 })
                    .collect()
            })
            .collect();
        (t, None)
    };
    let go = match rng.below(4) {
        0 => 0,
        _ => -(rng.range(0, 8) as i32),
    };
    let ge = match rng.below(4) {
        0 => 0,
        _ => -(rng.range(0, 4) as i32),
    };
    let clip = [pick_clip(rng), pick_clip(rng), pick_clip(rng), pick_clip(rng)];
    Scheme { table, simple: s, go, ge, clip }
}

pub fn all_strings(alpha: &[u8], maxlen: usize, with_empty: bool) -> Vec<Vec<u8>> {
    let mut out = vec![];
    if with_empty {
        out.push(vec![]);
    }
    let mut cur: Vec<Vec<u8>> = vec![vec![]];
    for _ in 1..=maxlen {
        let mut nxt = vec![];
        for s in &cur {
            for &c in alpha {
                let mut t = s.clone();
                t.push(c);
                nxt.push(t);
            }
        }
        out.extend(nxt.iter().cloned());
        cur = nxt;
    }
    out
}

pub fn mutate(rng: &mut Rng, s: &[u8], alpha: &[u8], k: usize) -> Vec<u8> {
    let mut t = s.to_vec();
    for _ in 0..k {
        match rng.below(3) {
            0 if !t.is_empty() => {
                let i = rng.below(t.len() as u64) as usize;
                t[i] = *rng.pick(alpha);
            }
            1 if !t.is_empty() => {
                let i = rng.below(t.len() as u64) as usize;
                t.remove(i);
            }
            _ => {
                let i = rng.below(t.len() as u64 + 1) as usize;
                t.insert(i, *rng.pick(alpha));
            }
        }
    }
    t
}
