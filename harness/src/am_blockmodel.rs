//! Transcription of the specification's Myers block machine (spec/ApproxMatch.tla: BlkNew,
//! BlkAdvance, BlkAdd, BlkStep) for W <= 64, used by the drivers ONLY to see which rare
//! transitions of the band-limited machine an input reaches (guided generation + coverage
//! obligations). It is not an oracle: no answer of rust-bio is ever compared with it; what it
//! computes (the number of active blocks after every text symbol) is itself recorded as a
//! `blk_profile` event and checked by TLC against BlkStep of the specification.
#![allow(dead_code)]

#[derive(Clone, Copy, Debug)]
pub struct Blk {
    pub pv: u64,
    pub mv: u64,
    pub dist: i64,
}

/// what happened in one step of the machine
#[derive(Clone, Copy, Debug, Default)]
pub struct StepEvents {
    pub grew: bool,
    pub dropped: usize,
    /// a block survived the shrink loop with bottom value exactly k + w - 1 ...
    pub kept_at_threshold_minus_1: bool,
    /// ... and its column rises strictly by one per row (its top cell is exactly k)
    pub kept_top_is_k: bool,
    /// blocks were dropped while the block above is within budget and the first row of the
    /// dropped block matches the symbol (drop and re-activation condition in the same step)
    pub drop_while_growable: bool,
    /// a block was appended with carry +1 (last row of the band rose to k + 1 in this column)
    pub grow_with_carry_plus: bool,
    /// a block was appended in the step directly after a drop
    pub grow_after_drop: bool,
}

/// Perturbed copies of the machine ("near misses": one local arithmetic / ordering change each).
/// The drivers search for inputs on which a perturbed machine reports other hits than the
/// machine of the specification: such inputs drive the real code through exactly the
/// transitions where that kind of mistake would show.
pub const VARIANTS: [&str; 8] = [
    "drop_threshold_minus_1", // drop a block already at bottom = k + w - 1
    "shrink_then_grow",       // first shrink, then test the grow condition with the stale carry
    "grow_without_carry",     // grow condition: last_dist <= k instead of last_dist - carry <= k
    "grow_strict",            // grow condition: last_dist - carry < k
    "grow_without_neg_carry", // grow only when the first row of the next block matches
    "add_offset_sign",        // new block initialised with +carry instead of -carry
    "hin_sign",               // incoming carry applied to eq with the wrong sign
    "drop_threshold_plus_w",  // drop only at bottom >= k + 2w (keeps blocks longer)
];

pub struct BlockModel {
    pub w: usize,
    pub m: usize,
    /// 0 = the machine of the specification, i = VARIANTS[i-1]
    pub variant: usize,
    peq: Vec<[u64; 256]>,
    rows: Vec<usize>,
    pub states: Vec<Blk>,
    dropped_last_step: bool,
}

fn mask(w: usize) -> u64 {
    if w >= 64 {
        !0
    } else {
        (1u64 << w) - 1
    }
}

impl BlockModel {
    /// plain equality (no ambiguity tables); k < 0 = unbounded
    pub fn new(p: &[u8], w: usize, k: i64) -> BlockModel {
        let m = p.len();
        let nb = (m + w - 1) / w;
        let mut peq = vec![[0u64; 256]; nb];
        let mut rows = vec![w; nb];
        for (i, &c) in p.iter().enumerate() {
            peq[i / w][c as usize] |= 1u64 << (i % w);
        }
        if m % w != 0 {
            rows[nb - 1] = m % w;
        }
        let kk = if k < 0 { m } else { (k as usize).min(m) };
        let min_blocks = std::cmp::max(1, (kk + w - 1) / w);
        let mut bm = BlockModel { w, m, variant: 0, peq, rows, states: vec![], dropped_last_step: false };
        for _ in 0..min_blocks {
            bm.add(0);
        }
        bm
    }

    fn add(&mut self, offset: i64) {
        let prevd = self.states.last().map(|s| s.dist).unwrap_or(0);
        let nb = self.peq.len();
        let delta = if self.states.len() == nb - 1 && self.m % self.w > 0 { self.m % self.w } else { self.w };
        self.states.push(Blk { pv: mask(self.w), mv: 0, dist: prevd + delta as i64 + offset });
    }

    fn advance(&self, s: &mut Blk, b: usize, a: u8, hin: i64) -> i64 {
        let mk = mask(self.w);
        let eq0 = self.peq[b][a as usize];
        let xv = eq0 | s.mv;
        let eq = if (self.variant != 7 && hin < 0) || (self.variant == 7 && hin > 0) { eq0 | 1 } else { eq0 };
        let xh = (((eq & s.pv).wrapping_add(s.pv) & mk) ^ s.pv) | eq;
        let ph = s.mv | (!(xh | s.pv) & mk);
        let mh = s.pv & xh;
        let bound = 1u64 << (self.rows[b] - 1);
        let hout = ((ph & bound) != 0) as i64 - ((mh & bound) != 0) as i64;
        s.dist += hout;
        let mut ph1 = (ph << 1) & mk;
        let mut mh1 = (mh << 1) & mk;
        if hin < 0 {
            mh1 |= 1;
        }
        if hin > 0 {
            ph1 |= 1;
        }
        s.pv = mh1 | (!(xv | ph1) & mk);
        s.mv = ph1 & xv;
        hout
    }

    pub fn step(&mut self, a: u8, k: i64) -> StepEvents {
        let mut ev = StepEvents::default();
        let within = |x: i64| k < 0 || x <= k;
        let mut carry = 0i64;
        for b in 0..self.states.len() {
            let mut s = self.states[b];
            carry = self.advance(&mut s, b, a, carry);
            self.states[b] = s;
        }
        let last = self.states.len() - 1;
        let nb = self.peq.len();
        let v = self.variant;
        let drop_at = |k: i64, w: usize| -> i64 {
            match v {
                1 => k + w as i64 - 1,
                8 => k + 2 * w as i64,
                _ => k + w as i64,
            }
        };
        if v == 2 {
            // perturbed control flow: shrink first, then grow with the carry computed above
            let mut l = last;
            if k >= 0 {
                while l > 0 && self.states[l].dist >= drop_at(k, self.w) {
                    l -= 1;
                }
            }
            self.states.truncate(l + 1);
            let d = self.states[l].dist;
            if within(d - carry) && l < nb - 1 && ((self.peq[l + 1][a as usize] & 1) == 1 || carry < 0) {
                self.add(-carry);
                let mut s = self.states[l + 1];
                self.advance(&mut s, l + 1, a, carry);
                self.states[l + 1] = s;
            }
            return ev;
        }
        let ldist = self.states[last].dist;
        let cond_budget = match v {
            3 => within(ldist),
            4 => k < 0 || ldist - carry < k,
            _ => within(ldist - carry),
        };
        let cond_sym = if v == 5 {
            (self.peq.get(last + 1).map(|q| q[a as usize]).unwrap_or(0) & 1) == 1
        } else {
            last < nb - 1 && ((self.peq[last + 1][a as usize] & 1) == 1 || carry < 0)
        };
        if cond_budget && last < nb - 1 && cond_sym {
            self.add(if v == 6 { carry } else { -carry });
            let mut s = self.states[last + 1];
            self.advance(&mut s, last + 1, a, carry);
            self.states[last + 1] = s;
            ev.grew = true;
            ev.grow_with_carry_plus = carry > 0;
            ev.grow_after_drop = self.dropped_last_step;
            self.dropped_last_step = false;
        } else {
            let mut l = last;
            if k >= 0 {
                while l > 0 && self.states[l].dist >= drop_at(k, self.w) {
                    l -= 1;
                }
            }
            ev.dropped = last - l;
            if ev.dropped > 0 {
                let d = self.states[l].dist;
                if within(d - carry) && l < nb - 1 && ((self.peq[l + 1][a as usize] & 1) == 1 || carry < 0) {
                    ev.drop_while_growable = true;
                }
            }
            self.states.truncate(l + 1);
            if l > 0 && k >= 0 && self.states[l].dist == k + self.w as i64 - 1 {
                ev.kept_at_threshold_minus_1 = true;
                let used = mask(self.rows[l]);
                ev.kept_top_is_k = (self.states[l].pv & used) == used;
            }
            self.dropped_last_step = ev.dropped > 0;
        }
        ev
    }

    pub fn known(&self) -> Option<i64> {
        if self.states.len() == self.peq.len() {
            Some(self.states[self.states.len() - 1].dist)
        } else {
            None
        }
    }
}

/// run the machine over a text: (active blocks after every symbol, union of the events, hit ends)
pub fn profile(p: &[u8], t: &[u8], w: usize, k: i64) -> (Vec<usize>, StepEvents, Vec<usize>) {
    profile_variant(p, t, w, k, 0)
}

pub fn profile_variant(p: &[u8], t: &[u8], w: usize, k: i64, variant: usize) -> (Vec<usize>, StepEvents, Vec<usize>) {
    let mut bm = BlockModel::new(p, w, k);
    bm.variant = variant;
    let mut prof = Vec::with_capacity(t.len());
    let mut all = StepEvents::default();
    let mut hits = vec![];
    for (i, &a) in t.iter().enumerate() {
        let e = bm.step(a, k);
        all.grew |= e.grew;
        all.dropped += e.dropped;
        all.kept_at_threshold_minus_1 |= e.kept_at_threshold_minus_1;
        all.kept_top_is_k |= e.kept_top_is_k;
        all.drop_while_growable |= e.drop_while_growable;
        all.grow_with_carry_plus |= e.grow_with_carry_plus;
        all.grow_after_drop |= e.grow_after_drop;
        prof.push(bm.states.len());
        if let Some(d) = bm.known() {
            if k < 0 || d <= k {
                hits.push(i);
            }
        }
    }
    (prof, all, hits)
}

/// One input selected by the guided search, with the reasons (obligation names) it was taken for.
pub struct Witness {
    pub w: usize,
    pub p: Vec<u8>,
    pub t: Vec<u8>,
    pub k: i64,
    pub why: Vec<String>,
    pub profile: Vec<usize>,
}

pub const TRANSITIONS: [&str; 4] = ["kept_at_k_plus_w_minus_1", "drop_while_growable", "grow_with_carry_plus", "grow_after_drop"];

/// Guided search for the rare transitions of the band-limited block machine. The candidates have
/// the shape "truncated occurrence directly followed by an (in)exact occurrence":
/// text = p[..c] ++ edit(p, e) for every truncation point c, e <= 1 and k <= 2, over binary /
/// ternary patterns of 2-3 blocks (u8 blocks; every 8th pattern u16 blocks). The machine of the
/// specification (this transcription) is run on every candidate; a candidate is selected when it
/// (1) reaches a transition that is still below its quota - a block kept at bottom = k+w-1,
/// blocks dropped while the re-activation condition holds, a block appended with carry +1, a
/// block appended directly after a drop - or (2) makes a perturbed copy of the machine
/// (VARIANTS) report other hits than the machine itself. Pattern number i belongs to shard
/// (first_case + i) % nshards; every shard searches its own patterns until its share of the
/// quotas is filled (at most max_patterns patterns, two texts per pattern).
pub fn guided_search(
    rng_of: &dyn Fn(u64) -> bio_verif_harness::Rng,
    first_case: u64,
    nshards: u64,
    shard: u64,
    quota: usize,
    max_patterns: usize,
) -> (Vec<(u64, Witness)>, u64) {
    let nv = VARIANTS.len();
    let mut got_v = vec![0usize; nv];
    let mut got_t = vec![0usize; TRANSITIONS.len()];
    let mut out: Vec<(u64, Witness)> = vec![];
    let mut seen = 0usize;
    let total = max_patterns as u64 * nshards;
    for pi in 0..total {
        let case = first_case + pi;
        if case % nshards != shard {
            continue;
        }
        seen += 1;
        // variant 8 (keeps blocks longer) never changes the hits; it is not waited for
        let open_v: Vec<usize> = (0..nv).filter(|&v| got_v[v] < quota && v != 7).collect();
        let open_t: Vec<usize> = (0..TRANSITIONS.len()).filter(|&x| got_t[x] < quota).collect();
        if (open_v.is_empty() && open_t.is_empty()) || seen > max_patterns {
            break;
        }
        let mut rng = rng_of(case);
        let w = if pi % 8 == 7 { 16 } else { 8 };
        let m = 2 * w + rng.below(w as u64 + 1) as usize;
        let alpha: &[u8] = if pi % 3 == 2 { b"abc" } else { b"ab" };
        let p = rng.seq(m, alpha);
        let mut taken = 0;
        'cand: for c in 1..m {
            for e in 0..2u64 {
                let mut t: Vec<u8> = p[..c].to_vec();
                let mut q = p.clone();
                for _ in 0..e {
                    let j = rng.below(m as u64) as usize;
                    match rng.below(3) {
                        0 => q[j] = *rng.pick(alpha),
                        1 => q.insert(j, *rng.pick(alpha)),
                        _ => {
                            q.remove(j);
                        }
                    }
                }
                t.extend(q);
                for k in 0..3i64 {
                    let (prof, ev, hits) = profile(&p, &t, w, k);
                    let mut why: Vec<String> = vec![];
                    let flags = [ev.kept_at_threshold_minus_1, ev.drop_while_growable, ev.grow_with_carry_plus, ev.grow_after_drop];
                    for &x in &open_t {
                        if flags[x] && got_t[x] < quota {
                            why.push(format!("blk_{}", TRANSITIONS[x]));
                        }
                    }
                    for &v in &open_v {
                        if got_v[v] < quota && profile_variant(&p, &t, w, k, v + 1).2 != hits {
                            why.push(format!("blk_distinguishes_{}", VARIANTS[v]));
                        }
                    }
                    // the frequent reasons alone do not justify a run while rare ones are open
                    let frequent = |r: &String| {
                        r.ends_with("grow_with_carry_plus") || r.ends_with("grow_strict") || r.ends_with("add_offset_sign") || r.ends_with("hin_sign")
                    };
                    let rare = why.iter().any(|r| !frequent(r));
                    let only_frequent_left = open_v.iter().all(|&v| [3usize, 5, 6].contains(&v)) && open_t.iter().all(|&x| x == 2);
                    if why.is_empty() || !(rare || only_frequent_left) {
                        continue;
                    }
                    for r in &why {
                        if let Some(v) = VARIANTS.iter().position(|n| r.ends_with(n)) {
                            got_v[v] += 1;
                        }
                        if let Some(x) = TRANSITIONS.iter().position(|n| r.ends_with(n)) {
                            got_t[x] += 1;
                        }
                    }
                    out.push((case, Witness { w, p: p.clone(), t: t.clone(), k, why, profile: prof }));
                    taken += 1;
                    if taken >= 2 {
                        break 'cand;
                    }
                }
            }
        }
    }
    (out, total)
}
