//! Shared helpers of the approximate-matching drivers (families myers, myers_tb,
//! ukkonen, dist). Included with `#[path]`; contains generators only, no oracle.
#![allow(dead_code)]
use bio::alignment::AlignmentOperation;
use bio::pattern_matching::myers::{long, Myers, MyersBuilder};
use bio_verif_harness::Rng;
use serde_json::{json, Value};

/// integers travel as JSON ints below 2^31; anything larger (usize::MAX sentinels of
/// mutated code) is projected to -2, which no specification accepts as a value.
pub fn num(x: usize) -> i64 {
    if x >= (1usize << 31) {
        -2
    } else {
        x as i64
    }
}

pub fn op_code(o: &AlignmentOperation) -> i64 {
    match o {
        AlignmentOperation::Match => 0,
        AlignmentOperation::Subst => 1,
        AlignmentOperation::Del => 2,
        AlignmentOperation::Ins => 3,
        AlignmentOperation::Xclip(_) => 4,
        AlignmentOperation::Yclip(_) => 5,
    }
}

pub fn ops_json(ops: &[AlignmentOperation]) -> Value {
    Value::Array(ops.iter().map(|o| json!(op_code(o))).collect())
}

/// ambiguity / wildcard tables handed to MyersBuilder (in call order)
#[derive(Clone, Default)]
pub struct Tables {
    pub ambig: Vec<(u8, Vec<u8>)>,
    pub wild: Vec<u8>,
}

impl Tables {
    pub fn is_empty(&self) -> bool {
        self.ambig.is_empty() && self.wild.is_empty()
    }
    pub fn ambig_json(&self) -> Value {
        Value::Array(
            self.ambig
                .iter()
                .map(|(s, e)| json!([*s, e.iter().map(|&b| json!(b)).collect::<Vec<_>>()]))
                .collect(),
        )
    }
    pub fn wild_json(&self) -> Value {
        Value::Array(self.wild.iter().map(|&b| json!(b)).collect())
    }
    pub fn builder(&self) -> MyersBuilder {
        let mut b = MyersBuilder::new();
        for (s, e) in &self.ambig {
            b.ambig(*s, e.iter());
        }
        for &w in &self.wild {
            b.text_wildcard(w);
        }
        b
    }
}

pub const IUPAC: [(u8, &[u8]); 11] = [
    (b'M', b"AC"),
    (b'R', b"AG"),
    (b'W', b"AT"),
    (b'S', b"CG"),
    (b'Y', b"CT"),
    (b'K', b"GT"),
    (b'V', b"ACGMRS"),
    (b'H', b"ACTMWY"),
    (b'D', b"AGTRWK"),
    (b'B', b"CGTSYK"),
    (b'N', b"ACGTMRWSYKVHDB"),
];

/// kind 0: none, 1: IUPAC ambiguity codes, 2: IUPAC + text wildcards, 3: small random
/// table over the given alphabet (incl. a symbol registered twice: the later call wins)
pub fn make_tables(rng: &mut Rng, kind: u64, alpha: &[u8]) -> Tables {
    let mut t = Tables::default();
    match kind {
        0 => {}
        1 | 2 => {
            for (s, e) in IUPAC.iter() {
                t.ambig.push((*s, e.to_vec()));
            }
            if kind == 2 {
                t.wild.push(b'*');
                t.wild.push(b'?');
            }
        }
        _ => {
            let n = 1 + rng.below(3);
            for _ in 0..n {
                let s = *rng.pick(alpha);
                let k = rng.below(3) as usize;
                let e = rng.seq(k, alpha);
                t.ambig.push((s, e));
            }
            if rng.coin() {
                // same symbol again: replaces the earlier entry
                let s = t.ambig[0].0;
                let e = rng.seq(1, alpha);
                t.ambig.push((s, e));
            }
            if rng.coin() {
                t.wild.push(*rng.pick(alpha));
            }
        }
    }
    t
}

/// apply `edits` random substitutions / insertions / deletions
pub fn mutate(rng: &mut Rng, s: &[u8], edits: usize, alpha: &[u8]) -> Vec<u8> {
    let mut v = s.to_vec();
    for _ in 0..edits {
        match rng.below(3) {
            0 if !v.is_empty() => {
                let i = rng.below(v.len() as u64) as usize;
                v[i] = *rng.pick(alpha);
            }
            1 => {
                let i = rng.below(v.len() as u64 + 1) as usize;
                v.insert(i, *rng.pick(alpha));
            }
            _ if !v.is_empty() => {
                let i = rng.below(v.len() as u64) as usize;
                v.remove(i);
            }
            _ => {}
        }
    }
    v
}

/// random text of about n symbols with approximate and partial copies of p planted.
/// wb > 0 is the block width of the matcher under test: some copies then carry all their
/// edits in the leading blocks (substitutions left of a block boundary, the rest exact), the
/// situation in which the band-limited block machine has to re-activate blocks it dropped.
pub fn planted_w(rng: &mut Rng, p: &[u8], n: usize, alpha: &[u8], talpha: &[u8], max_edits: usize, wb: usize) -> Vec<u8> {
    let mut t: Vec<u8> = vec![];
    while t.len() < n {
        let gap = rng.below(12) as usize;
        t.extend(rng.seq(gap, talpha));
        match rng.below(if wb > 0 && p.len() > wb { 6 } else { 4 }) {
            0 => {
                // prefix or suffix of the pattern (activates leading blocks only)
                let cut = rng.below(p.len() as u64 + 1) as usize;
                if rng.coin() {
                    t.extend_from_slice(&p[..cut]);
                } else {
                    t.extend_from_slice(&p[cut..]);
                }
            }
            1 => t.extend_from_slice(p),
            4 | 5 => {
                // edits only left of a block boundary (+0 / +1 rows), exact behind it
                let blocks = (p.len() + wb - 1) / wb;
                let b = 1 + rng.below((blocks - 1) as u64) as usize;
                let cut = (b * wb + rng.below(2) as usize).min(p.len());
                let mut head = p[..cut].to_vec();
                let e = 1 + rng.below(max_edits.max(1) as u64) as usize;
                for _ in 0..e {
                    let i = rng.below(cut as u64) as usize;
                    head[i] = *rng.pick(alpha);
                }
                t.extend(head);
                t.extend_from_slice(&p[cut..]);
            }
            _ => {
                let e = rng.below(max_edits as u64 + 1) as usize;
                t.extend(mutate(rng, p, e, alpha));
            }
        }
    }
    t.truncate(n);
    t
}

pub fn planted(rng: &mut Rng, p: &[u8], n: usize, alpha: &[u8], talpha: &[u8], max_edits: usize) -> Vec<u8> {
    planted_w(rng, p, n, alpha, talpha, max_edits, 0)
}


/// "Edit budget used up exactly at a block seam": the pattern is  v x c^r | B  where the head
/// v x c^r fills the first `b` blocks of width `w` exactly (x != c, first symbol of B != c); the
/// text contains  v* c^(r+1) B  with k-1 edits (kind by `ekind`: 0 substitution, 1 extra text
/// symbol, 2 missing text symbol) in v*. The head then aligns with cost exactly k ending at two
/// consecutive text positions (x substituted by c, or x left out), the last row of block b-1
/// stays at k, rises to k+1 on the first symbol of B - and exactly there the block-based
/// matcher has to append block b for a hit of distance k whose edits all lie in the upper blocks.
pub fn seam_case(rng: &mut Rng, w: usize, blocks: usize, b: usize, k: usize, r: usize, ekind: u64, alpha: &[u8]) -> (Vec<u8>, Vec<u8>) {
    let m = w * (blocks - 1) + 1 + rng.below(w as u64) as usize;
    let hl = w * b;
    let c = *rng.pick(alpha);
    let other = |rng: &mut Rng, not: u8| -> u8 {
        loop {
            let y = *rng.pick(alpha);
            if y != not {
                return y;
            }
        }
    };
    let v: Vec<u8> = rng.seq(hl - r - 1, alpha);
    let x = other(rng, c);
    let mut p = v.clone();
    p.push(x);
    p.extend(vec![c; r]);
    let b1 = other(rng, c);
    p.push(b1);
    while p.len() < m {
        p.push(*rng.pick(alpha));
    }
    let mut vs = v.clone();
    for e in 0..k.saturating_sub(1) {
        let j = rng.below(vs.len() as u64) as usize;
        match (ekind + e as u64) % 3 {
            0 => vs[j] = other(rng, vs[j]),
            1 => vs.insert(j, *rng.pick(alpha)),
            _ => {
                if vs.len() > 1 {
                    vs.remove(j);
                }
            }
        }
    }
    let pre = rng.below(6) as usize;
    let mut t: Vec<u8> = rng.seq(pre, alpha);
    t.extend(vs);
    t.extend(vec![c; r + 1]);
    t.extend_from_slice(&p[hl..]);
    let post = rng.below(5) as usize;
    t.extend(rng.seq(post, alpha));
    (p, t)
}

/// pattern shapes: unary, single odd symbol, periodic, random
pub fn pattern(rng: &mut Rng, m: usize, alpha: &[u8], shape: u64) -> Vec<u8> {
    match shape % 4 {
        0 => rng.seq(m, alpha),
        1 => {
            let mut p = vec![alpha[0]; m];
            let i = rng.below(m as u64) as usize;
            p[i] = alpha[alpha.len() - 1];
            p
        }
        2 => {
            let per = (rng.below(4) + 1) as usize;
            let unit = rng.seq(per, alpha);
            (0..m).map(|i| unit[i % per]).collect()
        }
        _ => rng.seq(m, alpha),
    }
}

/// The text handed over as an iterator: plain slice iterator (exact size hint) or through
/// filter / flat_map / take_while (inexact size hints); the items are the same.
pub fn text_iter<'a>(t: &'a [u8], via: u64) -> Box<dyn Iterator<Item = &'a u8> + 'a> {
    match via % 4 {
        0 => Box::new(t.iter()),
        1 => Box::new(t.iter().filter(|_| true)),
        2 => Box::new(t.iter().flat_map(std::iter::once)),
        _ => Box::new(t.iter().take_while(|_| true)),
    }
}
pub const VIA: [&str; 4] = ["slice_iter", "filter", "flat_map", "take_while"];
pub const HOWS: [&str; 6] = ["count", "last", "nth", "skip", "step_by", "size_hint"];

/// A Myers matcher of either implementation and any supported word type.
#[derive(Clone)]
pub enum Mx {
    S8(Myers<u8>),
    S16(Myers<u16>),
    S32(Myers<u32>),
    S64(Myers<u64>),
    L8(long::Myers<u8>),
    L16(long::Myers<u16>),
    L32(long::Myers<u32>),
    L64(long::Myers<u64>),
}

impl Mx {
    /// index of the variant (objects of the same variant can be the target of clone_from)
    pub fn variant(&self) -> usize {
        match self {
            Mx::S8(_) => 0,
            Mx::S16(_) => 1,
            Mx::S32(_) => 2,
            Mx::S64(_) => 3,
            Mx::L8(_) => 4,
            Mx::L16(_) => 5,
            Mx::L32(_) => 6,
            Mx::L64(_) => 7,
        }
    }
    /// `Clone::clone_from` of the matcher itself (into a used object, generally of another pattern)
    pub fn clone_from_same(&mut self, src: &Mx) -> bool {
        match (self, src) {
            (Mx::S8(a), Mx::S8(b)) => a.clone_from(b),
            (Mx::S16(a), Mx::S16(b)) => a.clone_from(b),
            (Mx::S32(a), Mx::S32(b)) => a.clone_from(b),
            (Mx::S64(a), Mx::S64(b)) => a.clone_from(b),
            (Mx::L8(a), Mx::L8(b)) => a.clone_from(b),
            (Mx::L16(a), Mx::L16(b)) => a.clone_from(b),
            (Mx::L32(a), Mx::L32(b)) => a.clone_from(b),
            (Mx::L64(a), Mx::L64(b)) => a.clone_from(b),
            _ => return false,
        }
        true
    }
    pub fn debug_len(&self) -> usize {
        match self {
            Mx::S8(a) => format!("{:?}", a).len(),
            Mx::S16(a) => format!("{:?}", a).len(),
            Mx::S32(a) => format!("{:?}", a).len(),
            Mx::S64(a) => format!("{:?}", a).len(),
            Mx::L8(a) => format!("{:?}", a).len(),
            Mx::L16(a) => format!("{:?}", a).len(),
            Mx::L32(a) => format!("{:?}", a).len(),
            Mx::L64(a) => format!("{:?}", a).len(),
        }
    }
}

thread_local! {
    /// used matcher objects left over from earlier runs of this driver process, one per variant:
    /// targets of `clone_from`
    pub static ATTIC: std::cell::RefCell<Vec<Option<Mx>>> = std::cell::RefCell::new(vec![None, None, None, None, None, None, None, None]);
}
pub fn attic_has(variant: usize) -> bool {
    ATTIC.with(|a| a.borrow()[variant].is_some())
}
pub fn attic_take(variant: usize) -> Option<Mx> {
    ATTIC.with(|a| a.borrow_mut()[variant].take())
}
pub fn attic_put(mx: Mx) {
    let v = mx.variant();
    ATTIC.with(|a| a.borrow_mut()[v] = Some(mx));
}
pub fn variant_of(long_impl: bool, w: usize) -> usize {
    (if long_impl { 4 } else { 0 }) + match w {
        8 => 0,
        16 => 1,
        32 => 2,
        _ => 3,
    }
}

pub fn build(long_impl: bool, w: usize, p: &[u8], tb: &Tables) -> Mx {
    if tb.is_empty() {
        match (long_impl, w) {
            (false, 8) => Mx::S8(Myers::<u8>::new(p)),
            (false, 16) => Mx::S16(Myers::<u16>::new(p)),
            (false, 32) => Mx::S32(Myers::<u32>::new(p)),
            (false, _) => Mx::S64(Myers::<u64>::new(p)),
            (true, 8) => Mx::L8(long::Myers::<u8>::new(p)),
            (true, 16) => Mx::L16(long::Myers::<u16>::new(p)),
            (true, 32) => Mx::L32(long::Myers::<u32>::new(p)),
            (true, _) => Mx::L64(long::Myers::<u64>::new(p)),
        }
    } else {
        let b = tb.builder();
        match (long_impl, w) {
            (false, 8) => Mx::S8(b.build::<u8, _, _>(p)),
            (false, 16) => Mx::S16(b.build::<u16, _, _>(p)),
            (false, 32) => Mx::S32(b.build::<u32, _, _>(p)),
            (false, _) => Mx::S64(b.build_64(p)),
            (true, 8) => Mx::L8(b.build_long::<u8, _, _>(p)),
            (true, 16) => Mx::L16(b.build_long::<u16, _, _>(p)),
            (true, 32) => Mx::L32(b.build_long::<u32, _, _>(p)),
            (true, _) => Mx::L64(b.build_long_64(p)),
        }
    }
}

/// build from an existing (possibly reused and re-configured) builder object
pub fn build_from(b: &MyersBuilder, long_impl: bool, w: usize, p: &[u8]) -> Mx {
    match (long_impl, w) {
        (false, 8) => Mx::S8(b.build::<u8, _, _>(p)),
        (false, 16) => Mx::S16(b.build::<u16, _, _>(p)),
        (false, 32) => Mx::S32(b.build::<u32, _, _>(p)),
        (false, _) => Mx::S64(b.build_64(p)),
        (true, 8) => Mx::L8(b.build_long::<u8, _, _>(p)),
        (true, 16) => Mx::L16(b.build_long::<u16, _, _>(p)),
        (true, 32) => Mx::L32(b.build_long::<u32, _, _>(p)),
        (true, _) => Mx::L64(b.build_long_64(p)),
    }
}

/// A MyersBuilder that lives through several builds, with the list of calls made on it so far
/// (the list is what the run headers record: the specification evaluates every matcher under
/// the builder state at build time - per byte the LAST ambig() call counts).
pub struct BuilderHistory {
    pub builder: MyersBuilder,
    pub calls: Tables,
}

impl BuilderHistory {
    pub fn new() -> BuilderHistory {
        BuilderHistory { builder: MyersBuilder::new(), calls: Tables::default() }
    }
    pub fn ambig(&mut self, s: u8, eq: &[u8]) {
        self.builder.ambig(s, eq.iter());
        self.calls.ambig.push((s, eq.to_vec()));
    }
    pub fn wildcard(&mut self, w: u8) {
        self.builder.text_wildcard(w);
        self.calls.wild.push(w);
    }
    /// the builder object copied in the middle of its history
    pub fn fork_clone(&self) -> BuilderHistory {
        BuilderHistory { builder: self.builder.clone(), calls: self.calls.clone() }
    }
    /// ... or sent through serde_json and back
    pub fn fork_serde(&self) -> BuilderHistory {
        let txt = serde_json::to_string(&self.builder).expect("MyersBuilder serializes");
        BuilderHistory { builder: serde_json::from_str(&txt).expect("MyersBuilder deserializes"), calls: self.calls.clone() }
    }
}

/// Chained ambiguity tables that are NOT transitively closed (X -> Y, Y -> Z; cycles; longer
/// chains), in both declaration orders; pattern over A,C,W,X,Y and texts in which the chained
/// symbols stand under each other (a text Z under a pattern X must NOT match).
pub fn chain_config(rng: &mut Rng, which: u64, m: usize) -> (Tables, Vec<u8>, Vec<Vec<u8>>) {
    let mut calls: Vec<(u8, Vec<u8>)> = match which % 4 {
        0 => vec![(b'X', b"Y".to_vec()), (b'Y', b"Z".to_vec())],
        1 => vec![(b'X', b"Y".to_vec()), (b'Y', b"X".to_vec())], // cycle
        2 => vec![(b'W', b"X".to_vec()), (b'X', b"Y".to_vec()), (b'Y', b"Z".to_vec())],
        _ => vec![(b'X', b"YA".to_vec()), (b'Y', b"ZC".to_vec()), (b'Z', b"W".to_vec())],
    };
    if (which / 4) % 2 == 1 {
        calls.reverse(); // the other declaration order
    }
    let mut tb = Tables::default();
    tb.ambig = calls;
    let mut p = rng.seq(m, b"ACWXY");
    p[rng.below(m as u64) as usize] = b'X';
    let mut texts = vec![];
    for ti in 0..3u8 {
        let pre = rng.below(4) as usize;
        let mut t = rng.seq(pre, b"ACZ");
        // what stands under the chained symbols: one step down the chain, two steps, or a mix
        t.extend(p.iter().map(|&c| match (c, ti) {
            (b'W', 0) => b'X',
            (b'W', _) => b'Y',
            (b'X', 0) => b'Y',
            (b'X', _) => b'Z',
            (b'Y', 2) => b'X',
            (b'Y', _) => b'Z',
            (c, _) => c,
        }));
        let post = rng.below(4) as usize;
        t.extend(rng.seq(post, b"ACXYZ"));
        texts.push(t);
    }
    (tb, p, texts)
}

/// stage s (0..4) of the standard re-configuration history of one builder
pub fn builder_stage(h: &mut BuilderHistory, stage: usize) {
    match stage {
        0 => {
            h.ambig(b'N', b"AC");
            h.ambig(b'R', b"AG");
        }
        1 => h.ambig(b'N', b"ACGT"), // widened after a matcher was built
        2 => {
            h.ambig(b'N', b"G"); // narrowed
            h.wildcard(b'*');
        }
        _ => {
            h.ambig(b'R', b""); // R matches only itself again
            h.ambig(b'N', b"ACGT");
        }
    }
}

/// pattern over ACGT with N (and R) placed on the first rows of the blocks of width w and at
/// random places; texts with occurrences in which every N / R position carries a random base
pub fn ambig_pattern_and_texts(rng: &mut Rng, m: usize, w: usize) -> (Vec<u8>, Vec<Vec<u8>>) {
    let mut p = rng.seq(m, b"ACGT");
    let mut i = 0;
    while i < m {
        p[i] = b'N';
        if i + 1 < m && rng.coin() {
            p[i + 1] = b'R';
        }
        i += w;
    }
    let extra = rng.below(m as u64) as usize;
    p[extra] = if rng.coin() { b'N' } else { b'R' };
    let mut texts = vec![];
    for ti in 0..3 {
        let pre = rng.below(6) as usize;
        let mut t = rng.seq(pre, b"ACGT");
        for rep in 0..2 {
            for &c in p.iter() {
                let mut c2 = if c == b'N' || c == b'R' { *rng.pick(b"ACGT") } else { c };
                if ti == 2 && rng.below(9) == 0 {
                    c2 = b'*';
                }
                t.push(c2);
            }
            if rep == 0 {
                let gap = rng.below(4) as usize;
                t.extend(rng.seq(gap, b"ACGTN"));
            }
        }
        if ti == 1 {
            let j = rng.below(t.len() as u64) as usize;
            t[j] = *rng.pick(b"ACGT");
        }
        texts.push(t);
    }
    (p, texts)
}

/// `$s` is bound to the simple matcher (distance type u8), `$l` to the block-based one.
#[allow(unused_macros)]
macro_rules! on_myers {
    ($m:expr, $x:ident, $simple:expr, $long:expr) => {
        match $m {
            Mx::S8($x) => $simple,
            Mx::S16($x) => $simple,
            Mx::S32($x) => $simple,
            Mx::S64($x) => $simple,
            Mx::L8($x) => $long,
            Mx::L16($x) => $long,
            Mx::L32($x) => $long,
            Mx::L64($x) => $long,
        }
    };
}

/// k < 0 encodes "no bound"
pub fn k_usize(k: i64) -> usize {
    if k < 0 {
        usize::MAX
    } else {
        k as usize
    }
}
