//! C07 — annotation map: one AVL tree per reference id.
use bio::data_structures::annot_map::AnnotMap;
use bio_types::annot::contig::Contig;
use bio_types::strand::ReqStrand;
use bio_verif_harness::{Log, Rng};
use serde_json::{json, Value};

pub fn drive(log: &mut Log) {
    let seed = log.opts.seed;
    let n = log.opts.n(150, 1500);
    let refs = ["chrI", "chrII", "chrIII", "absent"];
    for case in 1..=n {
        if !log.mine(case) {
            continue;
        }
        let mut rng = Rng::new(seed, 75, case);
        if !log.begin("an", json!({})) {
            continue;
        }
        let mut m: AnnotMap<String, u32> = AnnotMap::new();
        let mut ml: AnnotMap<String, Contig<String, ReqStrand>> = AnnotMap::new();
        let use_loc = rng.chance(1, 4);
        // a third of the runs live on a coarse coordinate grid: every coordinate and length is multiplied
        // by 2^28 before it reaches the map (lengths beyond 2^32, starts beyond +-2^33) and results are
        // divided again -- the overlap relation is invariant under the scaling, so the log and the
        // specification see the small numbers
        let scale: isize = if rng.chance(1, 3) {
            log.oblige("annot_lengths_beyond_2p32");
            1 << 28
        } else {
            1
        };
        let unscale = move |v: isize| -> i64 {
            if v % scale == 0 { (v / scale) as i64 } else { 999_999_999 }
        };
        log.call("new", json!({"insert_loc": use_loc as u8}), || json!({}));
        let nops = rng.range(1, 40);
        let mut id = 0u32;
        let mut seen = std::collections::HashSet::new();
        for _ in 0..nops {
            if rng.chance(3, 5) {
                let r = rng.below(3) as usize;
                let s = rng.range(-20, 60);
                let len = rng.range(1, 25) as usize;
                // insert_loc stores the location itself as payload: keep payloads distinguishable
                if use_loc && !seen.insert((r, s, len)) {
                    continue;
                }
                let strand = if rng.coin() { ReqStrand::Forward } else { ReqStrand::Reverse };
                let c = Contig::new(refs[r].to_string(), s as isize * scale, len * scale as usize, strand);
                log.call("insert", json!({"ref": refs[r], "s": s, "len": len, "d": if use_loc {0} else {id}}), || {
                    if use_loc {
                        ml.insert_loc(c.clone());
                    } else {
                        m.insert_at(id, &c);
                    }
                    json!({})
                });
                id += 1;
            } else {
                let r = rng.below(4) as usize;
                if r == 3 {
                    log.oblige("query_absent_refid");
                }
                let s = rng.range(-25, 70);
                let len = rng.range(1, 40) as usize;
                let q = Contig::new(refs[r].to_string(), s as isize * scale, len * scale as usize, ReqStrand::Forward);
                log.call("find", json!({"ref": refs[r], "s": s, "len": len}), || {
                    let res: Vec<Value> = if use_loc {
                        ml.find(&q)
                            .map(|e| json!([unscale(e.interval().start), unscale(e.interval().end), 0, e.refid()]))
                            .collect()
                    } else {
                        m.find(&q)
                            .map(|e| json!([unscale(e.interval().start), unscale(e.interval().end), *e.data(), e.refid()]))
                            .collect()
                    };
                    let cnt = if use_loc { ml.find(&q).count() } else { m.find(&q).count() };
                    json!({"res": res, "cnt": cnt})
                });
                if rng.chance(1, 12) {
                    // the map is replaced by a copy of itself (clone / serde round trip)
                    let how = rng.below(2);
                    log.call("copy", json!({"how": how}), || {
                        if how == 0 {
                            let (a, b) = (m.clone(), ml.clone());
                            m = a;
                            ml = b;
                        } else {
                            m = serde_json::from_str(&serde_json::to_string(&m).unwrap()).unwrap();
                            ml = ml.clone(); // (the location type of this map has no serde support)
                        }
                        json!({})
                    });
                    log.oblige("map_copied_mid_history");
                }
            }
        }
    }
}

fn main() {
    bio_verif_harness::run(drive)
}
