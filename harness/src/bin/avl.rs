//! C07 — AVL interval tree. One run = one IntervalTree<i64,u32>.
//! insert events carry the tree shape read through the hook `verif_shape`;
//! `finds` = find() for a list of queries; `find_mut` bumps each yielded payload by 1000.
use bio::data_structures::interval_tree::IntervalTree;
use bio_verif_harness::{Log, Rng};
use serde_json::{json, Value};
use std::io::BufRead;

type T = IntervalTree<i64, u32>;

fn shape_json(t: &T) -> Value {
    Value::Array(
        t.verif_shape()
            .into_iter()
            .map(|(s, e, d, mx, h, l, r)| json!([s, e, d, mx, h, l as u8, r as u8]))
            .collect(),
    )
}

fn insert(log: &mut Log, t: &mut T, s: i64, e: i64, d: u32, with_shape: bool) -> bool {
    let r = log.call("insert", json!({"s": s, "e": e, "d": d}), || {
        t.insert(s..e, d);
        if with_shape {
            json!({"has_shape": 1, "shape": shape_json(t)})
        } else {
            json!({"has_shape": 0, "shape": []})
        }
    });
    r["st"] == "ok"
}

/// Per query: the hits collected from the iterator, the number the iterator reports through `count()`,
/// and the hits seen by a CLONE of the iterator taken after its first item (first item + the clone's rest).
fn finds(log: &mut Log, t: &T, qs: &[(i64, i64)]) {
    let qj: Vec<Value> = qs.iter().map(|q| json!([q.0, q.1])).collect();
    log.call("finds", json!({"qs": qj}), || {
        let ej = |e: &bio::data_structures::interval_tree::Entry<i64, u32>| json!([e.interval().start, e.interval().end, *e.data()]);
        let res: Vec<Value> = qs.iter().map(|q| Value::Array(t.find(q.0..q.1).map(|e| ej(&e)).collect())).collect();
        let counts: Vec<usize> = qs.iter().map(|q| t.find(q.0..q.1).count()).collect();
        let fork: Vec<Value> = qs
            .iter()
            .map(|q| {
                let mut it = t.find(q.0..q.1);
                let mut v: Vec<Value> = vec![];
                if let Some(e) = it.next() {
                    v.push(ej(&e));
                }
                let c = it.clone();
                let rest_orig = it.count();
                let rest: Vec<Value> = c.map(|e| ej(&e)).collect();
                if rest.len() != rest_orig {
                    v.push(json!([0, 0, -1])); // the clone and the original disagree: not a stored entry
                }
                v.extend(rest);
                Value::Array(v)
            })
            .collect();
        json!({"res": res, "counts": counts, "fork": fork})
    });
}

fn find_mut(log: &mut Log, t: &mut T, q: (i64, i64)) {
    log.call("find_mut", json!({"qs": q.0, "qe": q.1}), || {
        let cnt = t.find_mut(q.0..q.1).count();
        let mut res: Vec<Value> = vec![];
        for mut e in t.find_mut(q.0..q.1) {
            let (s, en) = (e.interval().start, e.interval().end);
            let d = e.data();
            res.push(json!([s, en, *d]));
            *d += 1000;
        }
        json!({"res": res, "cnt": cnt})
    });
}

/// replace the tree by a copy of itself (clone / serde round trip / clone_from into a used tree)
fn copy(log: &mut Log, t: &mut T, how: u64) -> bool {
    let mut eq = 1u8;
    let r = log.call("copy", json!({"how": how % 3}), || {
        match how % 3 {
            0 => {
                let c = t.clone();
                eq = (c == *t) as u8;
                *t = c;
            }
            1 => {
                let txt = serde_json::to_string(&*t).unwrap();
                *t = serde_json::from_str(&txt).unwrap();
            }
            _ => {
                let mut other = T::new();
                other.insert(-5..77, 4242);
                other.insert(3..4, 4243);
                other.clone_from(t);
                *t = other;
            }
        }
        json!({"has_shape": 1, "shape": shape_json(t), "eq": eq})
    });
    r["st"] == "ok"
}

fn all_queries(lo: i64, hi: i64) -> Vec<(i64, i64)> {
    let mut v = vec![];
    for a in lo..=hi {
        for b in (a + 1)..=hi {
            v.push((a, b));
        }
    }
    v
}

pub fn drive(log: &mut Log) {
    let seed = log.opts.seed;
    let mut case = 0u64;
    // (1) spec -> impl: transition cover of the AVL machine (spec/AvlMC.tla, AvlGen.cfg)
    if let Some(path) = log.opts.replay.clone() {
        let f = std::io::BufReader::new(std::fs::File::open(&path).expect("behaviour file"));
        for line in f.lines() {
            let line = line.unwrap();
            case += 1;
            if !log.mine(case) {
                continue;
            }
            let v: Value = serde_json::from_str(&line).unwrap();
            let ins = v["ins"].as_array().unwrap();
            if !log.begin("beh", json!({})) {
                continue;
            }
            let mut t = T::new();
            log.call("new", json!({}), || json!({}));
            let mut okk = true;
            let (mut lo, mut hi) = (i64::MAX, i64::MIN);
            for (k, iv) in ins.iter().enumerate() {
                let (s, e) = (iv[0].as_i64().unwrap(), iv[1].as_i64().unwrap());
                lo = lo.min(s);
                hi = hi.max(e);
                // transition cover: the prefix is the path to the source state (its steps are the last
                // steps of other behaviours); the shape is read after the covered transition
                if !insert(log, &mut t, s, e, k as u32, k + 1 == ins.len()) {
                    okk = false;
                    break;
                }
            }
            if !okk {
                continue;
            }
            if case % 3 == 0 {
                if !copy(log, &mut t, case / 3) {
                    continue;
                }
                log.oblige("tree_copied_mid_history");
            }
            let qs = all_queries(lo - 1, hi + 1);
            finds(log, &t, &qs);
            // visit through the mutable iterator, then read the counters back
            let mut rng = Rng::new(seed, 70, case);
            let q = *rng.pick(&qs);
            find_mut(log, &mut t, q);
            finds(log, &t, &[(lo - 1, hi + 1), q]);
        }
        log.oblige("tlc_behaviours_replayed");
    }
    // (2) random histories: ascending, descending, zig-zag, equal starts, nested
    let nrand = log.opts.n(160, 1600);
    for _ in 0..nrand {
        case += 1;
        if !log.mine(case) {
            continue;
        }
        let mut rng = Rng::new(seed, 71, case);
        let big = rng.chance(1, 8);
        let n = if big { rng.range(100, 300) } else { rng.range(1, 60) } as usize;
        let pattern = rng.below(6);
        let span = rng.range(5, 80);
        if !log.begin("rnd", json!({"pattern": pattern})) {
            continue;
        }
        let mut t = T::new();
        log.call("new", json!({}), || json!({}));
        let mut okk = true;
        let (mut lo, mut hi) = (i64::MAX, i64::MIN);
        let via_from_iter = rng.chance(1, 10);
        let mut items: Vec<(i64, i64)> = vec![];
        for k in 0..n {
            let s = match pattern {
                0 => k as i64,
                1 => (n - k) as i64,
                2 => {
                    if k % 2 == 0 {
                        k as i64
                    } else {
                        (2 * n - k) as i64
                    }
                }
                3 => rng.range(0, 3),
                4 => rng.range(0, span) - k as i64 % 3,
                _ => rng.range(-span, span),
            };
            let w = match pattern {
                4 => 1 + (k as i64 % 7) * 5,
                _ => rng.range(1, 1 + span / 2),
            };
            items.push((s, s + w));
            lo = lo.min(s);
            hi = hi.max(s + w);
        }
        match pattern {
            0 => log.oblige("ascending"),
            1 => log.oblige("descending"),
            3 => log.oblige("many_equal_starts"),
            _ => {}
        }
        if via_from_iter {
            // FromIterator = repeated insert; observed as inserts without intermediate shapes
            let tt: T = items.iter().enumerate().map(|(k, iv)| (iv.0..iv.1, k as u32)).collect();
            t = tt;
            let last = items.len() - 1;
            // log the equivalent history: the spec replays the inserts; only the last shape is observable
            for (k, iv) in items.iter().enumerate() {
                let mut scratch = T::new();
                let target: &mut T = if k == last { &mut t } else { &mut scratch };
                // (no call into the tree for k < last: the event only records the argument)
                let r = log.call("insert", json!({"s": iv.0, "e": iv.1, "d": k as u32}), || {
                    if k == last {
                        json!({"has_shape": 1, "shape": shape_json(target)})
                    } else {
                        json!({"has_shape": 0, "shape": []})
                    }
                });
                if r["st"] != "ok" {
                    okk = false;
                    break;
                }
            }
            log.oblige("from_iter");
        } else {
            for (k, iv) in items.iter().enumerate() {
                let with_shape = !big || k % 10 == 9 || k + 1 == n;
                if !insert(log, &mut t, iv.0, iv.1, k as u32, with_shape) {
                    okk = false;
                    break;
                }
                if rng.chance(1, 25) {
                    if !copy(log, &mut t, rng.below(3)) {
                        okk = false;
                        break;
                    }
                    log.oblige("tree_copied_mid_history");
                }
                if rng.chance(1, 6) {
                    let a = rng.range(lo - 1, hi);
                    let b = rng.range(a + 1, hi + 1);
                    if rng.coin() {
                        finds(log, &t, &[(a, b)]);
                    } else {
                        find_mut(log, &mut t, (a, b));
                    }
                }
            }
        }
        if !okk {
            continue;
        }
        if big {
            log.oblige("large_tree");
        }
        let mut qs = vec![(lo - 1, hi + 1), (lo - 1, lo), (hi, hi + 1)];
        for _ in 0..(if big { 6 } else { 12 }) {
            let a = rng.range(lo - 1, hi);
            let b = rng.range(a + 1, (a + 1 + span / 3).min(hi + 1).max(a + 1));
            qs.push((a, b));
        }
        finds(log, &t, &qs);
        let q = qs[rng.below(qs.len() as u64) as usize];
        find_mut(log, &mut t, q);
        finds(log, &t, &[(lo - 1, hi + 1)]);
    }
}

fn main() {
    bio_verif_harness::run(drive)
}
