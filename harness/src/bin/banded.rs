//! C02 — banded::Aligner, all nine entry points. One run = one Aligner object (k, w)
//! reused across entry points and input sizes.
use bio::alignment::pairwise::banded::Aligner;
use bio::alignment::pairwise::{MatchParams, Scoring};
use bio::alignment::sparse;
use bio_verif_harness::aln::*;
use bio_verif_harness::{Log, Rng};
use serde_json::json;

#[derive(Clone)]
enum Al {
    Tab(Aligner<TabFn>),
    Par(Aligner<MatchParams>),
}

/// clip penalties set through Scoring's builder methods (xclip / yclip when both ends agree)
fn via_builder<F: bio::alignment::pairwise::MatchFunc>(mut s: Scoring<F>, c: &[i32; 4]) -> Scoring<F> {
    if c[0] == c[1] {
        if c[0] != MIN_SCORE {
            s = s.xclip(c[0]);
        }
    } else {
        if c[0] != MIN_SCORE {
            s = s.xclip_prefix(c[0]);
        }
        if c[1] != MIN_SCORE {
            s = s.xclip_suffix(c[1]);
        }
    }
    if c[2] == c[3] {
        if c[2] != MIN_SCORE {
            s = s.yclip(c[2]);
        }
    } else {
        if c[3] != MIN_SCORE {
            s = s.yclip_suffix(c[3]);
        }
        if c[2] != MIN_SCORE {
            s = s.yclip_prefix(c[2]);
        }
    }
    s
}

fn make(alpha: &[u8], sc: &Scheme, how: u64, k: usize, w: usize, cap: (usize, usize)) -> Al {
    match (sc.simple, how % 2) {
        (Some((m, mm)), 0) => {
            let mut s = Scoring::from_scores(sc.go, sc.ge, m, mm);
            if how % 5 == 4 {
                // the documented way: the builder methods of Scoring
                s = via_builder(s, &sc.clip);
            } else {
                s.xclip_prefix = sc.clip[0];
                s.xclip_suffix = sc.clip[1];
                s.yclip_prefix = sc.clip[2];
                s.yclip_suffix = sc.clip[3];
            }
            Al::Par(if how % 4 == 0 {
                Aligner::with_scoring(s, k, w)
            } else {
                Aligner::with_capacity_and_scoring(cap.0, cap.1, s, k, w)
            })
        }
        _ => {
            let f = TabFn { al: alpha.to_vec(), tab: sc.table.clone() };
            if sc.clip == [MIN_SCORE; 4] && how % 3 == 2 {
                // the constructors without a Scoring argument
                return Al::Tab(if how % 4 == 1 {
                    Aligner::new(sc.go, sc.ge, f, k, w)
                } else {
                    Aligner::with_capacity(cap.0, cap.1, sc.go, sc.ge, f, k, w)
                });
            }
            let mut s = Scoring::new(sc.go, sc.ge, f);
            // the public hint field need not describe match_fn (the banded aligner only seeds with it)
            if how % 3 == 0 {
                s.match_scores = Some(((how % 5) as i32, -((how % 4) as i32)));
            }
            if how % 5 == 4 {
                s = via_builder(s, &sc.clip);
            } else {
                s.xclip_prefix = sc.clip[0];
                s.xclip_suffix = sc.clip[1];
                s.yclip_prefix = sc.clip[2];
                s.yclip_suffix = sc.clip[3];
            }
            Al::Tab(if how % 4 == 1 {
                Aligner::with_scoring(s, k, w)
            } else {
                Aligner::with_capacity_and_scoring(cap.0, cap.1, s, k, w)
            })
        }
    }
}

#[derive(Clone, Debug)]
pub enum Entry {
    Custom,
    CustomPrehash,
    CustomMatches(Vec<(u32, u32)>),
    CustomExpanded(Vec<(u32, u32)>, Option<usize>, bool),
    CustomPath(Vec<(u32, u32)>, Vec<usize>),
    Global,
    Semiglobal,
    SemiglobalPrehash,
    Local,
    // operations on the object itself (no alignment is computed)
    CloneSelf,
    CloneFrom,
    Serde,
    SetClips([i32; 4]),
}

impl Entry {
    fn name(&self) -> &'static str {
        match self {
            Entry::Custom => "custom",
            Entry::CustomPrehash => "custom_prehash",
            Entry::CustomMatches(_) => "custom_matches",
            Entry::CustomExpanded(..) => "custom_expanded",
            Entry::CustomPath(..) => "custom_path",
            Entry::Global => "global",
            Entry::Semiglobal => "semiglobal",
            Entry::SemiglobalPrehash => "semiglobal_prehash",
            Entry::Local => "local",
            Entry::CloneSelf => "clone",
            Entry::CloneFrom => "clone_from",
            Entry::Serde => "serde",
            Entry::SetClips(_) => "set_clips",
        }
    }
    fn object_op(&self) -> bool {
        matches!(self, Entry::CloneSelf | Entry::CloneFrom | Entry::Serde | Entry::SetClips(_))
    }
    /// 1 iff the k-mer backbone is computed inside rust-bio from (x, y, k)
    fn internal(&self) -> u8 {
        match self {
            Entry::CustomMatches(_) | Entry::CustomExpanded(..) | Entry::CustomPath(..) => 0,
            _ => 1,
        }
    }
    /// 1 iff the caller passes an empty match list (documented: band = whole matrix)
    fn nomatches(&self) -> u8 {
        match self {
            Entry::CustomMatches(m) | Entry::CustomExpanded(m, _, _) | Entry::CustomPath(m, _) => m.is_empty() as u8,
            _ => 0,
        }
    }
}

macro_rules! dispatch {
    ($a:expr, $e:expr, $x:expr, $y:expr, $k:expr) => {
        match $e {
            Entry::Custom => $a.custom($x, $y),
            Entry::CustomPrehash => {
                let h = sparse::hash_kmers($y, $k);
                $a.custom_with_prehash($x, $y, &h)
            }
            Entry::CustomMatches(m) => $a.custom_with_matches($x, $y, m),
            Entry::CustomExpanded(m, mm, u) => $a.custom_with_expanded_matches($x, $y, m.clone(), *mm, *u),
            Entry::CustomPath(m, p) => $a.custom_with_match_path($x, $y, m, p),
            Entry::Global => $a.global($x, $y),
            Entry::Semiglobal => $a.semiglobal($x, $y),
            Entry::SemiglobalPrehash => {
                let h = sparse::hash_kmers($y, $k);
                $a.semiglobal_with_prehash($x, $y, &h)
            }
            Entry::Local => $a.local($x, $y),
            _ => unreachable!(),
        }
    };
}

pub fn run(log: &mut Log, tag: &str, alpha: &[u8], sc: &Scheme, how: u64, k: usize, w: usize,
           cap: (usize, usize), calls: &[(Entry, Vec<u8>, Vec<u8>)]) {
    let mut cfg = sc.cfg();
    cfg["k"] = json!(k);
    cfg["w"] = json!(w);
    cfg["cap"] = json!([cap.0, cap.1]);
    if !log.begin(tag, cfg) {
        return;
    }
    let mut al = make(alpha, sc, how, k, w, cap);
    let mut spare: Option<Al> = None;
    for (ci, (e, x, y)) in calls.iter().enumerate() {
        if ci % 2 == 0 && !matches!(e, Entry::SetClips(_)) {
            if let Some(sp) = spare.as_mut() {
                std::mem::swap(&mut al, sp);
            }
        }
        if e.object_op() {
            let args = match e {
                Entry::SetClips(c) => json!({"clip": [c[0], c[1], c[2], c[3]]}),
                _ => json!({}),
            };
            let r = log.call(e.name(), args, || {
                match e {
                    Entry::CloneSelf => {
                        // the copy goes on; the original is kept and takes every second call from now on
                        let c = al.clone();
                        spare = Some(std::mem::replace(&mut al, c));
                    }
                    Entry::CloneFrom => {
                        // another aligner with its own scheme, band parameters, capacity and history
                        let mut sc2 = sc.clone();
                        for (i, c) in sc2.clip.iter_mut().enumerate() {
                            *c = [0, -1, -2, MIN_SCORE, -7][(ci + i + (how as usize)) % 5];
                        }
                        sc2.go -= 1;
                        let mut other = make(alpha, &sc2, how, k + 1, w + 2, (cap.1 + 2, cap.0 + 1));
                        match &mut other {
                            Al::Tab(o) => {
                                o.semiglobal(&alpha[..1], alpha);
                            }
                            Al::Par(o) => {
                                o.semiglobal(&alpha[..1], alpha);
                            }
                        }
                        match (&mut other, &al) {
                            (Al::Tab(o), Al::Tab(a)) => o.clone_from(a),
                            (Al::Par(o), Al::Par(a)) => o.clone_from(a),
                            (o, a) => *o = a.clone(),
                        }
                        al = other;
                    }
                    Entry::Serde => {
                        if let Al::Par(a) = &al {
                            let txt = serde_json::to_string(a).unwrap();
                            let back: Aligner<MatchParams> = serde_json::from_str(&txt).unwrap();
                            al = Al::Par(back);
                        } else {
                            let c = al.clone();
                            al = c;
                        }
                    }
                    Entry::SetClips(c) => {
                        spare = None; // from here on there is one object again
                        macro_rules! setc {
                            ($a:expr) => {{
                                let s = $a.get_mut_scoring();
                                s.xclip_prefix = c[0];
                                s.xclip_suffix = c[1];
                                s.yclip_prefix = c[2];
                                s.yclip_suffix = c[3];
                            }};
                        }
                        match &mut al {
                            Al::Tab(a) => setc!(a),
                            Al::Par(a) => setc!(a),
                        }
                    }
                    _ => {}
                }
                json!({})
            });
            if r["st"] != "ok" {
                return;
            }
            continue;
        }
        // "planted" calls: long sequences with a planted copy; logged verbatim, judged by validity,
        // rescoring and the band-size rule only (the optimum is not recomputed at that size)
        let planted = tag == "planted";
        let big = !planted && (x.len() > 200 || y.len() > 200);
        // large inputs (budget-guard cases) are logged by length + fill symbol, not verbatim
        let args = if big {
            // (big inputs are unary: fill symbol + length describe them completely)
            json!({"x": [], "y": [], "xlen": x.len(), "ylen": y.len(), "big": 1,
                   "xfill": x.first().map(|&b| sym(alpha, b)).unwrap_or(0),
                   "yfill": y.first().map(|&b| sym(alpha, b)).unwrap_or(0),
                   "internal": e.internal(), "nomatches": e.nomatches()})
        } else {
            // diag: all k-mer matches lie on one diagonal (decided with the library's own k-mer finder,
            // only to steer: the claim that follows from it is about the band size)
            let diag = if planted {
                let ms = sparse::find_kmer_matches(x, y, k);
                (!ms.is_empty() && ms.iter().all(|m| m.1 as i64 - m.0 as i64 == ms[0].1 as i64 - ms[0].0 as i64)) as u8
            } else {
                0
            };
            json!({"x": syms(alpha, x), "y": syms(alpha, y), "big": if planted { 2 } else { 0 }, "diag": diag,
                   "internal": e.internal(), "nomatches": e.nomatches()})
        };
        let r = log.call(e.name(), args, || {
            let a = match &mut al {
                Al::Tab(a) => dispatch!(a, e, x, y, k),
                Al::Par(a) => dispatch!(a, e, x, y, k),
            };
            // hook: size of the band this call built (the budget clause is about it)
            let cells = match &al {
                Al::Tab(a) => a.verif_band_cells(),
                Al::Par(a) => a.verif_band_cells(),
            };
            if planted {
                let mut j = alignment_json(&a);
                j["cells"] = json!(cells);
                return j;
            }
            if big {
                // only what the budget clause talks about
                json!({"score": a.score, "xstart": a.xstart, "xend": a.xend, "ystart": a.ystart, "yend": a.yend,
                       "xlen": a.xlen, "ylen": a.ylen, "mode": 0, "nops": a.operations.len(), "ops": [],
                       "cells": cells})
            } else {
                let mut j = alignment_json(&a);
                j["cells"] = json!(cells);
                j
            }
        });
        if x.is_empty() && y.is_empty() { log.oblige("both_empty"); }
        else if x.is_empty() { log.oblige("empty_x"); }
        else if y.is_empty() { log.oblige("empty_y"); }
        if !x.is_empty() && x.len() < k { log.oblige("x_shorter_than_k"); }
        if r["st"] != "ok" {
            return; // object may be inconsistent after a panic
        }
    }
}

fn plant(rng: &mut Rng, alpha: &[u8], lx: usize, ly: usize, k: usize) -> (Vec<u8>, Vec<u8>) {
    // y random; x = pieces of y (shared k-mers) separated by random stretches, plus mutations
    let y = rng.seq(ly, alpha);
    let mut x: Vec<u8> = vec![];
    while x.len() < lx {
        if rng.chance(2, 3) && ly >= k {
            let len = (rng.range(k as i64, (3 * k + 2) as i64) as usize).min(ly);
            let s = rng.below((ly - len + 1) as u64) as usize;
            x.extend_from_slice(&y[s..s + len]);
        } else {
            let len = rng.range(1, 6) as usize;
            x.extend(rng.seq(len, alpha));
        }
    }
    x.truncate(lx);
    (x, y)
}

pub fn drive(log: &mut Log) {
    let seed = log.opts.seed;
    let mut case = 0u64;
    let ac = b"AC";
    // (a) exhaustive small: x, y over {A,C} (non-empty y; empty handled in (d)), k in 1..3, w in 0..2
    let maxl = if log.opts.thorough() { 3 } else { 2 };
    let strs = all_strings(ac, maxl, true);
    let gaps = [(0, -1), (-1, -1), (-3, 0)];
    let subs = [(1, -1), (2, -2)];
    let clipsets: [[i32; 4]; 6] = [
        [MIN_SCORE, MIN_SCORE, MIN_SCORE, MIN_SCORE],
        [0, 0, 0, 0],
        [-1, -1, -1, -1],
        [0, MIN_SCORE, MIN_SCORE, -1],
        [MIN_SCORE, -1, 0, MIN_SCORE],
        [-4, 0, -1, MIN_SCORE],
    ];
    let skip_empty_y = std::env::var("VERIF_BANDED_EMPTY_Y").map(|v| v == "0").unwrap_or(false);
    let mut combo = 0u64;
    for &(go, ge) in gaps.iter() {
        for &(m, mm) in subs.iter() {
            for clip in clipsets.iter() {
                for k in 1..=3usize {
                    for w in 0..=2usize {
                        combo += 1;
                        if !log.opts.thorough() && (combo.wrapping_mul(2654435761) >> 7) % 6 != 0 {
                            continue;
                        }
                        case += 1;
                        if !log.mine(case) {
                            continue;
                        }
                        let sc = Scheme { table: mm_table(2, m, mm), simple: Some((m, mm)), go, ge, clip: *clip };
                        let mut calls = vec![];
                        for x in &strs {
                            for y in &strs {
                                if y.is_empty() && skip_empty_y {
                                    continue;
                                }
                                for e in [Entry::Custom, Entry::Global, Entry::Semiglobal, Entry::Local] {
                                    calls.push((e, x.clone(), y.clone()));
                                }
                            }
                        }
                        if w == 0 {
                            log.oblige("w_zero");
                        }
                        run(log, "ex", ac, &sc, case, k, w, (3, 3), &calls);
                    }
                }
            }
        }
    }
    log.oblige("exhaustive_small");
    // (b) random with planted shared k-mers: every entry point, one aligner reused
    let acgt = b"ACGT";
    let nrand = log.opts.n(500, 5000);
    for _ in 0..nrand {
        case += 1;
        if !log.mine(case) {
            continue;
        }
        let mut rng = Rng::new(seed, 2, case);
        let sigma = if rng.chance(1, 3) { 2 } else { 4 };
        let twins: [u8; 4] = [0x41, 0xC1, 0x43, 0xC3];
        let alpha: &[u8] = if sigma == 2 {
            ac
        } else if rng.chance(1, 8) {
            log.oblige("alphabet_high_bit_twins");
            &twins
        } else {
            acgt
        };
        let sc = random_scheme(&mut rng, sigma);
        let k = rng.range(1, 5) as usize;
        let w = rng.range(0, 4) as usize;
        let maxlen = if rng.chance(1, 6) { 40 } else { 16 };
        let ncalls = rng.range(4, 8);
        let mut calls = vec![];
        for c in 0..ncalls {
            let lx = if c % 2 == 0 { rng.range(maxlen / 2, maxlen) } else { rng.range(1, 6) } as usize;
            let ly = rng.range(1, maxlen) as usize;
            let (x, y) = plant(&mut rng, alpha, lx, ly, k);
            let ms = sparse::find_kmer_matches(&x, &y, k);
            let e = match rng.below(11) {
                0 => Entry::Custom,
                1 => Entry::CustomPrehash,
                2 => {
                    // a sorted subset of the true matches
                    let sub: Vec<(u32, u32)> = ms.iter().cloned().filter(|_| rng.chance(2, 3)).collect();
                    if sub.is_empty() { log.oblige("explicit_empty_matches"); }
                    Entry::CustomMatches(sub)
                }
                3 => Entry::CustomMatches(vec![]),
                4 | 5 => {
                    let mmx = match rng.below(4) {
                        0 => None,
                        v => Some((v - 1) as usize),
                    };
                    log.oblige("expanded_matches");
                    Entry::CustomExpanded(ms.clone(), mmx, rng.coin())
                }
                6 => {
                    if ms.is_empty() {
                        Entry::CustomPath(vec![], vec![])
                    } else {
                        let res = sparse::lcskpp(&ms, k);
                        log.oblige("explicit_path");
                        Entry::CustomPath(ms.clone(), res.path)
                    }
                }
                7 => Entry::Global,
                8 => Entry::Semiglobal,
                9 => Entry::SemiglobalPrehash,
                _ => Entry::Local,
            };
            if !ms.is_empty() && e.internal() == 1 {
                log.oblige("band_from_kmer_matches");
            }
            if ms.is_empty() && e.internal() == 1 {
                log.oblige("no_kmer_match_full_band");
            }
            calls.push((e, x, y));
        }
        // a third of the runs change or copy the object in the middle of its history: clone, clone_from
        // another aligner, serde round trip, or new clip penalties through get_mut_scoring; then a
        // fixed-mode call (which overrides and must restore the penalties) and a clip-sensitive custom call
        if rng.chance(1, 3) {
            let at = rng.range(1, calls.len() as i64 - 1) as usize;
            let op = match rng.below(5) {
                0 => Entry::CloneSelf,
                1 => Entry::CloneFrom,
                2 => Entry::Serde,
                _ => Entry::SetClips([pick_clip(&mut rng), pick_clip(&mut rng), pick_clip(&mut rng), pick_clip(&mut rng)]),
            };
            log.oblige(match op {
                Entry::CloneSelf => "clone_mid_history",
                Entry::CloneFrom => "clone_from_other_aligner",
                Entry::Serde => "serde_round_trip",
                _ => "clips_changed_through_get_mut_scoring",
            });
            let x = rng.seq(5, alpha);
            let mut y = rng.seq(3, alpha);
            y.extend_from_slice(&x);
            y.extend(rng.seq(3, alpha));
            let modecall = [Entry::Global, Entry::Semiglobal, Entry::SemiglobalPrehash, Entry::Local][rng.below(4) as usize].clone();
            calls.insert(at, (op, vec![], vec![]));
            calls.insert(at + 1, (Entry::Custom, x.clone(), y.clone()));
            calls.insert(at + 2, (modecall, x.clone(), y.clone()));
            calls.insert(at + 3, (Entry::Custom, x, y));
        }
        let cap = (rng.range(0, 20) as usize, rng.range(0, 20) as usize);
        run(log, "rnd", alpha, &sc, case, k, w, cap, &calls);
    }
    // (c) cell budget: no common symbol => no k-mer match => full band; 2300x2300 exceeds 5M cells,
    // 2200x2200 does not. Every entry point, on aligners with and without configured clip penalties,
    // with small clip-sensitive calls before and after on the same object (a refused call must leave
    // the object as it found it).
    let budget_clips: [[i32; 4]; 3] = [[MIN_SCORE; 4], [-1, -1, -1, -1], [-3, MIN_SCORE, 0, -2]];
    for (ci, clip) in budget_clips.iter().enumerate() {
        for ei in 0..9usize {
            case += 1;
            if !log.mine(case) {
                continue;
            }
            let entry = |ei: usize| -> Entry {
                match ei {
                    0 => Entry::Custom,
                    1 => Entry::CustomPrehash,
                    2 => Entry::CustomMatches(vec![]),
                    3 => Entry::CustomExpanded(vec![], Some(1), true),
                    4 => Entry::CustomPath(vec![], vec![]),
                    5 => Entry::Global,
                    6 => Entry::Semiglobal,
                    7 => Entry::SemiglobalPrehash,
                    _ => Entry::Local,
                }
            };
            let sc = Scheme { table: mm_table(2, 1, -1), simple: Some((1, -1)), go: -5, ge: -1, clip: *clip };
            let calls = vec![
                (Entry::Custom, b"AACA".to_vec(), b"ACA".to_vec()),
                (entry(ei), vec![b'A'; 2300], vec![b'C'; 2300]),
                (Entry::Custom, b"AAC".to_vec(), b"CCAACCC".to_vec()),
                (Entry::Custom, b"CCAACCC".to_vec(), b"AAC".to_vec()),
                (entry(ei), vec![b'A'; 2200], vec![b'C'; 2200]),
                (Entry::Custom, b"ACCCCAC".to_vec(), b"CAC".to_vec()),
                (entry((ei + 4) % 9), vec![b'C'; 2300], vec![b'A'; 2300]),
                (Entry::Custom, b"CA".to_vec(), b"AACAA".to_vec()),
                (Entry::Local, b"AACA".to_vec(), b"ACA".to_vec()),
            ];
            let mut calls = calls;
            if ei % 3 == ci {
                // a degenerate matrix beyond the budget: one sequence empty, the other 5 000 000 symbols
                // (5 000 001 cells), and the largest one within the budget (4 999 999 symbols)
                calls.push((entry(ei), vec![], vec![b'A'; 5_000_000]));
                calls.push((entry(ei), vec![b'C'; 5_000_000], vec![]));
                calls.push((entry(ei), vec![], vec![b'A'; 4_999_999]));
                calls.push((Entry::Custom, b"CA".to_vec(), b"AACAA".to_vec()));
                log.oblige("over_cell_budget_with_an_empty_sequence");
            }
            log.oblige("over_cell_budget");
            if ci > 0 {
                log.oblige("over_cell_budget_then_custom_with_clips");
            }
            run(log, "budget", ac, &sc, (ci + ei) as u64, 8, 3, (10, 10), &calls);
        }
    }
    // (c1) clip-dominated optima under sparse bands: custom scorings in which clipping one end of one
    // sequence is cheap and the other end expensive, x short, y = G^a + one k-mer of x + G^b: the
    // optimum clips / inserts almost everything and the traceback walks along the edge of the band.
    // Every run first uses the same aligner for an unrelated semiglobal call (tables are reused).
    {
        let agt = b"ATG";
        let xs = all_strings(b"AT", 3, false);
        let asym: [[i32; 4]; 6] = [
            [MIN_SCORE, MIN_SCORE, 0, -100],
            [MIN_SCORE, MIN_SCORE, -100, 0],
            [0, -100, MIN_SCORE, MIN_SCORE],
            [-100, 0, MIN_SCORE, MIN_SCORE],
            [MIN_SCORE, MIN_SCORE, 0, -2],
            [-1, -30, 0, -30],
        ];
        let mut combo = 0u64;
        for clip in asym.iter() {
            for &(go, ge) in [(-1, -1), (0, -1)].iter() {
                for k in 1..=2usize {
                    for w in 0..=2usize {
                        for x in xs.iter().filter(|x| x.len() >= 2) {
                            combo += 1;
                            if !log.opts.thorough() && (combo.wrapping_mul(2654435761) >> 9) % 8 != 0 {
                                continue;
                            }
                            case += 1;
                            if !log.mine(case) {
                                continue;
                            }
                            let sc = Scheme { table: mm_table(3, 1, -5), simple: Some((1, -5)), go, ge, clip: *clip };
                            let mut calls = vec![(Entry::Semiglobal, b"ATGTATGT".to_vec(), b"TTATGTATGTTT".to_vec())];
                            for a in 0..=3usize {
                                for b in [0usize, 1, 2, 3, 5, 8, 10, 12] {
                                    for s0 in 0..=(x.len() - k.min(x.len())) {
                                        let mut y = vec![b'G'; a];
                                        y.extend_from_slice(&x[s0..(s0 + k).min(x.len())]);
                                        y.extend(vec![b'G'; b]);
                                        calls.push((Entry::Custom, x.clone(), y.clone()));
                                        if (a + b + s0) % 4 == 0 {
                                            // and the mirror image (roles of x and y exchanged)
                                            calls.push((Entry::Custom, y, x.clone()));
                                        }
                                    }
                                }
                                if a == 1 {
                                    calls.push((Entry::Local, b"GGATGTAGG".to_vec(), b"TATGTAT".to_vec()));
                                }
                            }
                            log.oblige("clip_dominated_sparse_band");
                            run(log, "edge", agt, &sc, case, k, w, (4, 4), &calls);
                        }
                    }
                }
            }
        }
    }
    // (c2) long y with a planted copy of x: the band is a thin stripe, most columns are empty;
    // matrix = (m+1)(n+1) far beyond the budget although the band is tiny
    for (m, flank) in [(2000usize, 2500usize), (1500, 4000)] {
        case += 1;
        if !log.mine(case) {
            continue;
        }
        let mut rng = Rng::new(seed, 3, case);
        let x = rng.seq(m, acgt);
        let mut y = rng.seq(flank, acgt);
        y.extend_from_slice(&x);
        y.extend(rng.seq(flank, acgt));
        let sc = Scheme { table: mm_table(4, 1, -1), simple: Some((1, -1)), go: -5, ge: -1, clip: [MIN_SCORE, MIN_SCORE, 0, 0] };
        let calls = vec![
            (Entry::Semiglobal, x.clone(), y.clone()),
            (Entry::Local, x.clone(), y.clone()),
            (Entry::Custom, x.clone(), y.clone()),
            (Entry::SemiglobalPrehash, x.clone(), y.clone()),
        ];
        log.oblige("thin_band_in_huge_matrix");
        run(log, "planted", acgt, &sc, 0, 16, 10, (10, 10), &calls);
    }
    // (c3) a short read (no longer than the window) planted in a long reference: the matrix is far over
    // the budget (21 x 300 001 cells), the documented band is a few thousand cells
    for (m, flank, k, w) in [(20usize, 150_000usize, 12usize, 20usize), (24, 120_000, 12, 32), (16, 170_000, 10, 16)] {
        case += 1;
        if !log.mine(case) {
            continue;
        }
        let mut rng = Rng::new(seed, 4, case);
        let (mut x, mut y);
        loop {
            x = rng.seq(m, acgt);
            y = rng.seq(flank, acgt);
            y.extend_from_slice(&x);
            y.extend(rng.seq(flank, acgt));
            let ms = sparse::find_kmer_matches(&x, &y, k);
            if ms.iter().all(|mm| mm.1 as usize - mm.0 as usize == flank) {
                break;
            }
        }
        let sc = Scheme { table: mm_table(4, 1, -1), simple: Some((1, -1)), go: -5, ge: -1, clip: [-3, -3, 0, 0] };
        let ms = sparse::find_kmer_matches(&x, &y, k);
        let calls = vec![
            (Entry::Semiglobal, x.clone(), y.clone()),
            (Entry::Local, x.clone(), y.clone()),
            (Entry::CustomMatches(ms), x.clone(), y.clone()),
            (Entry::Custom, x.clone(), y.clone()),
        ];
        log.oblige("short_read_in_long_reference_over_budget_matrix");
        run(log, "planted", acgt, &sc, 0, k, w, (10, 10), &calls);
    }
    // (d) degenerate inputs: empty x / empty y / both, every entry point
    for k in 1..=2usize {
        for w in 0..=1usize {
            for (ci, clip) in clipsets.iter().enumerate() {
                case += 1;
                if !log.mine(case) {
                    continue;
                }
                let sc = Scheme { table: mm_table(2, 1, -1), simple: Some((1, -1)), go: -1, ge: -1, clip: *clip };
                let pairs: Vec<(Vec<u8>, Vec<u8>)> = vec![
                    (vec![], b"AC".to_vec()),
                    (b"ACC".to_vec(), vec![]),
                    (vec![], vec![]),
                    (b"A".to_vec(), vec![]),
                ];
                for (x, y) in pairs {
                    if y.is_empty() && skip_empty_y {
                        continue;
                    }
                    // one fresh run per call: a hang must not hide the other degenerate cases
                    for e in [Entry::Custom, Entry::CustomMatches(vec![]), Entry::Global, Entry::Semiglobal, Entry::Local] {
                        run(log, "deg", ac, &sc, ci as u64, k, w, (2, 2), &[(e, x.clone(), y.clone())]);
                    }
                }
            }
        }
    }
}

fn main() {
    bio_verif_harness::run(drive)
}
