//! C13 (BED). One run = one file with a uniform number k of auxiliary columns:
//!   write(recs) -> bytes          real bed::Writer
//!   read(bytes, mode) -> items    real bed::Reader; every item Ok(fields) / Err
//! modes as in gff.rs ("exact" / "safe" / "wild"). The harness converts Strings <-> byte
//! arrays and u64 <-> decimal digits; nothing else.
#[path = "../tabcommon.rs"]
mod tabcommon;

use bio::io::bed::{Reader, Record, Writer};
use bio_verif_harness::{bytes, Log, Rng};
use serde_json::{json, Value};
use tabcommon::*;

#[derive(Clone)]
struct Rec {
    chrom: Vec<u8>,
    start: u64,
    end: u64,
    aux: Vec<Vec<u8>>,
}

fn rec_json(r: &Rec) -> Value {
    json!({"chrom": bytes(&r.chrom), "start": dec(r.start), "end": dec(r.end),
        "aux": Value::Array(r.aux.iter().map(|a| bytes(a)).collect())})
}

/// builds the record through the public setters (name, score, further columns)
fn to_record(r: &Rec, via_setters: bool) -> Record {
    let mut x = Record::new();
    x.set_chrom(&s(&r.chrom));
    x.set_start(r.start);
    x.set_end(r.end);
    for (i, a) in r.aux.iter().enumerate() {
        match (i, via_setters) {
            (0, true) => x.set_name(&s(a)),
            (1, true) => x.set_score(&s(a)),
            _ => x.push_aux(&s(a)),
        }
    }
    x
}

fn do_write(log: &mut Log, recs: &[Rec], via_setters: bool, quoted: bool) -> Option<Vec<u8>> {
    let mut out: Option<Vec<u8>> = None;
    log.call("write", json!({"recs": Value::Array(recs.iter().map(rec_json).collect()), "setters": via_setters as u8, "q": quoted as u8}), || {
        let mut buf: Vec<u8> = vec![];
        let mut errs = 0;
        {
            let mut w = Writer::new(&mut buf);
            for r in recs {
                if w.write(&to_record(r, via_setters)).is_err() {
                    errs += 1;
                }
            }
        }
        out = Some(buf.clone());
        json!({"bytes": bytes(&buf), "errs": errs})
    });
    out
}

fn read_items<R: std::io::Read>(rd: &mut Reader<R>) -> Vec<Value> {
    let mut items = vec![];
    for res in rd.records() {
        match res {
            Ok(rec) => {
                let mut aux = vec![];
                let mut i = 3;
                while let Some(a) = rec.aux(i) {
                    aux.push(bytes(a.as_bytes()));
                    i += 1;
                }
                items.push(json!({"ok": 1, "chrom": bytes(rec.chrom().as_bytes()),
                    "start": dec(rec.start()), "end": dec(rec.end()), "aux": Value::Array(aux)}));
            }
            Err(_) => items.push(json!({"ok": 0})),
        }
    }
    items
}

fn do_read(log: &mut Log, data: &[u8], mode: &str, fault: &str) {
    log.call("read", mode_json(mode, data, fault), || {
        let mut rd = Reader::new(data);
        json!({"recs": Value::Array(read_items(&mut rd))})
    });
}

fn item<E>(res: Result<Record, E>) -> Value {
    match res {
        Ok(rec) => {
            let mut aux = vec![];
            let mut i = 3;
            while let Some(x) = rec.aux(i) {
                aux.push(bytes(x.as_bytes()));
                i += 1;
            }
            json!({"ok": 1, "chrom": bytes(rec.chrom().as_bytes()), "start": dec(rec.start()), "end": dec(rec.end()), "aux": Value::Array(aux)})
        }
        Err(_) => json!({"ok": 0}),
    }
}

fn rand_rec(rng: &mut Rng, k: usize, log: &mut Log) -> Rec {
    let aux: Vec<Vec<u8>> = (0..k)
        .map(|i| match (i, rng.below(5)) {
            (_, 0) => vec![],
            (1, 1) => rng.below(1000).to_string().into_bytes(),
            (2, 1) => b"+".to_vec(),
            (2, 2) => b"-".to_vec(),
            _ => tok(rng, 0, 7, FIELD),
        })
        .collect();
    if aux.iter().any(|a| a.is_empty()) {
        log.oblige("bed_empty_aux");
    }
    let (start, end) = (coord(rng), coord(rng));
    if start == u64::MAX || end == u64::MAX {
        log.oblige("u64_max");
    }
    Rec { chrom: first_tok(rng), start, end, aux }
}

pub fn drive(log: &mut Log) {
    let seed = log.opts.seed;
    let mut case: u64 = 0;
    for _ in 0..log.opts.n(900, 8000) {
        case += 1;
        if !log.mine(case) {
            continue;
        }
        let mut rng = Rng::new(seed, 113, case);
        let k = (case % 10) as usize;
        if !log.begin("rt", json!({"k": k})) {
            continue;
        }
        match k {
            0 => log.oblige("bed_k0"),
            1 => log.oblige("bed_k1"),
            2 => log.oblige("bed_k2"),
            9 => log.oblige("bed_k9"),
            _ => {}
        }
        let n = rng.range(1, 5) as usize;
        let recs: Vec<Rec> = (0..n).map(|_| rand_rec(&mut rng, k, log)).collect();
        let data = match do_write(log, &recs, rng.coin(), false) {
            Some(x) => x,
            None => continue,
        };
        do_read(log, &data, "exact", "none");
        for _ in 0..2 {
            let (kind, bad) = safe_fault(&mut rng, &data, &[1, 2], usize::MAX);
            log.oblige(kind);
            do_read(log, &bad, "safe", kind);
        }
        // a file whose column count is not uniform: one more record with another k appended
        if rng.chance(1, 3) {
            let k2 = (k + 1 + rng.below(3) as usize) % 10;
            let extra = rand_rec(&mut rng, k2, log);
            let mut line: Vec<u8> = vec![];
            {
                let mut w = Writer::new(&mut line);
                let _ = w.write(&to_record(&extra, false));
            }
            let mut mixed = data.clone();
            mixed.extend_from_slice(&line);
            mixed.extend_from_slice(&data);
            log.oblige("bed_mixed_k");
            do_read(log, &mixed, "safe", "mixed_k");
        }
        let bad = wild_fault(&mut rng, &data);
        log.oblige("wild");
        do_read(log, &bad, "wild", "wild");
    }

    // the file based API: the abstract state of a path is the file content. Write R1 with
    // Writer::to_file, read with Reader::from_file, write a SHORTER R2 to the same path, read:
    // exactly R2; then an empty list, then a longer one.
    for _ in 0..log.opts.n(60, 600) {
        case += 1;
        if !log.mine(case) {
            continue;
        }
        let mut rng = Rng::new(seed, 115, case);
        let k = rng.range(0, 5) as usize;
        if !log.begin("file", json!({"k": k})) {
            continue;
        }
        // (unique per driver process: the same shard may run in two builds side by side)
        let path = std::path::PathBuf::from(format!("{}.bed-{}-{}.tmp", log.opts.out, seed, case));
        let r1: Vec<Rec> = (0..rng.range(3, 5)).map(|_| rand_rec(&mut rng, k, log)).collect();
        let r2: Vec<Rec> = (0..rng.range(1, 2)).map(|_| rand_rec(&mut rng, k, log)).collect();
        let r4: Vec<Rec> = (0..rng.range(2, 4)).map(|_| rand_rec(&mut rng, k, log)).collect();
        for (step, recs) in [r1, r2, vec![], r4].iter().enumerate() {
            log.call("write_file", json!({"recs": Value::Array(recs.iter().map(rec_json).collect()), "q": 0, "pid": 1}), || {
                let mut errs = 0;
                match Writer::to_file(&path) {
                    Ok(mut w) => {
                        for r in recs {
                            if w.write(&to_record(r, false)).is_err() {
                                errs += 1;
                            }
                        }
                    }
                    Err(_) => errs = -1,
                }
                let content = std::fs::read(&path).unwrap_or_default();
                json!({"bytes": bytes(&content), "errs": errs})
            });
            log.call("read_file", json!({"pid": 1}), || match Reader::from_file(&path) {
                Ok(mut rd) => json!({"recs": Value::Array(read_items(&mut rd)), "open": 1}),
                Err(_) => json!({"recs": [], "open": 0}),
            });
            if step == 1 {
                log.oblige("bed_file_rewrite_shorter");
            }
        }
        let _ = std::fs::remove_file(&path);
    }

    // the Record API: records built through setters called twice (last wins), push_aux order,
    // copied mid-history (clone, clone_from into a used record, serde_json round trip, Default +
    // setters); every accessor is judged; then written, and the reader's iterator is consumed
    // through count() / last() / nth() / skip()
    for _ in 0..log.opts.n(120, 1200) {
        case += 1;
        if !log.mine(case) {
            continue;
        }
        let mut rng = Rng::new(seed, 118, case);
        let k = rng.range(0, 6) as usize;
        if !log.begin("api", json!({"k": k})) {
            continue;
        }
        let n = rng.range(2, 5) as usize;
        let recs: Vec<Rec> = (0..n).map(|_| rand_rec(&mut rng, k, log)).collect();
        let mut built: Vec<Record> = vec![];
        for r in recs.iter() {
            let how = *rng.pick(&["twice", "clone", "clone_from", "serde", "default"]);
            let junk = rand_rec(&mut rng, k, log);
            let mut x = Record::new();
            log.call("accessors", json!({"rec": rec_json(r), "how": how}), || {
                x = match how {
                    "twice" => {
                        // every setter first with another value, then with the final one
                        let mut y = to_record(&junk, true);
                        y.set_chrom(&s(&r.chrom));
                        y.set_start(r.start);
                        y.set_end(r.end);
                        if k >= 1 {
                            y.set_name(&s(&r.aux[0]));
                        }
                        if k >= 2 {
                            y.set_score(&s(&r.aux[1]));
                        }
                        // later columns cannot be overwritten through the API: rebuild them
                        if k >= 3 {
                            let mut z = Record::new();
                            z.set_chrom(y.chrom());
                            z.set_start(y.start());
                            z.set_end(y.end());
                            z.set_name(y.name().unwrap());
                            z.set_score(y.score().unwrap());
                            for a in r.aux[2..].iter() {
                                z.push_aux(&s(a));
                            }
                            y = z;
                        }
                        y
                    }
                    "clone" => {
                        // copy after half of the columns, finish the copy, spoil the original
                        let mut y = Record::new();
                        y.set_chrom(&s(&r.chrom));
                        y.set_start(r.start);
                        y.set_end(r.end);
                        let half = k / 2;
                        for a in r.aux[..half].iter() {
                            y.push_aux(&s(a));
                        }
                        let mut c = y.clone();
                        y.push_aux("spoiled");
                        y.set_start(7);
                        for a in r.aux[half..].iter() {
                            c.push_aux(&s(a));
                        }
                        c
                    }
                    "clone_from" => {
                        let mut used = to_record(&junk, false);
                        used.push_aux("longer");
                        used.clone_from(&to_record(r, false));
                        used
                    }
                    "serde" => {
                        let js = serde_json::to_string(&to_record(r, true)).unwrap();
                        serde_json::from_str::<Record>(&js).unwrap()
                    }
                    _ => {
                        let mut y = Record::default();
                        y.set_chrom(&s(&r.chrom));
                        y.set_start(r.start);
                        y.set_end(r.end);
                        for a in r.aux.iter() {
                            y.push_aux(&s(a));
                        }
                        y
                    }
                };
                let mut aux = vec![];
                let mut i = 3;
                while let Some(a) = x.aux(i) {
                    aux.push(bytes(a.as_bytes()));
                    i += 1;
                }
                let opt = |o: Option<&str>| match o {
                    Some(t) => json!({"some": 1, "v": bytes(t.as_bytes())}),
                    None => json!({"some": 0, "v": []}),
                };
                let strand = match x.strand() {
                    Some(bio_types::strand::Strand::Forward) => 1,
                    Some(bio_types::strand::Strand::Reverse) => -1,
                    Some(bio_types::strand::Strand::Unknown) => 2,
                    None => 0,
                };
                json!({"chrom": bytes(x.chrom().as_bytes()), "start": dec(x.start()), "end": dec(x.end()),
                    "name": opt(x.name()), "score": opt(x.score()), "strand": strand, "aux": Value::Array(aux),
                    "eq_rebuilt": (x == to_record(r, false)) as u8})
            });
            built.push(x);
            log.oblige(match how {
                "twice" => "bed_setter_twice",
                "clone" => "bed_record_clone_mid_history",
                "clone_from" => "bed_record_clone_from",
                "serde" => "bed_record_serde",
                _ => "bed_record_default",
            });
        }
        // write the records that were actually built (one writer object)
        let mut data: Vec<u8> = vec![];
        log.call("write", json!({"recs": Value::Array(recs.iter().map(rec_json).collect()), "setters": 2, "q": 0}), || {
            let mut errs = 0;
            {
                let mut w = Writer::new(&mut data);
                for r in built.iter() {
                    if w.write(r).is_err() {
                        errs += 1;
                    }
                }
            }
            json!({"bytes": bytes(&data), "errs": errs})
        });
        do_read(log, &data, "exact", "none");
        for via in ["count", "last", "nth", "skip"].iter() {
            let j = rng.below(n as u64 + 1) as usize;
            let mut a = mode_json("via", &data, via);
            a["via"] = json!(via);
            a["j"] = json!(j);
            log.call("read_via", a, || {
                let mut rd = Reader::new(&data[..]);
                match *via {
                    "count" => json!({"n": rd.records().count(), "recs": []}),
                    "last" => match rd.records().last() {
                        Some(x) => json!({"n": 1, "recs": [item(x)]}),
                        None => json!({"n": 0, "recs": []}),
                    },
                    "nth" => match rd.records().nth(j) {
                        Some(x) => json!({"n": 1, "recs": [item(x)]}),
                        None => json!({"n": 0, "recs": []}),
                    },
                    _ => {
                        let v: Vec<Value> = rd.records().skip(j).map(item).collect();
                        json!({"n": v.len(), "recs": v})
                    }
                }
            });
        }
        log.oblige("records_iterator_adaptors");
    }

    // comment lines with arbitrary content (TAB, unbalanced double quotes, very long, `#` only),
    // first / between / last: "comment lines are skipped"
    for _ in 0..log.opts.n(100, 1000) {
        case += 1;
        if !log.mine(case) {
            continue;
        }
        let mut rng = Rng::new(seed, 116, case);
        let k = rng.range(0, 4) as usize;
        if !log.begin("comment", json!({"k": k})) {
            continue;
        }
        let recs: Vec<Rec> = (0..rng.range(1, 4)).map(|_| rand_rec(&mut rng, k, log)).collect();
        let data = match do_write(log, &recs, false, false) {
            Some(x) => x,
            None => continue,
        };
        for _ in 0..2 {
            let (bytes_c, wh) = with_comments(&mut rng, &data);
            for w in wh {
                log.oblige(w);
            }
            log.oblige("bed_comment_arbitrary_content");
            let mut a = mode_json("rtc", &bytes_c, "comments");
            a["base"] = bytes(&data);
            log.call("read", a, || {
                let mut rd = Reader::new(&bytes_c[..]);
                json!({"recs": Value::Array(read_items(&mut rd))})
            });
        }
    }

    // exhaustive "CSV-hostile" columns: every string of length <= 3 over { " \\ ' # % ; = , space }
    // as name and as a later column (quote and backslash together included)
    {
        let hs = hostile_strings();
        for (ci, chunk) in hs.chunks(20).enumerate() {
            case += 1;
            if !log.mine(case) {
                continue;
            }
            if !log.opts.thorough() && (ci as u64 + seed) % 2 == 1 {
                continue; // quick: half of the chunks, rotating with the seed
            }
            let mut rng = Rng::new(seed, 117, case);
            if !log.begin("hostile", json!({"k": 2})) {
                continue;
            }
            let recs: Vec<Rec> = chunk
                .iter()
                .map(|h| {
                    let other = rng.pick(&hs).clone();
                    let mut chrom = if rng.coin() { h.clone() } else { b"chr1".to_vec() };
                    if chrom[0] == b'#' {
                        chrom[0] = b'c';
                    }
                    if h.contains(&b'"') && h.contains(&b'\\') {
                        log.oblige("bed_quote_and_backslash");
                    }
                    Rec { chrom, start: coord(&mut rng), end: coord(&mut rng), aux: vec![h.clone(), other] }
                })
                .collect();
            log.oblige("csv_hostile_exhaustive");
            let data = match do_write(log, &recs, false, true) {
                Some(x) => x,
                None => continue,
            };
            do_read(log, &data, "rt", "none");
        }
    }

    // columns containing double quotes (first position, fully quoted, inner, trailing): the csv
    // layer quotes them on write and unquotes them on read; only parsed == written is judged
    for _ in 0..log.opts.n(200, 2000) {
        case += 1;
        if !log.mine(case) {
            continue;
        }
        let mut rng = Rng::new(seed, 114, case);
        let k = rng.range(1, 5) as usize;
        if !log.begin("quote", json!({"k": k})) {
            continue;
        }
        let n = rng.range(1, 4) as usize;
        let mut recs: Vec<Rec> = vec![];
        for _ in 0..n {
            let mut r = rand_rec(&mut rng, k, log);
            let mut any = false;
            for a in r.aux.iter_mut() {
                if rng.coin() {
                    *a = qtok(&mut rng);
                    any = true;
                    if a[0] == b'"' {
                        log.oblige("bed_quote_first");
                    } else {
                        log.oblige("bed_quote_inner");
                    }
                }
            }
            if !any || rng.chance(1, 4) {
                r.chrom = qtok(&mut rng);
            }
            recs.push(r);
        }
        let data = match do_write(log, &recs, rng.coin(), true) {
            Some(x) => x,
            None => continue,
        };
        do_read(log, &data, "rt", "none");
    }
}

fn main() {
    bio_verif_harness::run(drive)
}
