//! C18 — BitEnc vectors of 10^5 .. 10^7 elements (the spec keeps them run-length encoded).
//! Probes read nr_symbols, nr_blocks and get() around every run boundary, block boundary and at
//! powers of two.
use bio::data_structures::bitenc::BitEnc;
use bio_verif_harness::{Log, Rng};
use serde_json::json;

fn probe(log: &mut Log, b: &BitEnc, idx: &[usize]) {
    log.call("probe", json!({"idx": idx}), || {
        let gets: Vec<i64> = idx.iter().map(|&i| b.get(i).map(|v| v as i64).unwrap_or(-1)).collect();
        json!({"len": b.nr_symbols(), "blocks": b.nr_blocks(), "gets": gets})
    });
}

pub fn drive(log: &mut Log) {
    let seed = log.opts.seed;
    let n = log.opts.n(24, 160);
    for case in 1..=n {
        if !log.mine(case) {
            continue;
        }
        let mut rng = Rng::new(seed, 21, case);
        let w = (case % 8 + 1) as usize;
        // cases 7 and 3 (widths 8 and 4: no padding bits) go beyond 2^32 bits
        let huge = (case == 7 || (case == 3 && log.opts.thorough())) && std::env::var("VERIF_BITENC_HUGE").map(|v| v != "0").unwrap_or(true);
        if !log.begin("big", json!({"w": w})) {
            continue;
        }
        let mut b = BitEnc::new(w);
        log.call("new", json!({"cap": -1}), || json!({}));
        let vpb = (32 - 32 % w) / w;
        let mut len = 0usize;
        let mut bounds: Vec<usize> = vec![0];
        let nruns = rng.range(2, 5);
        let mut okk = true;
        for r in 0..nruns {
            // a few pushes to leave the block partially filled, then a huge push_values
            for _ in 0..rng.below(vpb as u64 + 1) {
                let v = rng.below(256) as u8;
                log.call("push", json!({"v": v}), || {
                    b.push(v);
                    json!({})
                });
                len += 1;
            }
            let big = match r {
                // one case holds more than 2^32 payload bits (512 MiB of storage)
                0 if huge => (1usize << 32) / w - 2,
                0 => *rng.pick(&[65_535usize, 65_536, 65_537, 100_000, 1 << 20, (1 << 22) + 1]),
                _ => rng.range(1000, 300_000) as usize,
            };
            let v = rng.below(256) as u8;
            let rr = log.call("push_values", json!({"n": big, "v": v}), || {
                b.push_values(big, v);
                json!({})
            });
            if rr["st"] != "ok" {
                okk = false;
                break;
            }
            len += big;
            bounds.push(len);
        }
        if !okk {
            continue;
        }
        log.oblige("bitenc_more_than_65536_symbols");
        if huge {
            log.oblige("bitenc_more_than_2p32_bits");
        }
        let mut idx: Vec<usize> = vec![];
        for &bd in &bounds {
            for d in [-2i64, -1, 0, 1, 2] {
                let i = bd as i64 + d;
                if i >= 0 {
                    idx.push(i as usize);
                }
            }
        }
        for p in [255usize, 256, 65_535, 65_536, 65_537, (1 << 20) - 1, 1 << 20, (1 << 22)] {
            idx.push(p);
            idx.push((p / vpb) * vpb);
            idx.push((p / vpb) * vpb + vpb - 1);
        }
        idx.push(len);
        idx.push(len + 1);
        for _ in 0..20 {
            idx.push(rng.below(len as u64 + 3) as usize);
        }
        probe(log, &b, &idx);
        // a few sets far inside, then probe around them
        let mut idx2 = vec![];
        for _ in 0..4 {
            let i = rng.below(len as u64) as usize;
            let v = rng.below(256) as u8;
            log.call("set", json!({"i": i, "v": v}), || {
                b.set(i, v);
                json!({})
            });
            for d in [-1i64, 0, 1] {
                let j = i as i64 + d;
                if j >= 0 {
                    idx2.push(j as usize);
                }
            }
        }
        probe(log, &b, &idx2);
    }
}

fn main() {
    bio_verif_harness::run(drive)
}
