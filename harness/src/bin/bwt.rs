//! C04 — BWT, less, Occ, invert_bwt. One run = one (text, alphabet); events:
//! `sa` (suffix_array), `bwt`, `less`, `occ` (one per sampling rate k: the full table
//! Occ::get(r, c) for every row r and every queried symbol c), `invert` (single-sentinel
//! texts). No expected value is computed here; obligations are pure (n, k, r) arithmetic.
use bio::alphabets::Alphabet;
use bio::data_structures::bwt::{bwt, invert_bwt, less, Occ};
use bio::data_structures::suffix_array::suffix_array;
use bio_verif_harness::{bytes, usizes, Log, Rng};
use serde_json::{json, Value};

/// One `occ` event per sampling rate: the full table Occ::get(r, c), plus the (n, k) arithmetic obligations.
fn occ_events(log: &mut Log, b: &Vec<u8>, alphabet: &Alphabet, syms: &Vec<u8>, ks: &[u32], absent: bool) {
    let n = b.len();
    for &k in ks {
        let ku = k as usize;
        // 0: the table as built; 1: clone(); 2: clone_from() into an Occ that was built for ANOTHER string
        // and rate and has answered already -- copy (tab) and original (tab0) are both asked for every row
        let mode = (n + ku) % 3;
        log.call("occ", json!({"bwt": bytes(b), "k": k, "syms": bytes(syms), "clone": mode}), || {
            let occ = Occ::new(b, k, alphabet);
            let table = |o: &Occ| -> Vec<Value> {
                syms.iter()
                    .map(|&c| {
                        let row: Vec<usize> = (0..b.len()).map(|r| o.get(b, r, c)).collect();
                        usizes(&row)
                    })
                    .collect()
            };
            match mode {
                0 => json!({ "tab": table(&occ) }),
                1 => {
                    let copy = occ.clone();
                    json!({ "tab": table(&copy), "tab0": table(&occ) })
                }
                _ => {
                    let other: Vec<u8> = b.iter().rev().cloned().chain(b.iter().cloned()).collect();
                    let mut used = Occ::new(&other, k + 3, alphabet);
                    let _ = used.get(&other, other.len() - 1, syms[0]);
                    used.clone_from(&occ);
                    json!({ "tab": table(&used), "tab0": table(&occ) })
                }
            }
        });
        if mode == 1 {
            log.oblige("clone_occ_both_continue");
        }
        if mode == 2 {
            log.oblige("clone_from_occ_other_text_both_continue");
        }
        if k == 1 {
            log.oblige("occ_rate_1");
        }
        // boundary regions reached by the full table (arithmetic on n, k only)
        if ku > 1 && n >= ku {
            log.oblige("row_on_checkpoint_and_before");
        }
        if ku >= n {
            log.oblige("single_checkpoint");
        }
        if k == 64 {
            log.oblige("k64");
        }
        if k == 65 {
            log.oblige("k65");
        }
        if ku > 64 {
            let nck = (n - 1) / ku + 1; // number of checkpoints
            if nck >= 2 {
                // rows r with hi_idx - r in {k/2-1, k/2, k/2+1} exist in block 0
                log.oblige("k_gt64_half_boundary");
                if absent {
                    log.oblige("k_gt64_absent_symbol");
                }
            }
            if nck >= 3 {
                log.oblige("k_gt64_three_checkpoints");
            }
            // n an exact multiple of k: hi_checkpoint * k == n for the rows of the last block (no such
            // checkpoint exists); k == n is the single-block case of it
            if n % ku == 0 && n > ku {
                log.oblige("k_gt64_divides_n");
            }
            if n == ku {
                log.oblige("k_gt64_equals_n");
            }
            if (n - 1) % ku != 0 && nck >= 2 {
                log.oblige("k_gt64_last_partial_block");
            }
        }
        if absent {
            log.oblige("absent_symbol");
        }
    }
}

/// Occ on an arbitrary byte string (not necessarily the BWT of a text): the MC domain on the real code.
fn run_raw(log: &mut Log, s: &[u8], alpha: &[u8], ks: &[u32]) {
    if !log.begin("raw", json!({"text": bytes(s), "alpha": bytes(alpha), "single": 0, "raw": 1})) {
        return;
    }
    let alphabet = Alphabet::new(alpha);
    let syms = uniq_sorted(alpha);
    let absent = syms.iter().any(|c| !s.contains(c));
    occ_events(log, &s.to_vec(), &alphabet, &syms, ks, absent);
}

fn run_one(log: &mut Log, tag: &str, text: &[u8], alpha: &[u8], ks: &[u32]) {
    let n = text.len();
    let sent = text[n - 1];
    let single = text.iter().filter(|&&c| c == sent).count() == 1;
    if !log.begin(tag, json!({"text": bytes(text), "alpha": bytes(alpha), "single": single as u8})) {
        return;
    }
    if n == 1 {
        log.oblige("text_len_1");
    }
    if n == 2 {
        log.oblige("text_len_2");
    }
    let mut sa: Vec<usize> = vec![];
    let r = log.call("sa", json!({}), || {
        sa = suffix_array(text);
        json!({"sa": usizes(&sa)})
    });
    if r["st"] != "ok" || sa.len() != n {
        return;
    }
    let mut b: Vec<u8> = vec![];
    let r = log.call("bwt", json!({"sa": usizes(&sa)}), || {
        b = bwt(text, &sa);
        json!({"bwt": bytes(&b)})
    });
    if r["st"] != "ok" {
        return;
    }
    let alphabet = Alphabet::new(alpha);
    log.call("less", json!({"bwt": bytes(&b)}), || {
        let l = less(&b, &alphabet);
        json!({"less": usizes(&l)})
    });
    // symbols to query: the alphabet plus the sentinel
    let mut syms: Vec<u8> = alpha.to_vec();
    if !syms.contains(&sent) {
        syms.push(sent);
    }
    syms.sort();
    syms.dedup();
    let absent = syms.iter().any(|c| !text.contains(c));
    occ_events(log, &b, &alphabet, &syms, ks, absent);
    if single {
        log.call("invert", json!({"bwt": bytes(&b)}), || {
            let t = invert_bwt(&b);
            json!({"text": bytes(&t)})
        });
        log.oblige("invert");
    } else {
        log.oblige("multi_sentinel");
    }
}

fn all_strings(alpha: &[u8], len: usize) -> Vec<Vec<u8>> {
    let mut cur: Vec<Vec<u8>> = vec![vec![]];
    for _ in 0..len {
        let mut nxt = vec![];
        for s in &cur {
            for &c in alpha {
                let mut t = s.clone();
                t.push(c);
                nxt.push(t);
            }
        }
        cur = nxt;
    }
    cur
}

fn uniq_sorted(v: &[u8]) -> Vec<u8> {
    let mut a = v.to_vec();
    a.sort();
    a.dedup();
    a
}

pub fn drive(log: &mut Log) {
    let seed = log.opts.seed;
    let mut case: u64 = 0;
    // (a) exhaustive: all texts body over {A,C,$} of length <= L followed by '$'; all k in 1..=2n
    let lmax = if log.opts.thorough() { 6 } else { 4 };
    for l in 0..=lmax {
        for body in all_strings(b"AC$", l) {
            case += 1;
            if !log.mine(case) {
                continue;
            }
            let mut text = body.clone();
            text.push(b'$');
            let n = text.len();
            let ks: Vec<u32> = (1..=(2 * n) as u32).collect();
            // alphabet: text symbols; every third case a superset with absent symbols
            let alpha: Vec<u8> = if case % 3 == 0 {
                b"$ACGT".to_vec()
            } else if case % 3 == 1 {
                b"AC".to_vec() // '$' is added by Occ::new itself (max symbol > '$')
            } else {
                uniq_sorted(&text)
            };
            run_one(log, "ex", &text, &alpha, &ks);
        }
    }
    log.oblige("exhaustive_small");
    // (a') every string over {$,A,C} as a "BWT" (what the MC run explores), all k in 1..=2n
    let rmax = if log.opts.thorough() { 7 } else { 5 };
    for l in 1..=rmax {
        for st in all_strings(b"$AC", l) {
            case += 1;
            if !log.mine(case) {
                continue;
            }
            let ks: Vec<u32> = (1..=(2 * l) as u32).collect();
            run_raw(log, &st, b"$AC", &ks);
        }
    }
    log.oblige("exhaustive_raw_strings");
    // (b) boundary lengths x sampling rates
    let lens: Vec<usize> = if log.opts.thorough() {
        vec![1, 2, 3, 9, 33, 63, 64, 65, 66, 67, 100, 127, 128, 129, 130, 131, 160, 192, 193, 194, 200, 256,
             257, 258, 259, 260, 261, 300, 321, 387, 388, 400]
    } else {
        vec![1, 2, 7, 64, 65, 66, 129, 130, 131, 195, 196, 259, 260, 300, 400]
    };
    let nvar = log.opts.n(3, 8);
    for &n in &lens {
        for variant in 0..nvar {
            case += 1;
            if !log.mine(case) {
                continue;
            }
            let mut rng = Rng::new(seed, 4, case);
            let shape = (variant + n as u64) % 8;
            // (sentinel, body alphabet)
            let (sent, body_alpha): (u8, Vec<u8>) = match shape {
                0 => (b'$', b"ACGT".to_vec()),
                1 => (b'$', b"A".to_vec()),
                2 => (b'$', b"AC".to_vec()),
                3 => (0u8, vec![1, 2, 3]),
                4 => (b'$', b"ACGTNacgtn".to_vec()),
                5 => (b'#', vec![b'$', b'a', 255]),
                6 => (b'$', b"ACDEFGHIKLMNPQRSTVWY".to_vec()),
                _ => (b'$', b"AT".to_vec()),
            };
            let mut text: Vec<u8> = match shape {
                2 => {
                    // periodic
                    let per = (rng.below(5) + 1) as usize;
                    let unit = rng.seq(per, &body_alpha);
                    (0..n - 1).map(|i| unit[i % per]).collect()
                }
                7 => {
                    // long runs
                    let mut t = vec![];
                    while t.len() < n - 1 {
                        let c = *rng.pick(&body_alpha);
                        let run = (rng.below(90) + 1) as usize;
                        for _ in 0..run {
                            if t.len() < n - 1 {
                                t.push(c);
                            }
                        }
                    }
                    t
                }
                _ => rng.seq(n - 1, &body_alpha),
            };
            // multi-sentinel texts: sprinkle sentinels
            if variant % 3 == 2 && n > 3 {
                let cnt = (rng.below(4) + 1) as usize;
                for _ in 0..cnt {
                    let p = rng.below((n - 1) as u64) as usize;
                    text[p] = sent;
                }
            }
            text.push(sent);
            // alphabets: exact / implicit '$' / superset with absent symbols
            let mut alpha = uniq_sorted(&text);
            match (variant + shape) % 3 {
                0 => {}
                1 => {
                    if sent == b'$' && alpha.iter().any(|&c| c > b'$') {
                        alpha.retain(|&c| c != b'$');
                    }
                }
                _ => {
                    for &c in body_alpha.iter() {
                        alpha.push(c);
                    }
                    alpha.push(*alpha.iter().max().unwrap());
                    let extra = alpha.iter().max().unwrap().saturating_add(3);
                    alpha.push(extra);
                    if sent < 250 {
                        alpha.push(sent + 1);
                    }
                    if sent > 0 && variant % 2 == 0 {
                        alpha.push(sent - 1); // a symbol below the sentinel, absent from the text
                    }
                    alpha = uniq_sorted(&alpha);
                }
            }
            let mut ks: Vec<u32> = vec![1, 2, 3, 7, 8, 63, 64, 65, 66, 100, 128, 129];
            ks.push(n as u32);
            ks.push(2 * n as u32);
            if n > 1 {
                ks.push(n as u32 - 1);
            }
            if n > 2 {
                ks.push((n as u32 - 1) / 2); // exactly three checkpoints for odd n
                ks.push((n as u32 - 2).max(1));
            }
            ks.retain(|&k| k >= 1 && (k as usize) <= 2 * n);
            ks.sort();
            ks.dedup();
            // quick tier: a rotating subset of the small rates, all rates > 64
            if !log.opts.thorough() {
                let keep: Vec<u32> = ks
                    .iter()
                    .cloned()
                    .enumerate()
                    .filter(|(i, k)| *k >= 63 || (*i as u64 + variant) % 2 == 0)
                    .map(|(_, k)| k)
                    .collect();
                ks = keep;
            }
            run_one(log, "bd", &text, &alpha, &ks);
        }
    }
    // (d) long runs of one symbol (600..3000 rows) under Occ rates beyond 256: every counted stretch of
    //     Occ::get -- forwards from the low checkpoint, backwards from the high one -- can then hold
    //     256 and more occurrences of the queried symbol.  Raw strings (Occ does not care whether its
    //     input is the BWT of a text); every row and every symbol is compared.
    let longs: Vec<(usize, usize)> = if log.opts.thorough() {
        vec![(0, 700), (1, 1200), (2, 1300), (3, 2100), (0, 3000), (1, 2600), (2, 900), (3, 3000), (4, 1500)]
    } else {
        vec![(0, 700), (1, 1300), (2, 2100), (3, 3000)]
    };
    for &(shape, n) in &longs {
        case += 1;
        if !log.mine(case) {
            continue;
        }
        let mut rng = Rng::new(seed, 20, case);
        let st: Vec<u8> = match shape {
            0 => {
                let mut v = vec![b'a'; n];
                v[n - 1] = b'$';
                v
            }
            1 => (0..n).map(|i| if i % 2 == 0 { b'a' } else { b'b' }).collect(),
            2 => (0..n).map(|i| if i < n / 2 { b'a' } else { b'b' }).collect(),
            3 => {
                // random runs of 100..700 symbols
                let mut v = vec![];
                while v.len() < n {
                    let c = *rng.pick(b"ab$");
                    for _ in 0..rng.range(100, 700) {
                        if v.len() < n {
                            v.push(c);
                        }
                    }
                }
                v
            }
            _ => (0..n).map(|i| if i % 300 == 7 { b'b' } else { b'a' }).collect(),
        };
        let mut ks: Vec<u32> = vec![257, 300, 512, 514, 600, 1024, n as u32 - 1, n as u32 + 1];
        ks.sort();
        ks.dedup();
        run_raw(log, &st, b"$ab", &ks);
        log.oblige("run_ge_256_occ_rate_gt_256");
    }
    // (e) hidden process-wide state: consecutive indexes IN ONE PROCESS over alphabets of equal size and
    //     equal largest symbol but different members, in both orders; every (r, c) for the CURRENT alphabet
    for g in 0..log.opts.n(4, 12) {
        case += 1;
        if !log.mine(case) {
            continue;
        }
        let mut rng = Rng::new(seed, 27, case);
        let mut group: Vec<&[u8]> = vec![b"$ACGT", b"$ACNT", b"$AGNT", b"$CGNT"];
        if g % 2 == 1 {
            group.reverse();
        }
        for al in group {
            let letters: Vec<u8> = al.iter().cloned().filter(|&c| c != b'$').collect();
            let n = rng.range(3, 90) as usize;
            let mut text = rng.seq(n - 1, &letters);
            text.push(b'$');
            run_one(log, "glob", &text, al, &[1, 3, 65]);
        }
        log.oblige("same_size_same_max_different_alphabets_in_one_process");
    }
    // (c) alphabet sweep: rank-transformed texts over dense integer alphabets 0..=max ending in the
    //     sentinel 0, for every max around '$' (36) and around 255, with and without '$' in the alphabet
    let maxes: Vec<u8> = (30..=40u8).chain([127u8, 128, 253, 254, 255].iter().cloned()).collect();
    for &mx in &maxes {
        for with_dollar in [false, true] {
            if with_dollar && mx < 36 {
                continue; // adding '$' would change the largest symbol
            }
            for variant in 0..log.opts.n(1, 3) {
                case += 1;
                if !log.mine(case) {
                    continue;
                }
                let mut rng = Rng::new(seed, 15, case);
                let mut alpha: Vec<u8> = (0..=mx).collect();
                if !with_dollar {
                    alpha.retain(|&c| c != b'$');
                }
                let letters: Vec<u8> = alpha.iter().cloned().filter(|&c| c != 0).collect();
                let n = rng.range(2, 140) as usize;
                let mut text: Vec<u8> = if variant % 2 == 0 {
                    rng.seq(n - 1, &letters)
                } else {
                    // only a few of the symbols occur (most of the alphabet is absent), the largest one does
                    let few = vec![letters[0], *rng.pick(&letters), *letters.last().unwrap()];
                    rng.seq(n - 1, &few)
                };
                text.push(0);
                let mut ks: Vec<u32> = vec![1, 3, 65];
                ks.push(n as u32);
                run_one(log, "alsw", &text, &alpha, &ks);
                log.oblige("alphabet_max_symbol_sweep_around_dollar");
            }
        }
    }
}

fn main() {
    bio_verif_harness::run(drive)
}
