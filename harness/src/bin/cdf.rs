//! X04 -- discrete distributions and Bayesian models:
//!   `stats::probs::cdf::{CDF, Entry}`            (grp "cdf")
//!   `stats::bayesian::model::{Model, ModelInstance}` (grp "model")
//!   `stats::bayesian::bayes_factors::BayesFactor` + `evidence::KassRaftery` (grp "bf")
//!   `stats::bayesian::expected_fdr`              (grp "fdr")
//!   `stats::probs::adaptive_integration::ln_integrate_exp` (grp "integ")
//!
//! No expected value is computed here.  Projections (the only arithmetic of the harness):
//!   probability weight w (integer, units of 1/d, d a power of two) -> LogProb(ln(w / d)), 0 -> ln_zero;
//!   LogProb lp -> round(exp(lp) * s) (s = 2^20 for CDFs, 2^16 for models), `bad` = 1 for NaN or lp > 0;
//!   f64 moments x -> round(x * s) (standard deviation: round(x * 1024)), `bad` = 1 for NaN / |.| > 2e9;
//!   credible interval width wn / wd (wd a power of two): exact in f64; integration abscissae num / den
//!   (den a power of two): exact in f64.
use bio::stats::bayesian::bayes_factors::{evidence::KassRaftery, BayesFactor};
use bio::stats::bayesian::expected_fdr;
use bio::stats::bayesian::model::{Likelihood, Marginal, Model, Posterior, Prior};
use bio::stats::probs::adaptive_integration::ln_integrate_exp;
use bio::stats::probs::cdf::{Entry, CDF};
use bio::stats::LogProb;
use bio_verif_harness::{i64s, Log, Rng};
use ordered_float::NotNan;
use serde_json::{json, Value};

const S_CDF: i64 = 1 << 20;
const S_MODEL: i64 = 1 << 16;

fn lp_of(w: i64, d: i64) -> LogProb {
    if w == 0 {
        LogProb::ln_zero()
    } else {
        LogProb((w as f64 / d as f64).ln())
    }
}

/// (projected value, bad)
fn proj(lp: LogProb, s: i64) -> (i64, i64) {
    let x = *lp;
    if x.is_nan() || x > 0.0 {
        (0, 1)
    } else {
        ((x.exp() * s as f64).round() as i64, 0)
    }
}

fn projf(x: f64, s: f64) -> Value {
    let y = x * s;
    if y.is_nan() || y.abs() > 2.0e9 {
        json!({"v": 0, "bad": 1})
    } else {
        json!({"v": y.round() as i64, "bad": 0})
    }
}

fn pairs(e: &[(i64, i64)]) -> Value {
    Value::Array(e.iter().map(|&(a, b)| json!([a, b])).collect())
}

// ------------------------------------------------------------------------------------------ CDF
fn dump(c: &CDF<i32>) -> Value {
    let mut vals = vec![];
    let mut cums = vec![];
    let mut bad = 0;
    for e in c.iter() {
        let (p, b) = proj(e.prob, S_CDF);
        vals.push(e.value as i64);
        cums.push(p);
        bad |= b;
    }
    json!({"vals": i64s(&vals), "cums": i64s(&cums), "bad": bad})
}

#[derive(Clone, Debug)]
enum Op {
    Reduce,
    Sample(i64),
    Iter,
    Get(i64),
    GetPmf(i64),
    Total,
    Len,
    IterPmf,
    Map,
    Cred(i64, i64),
    Ev,
    Var,
    Sd,
    Shift(i64),
}

enum Ctor {
    Pmf(Vec<(i64, i64)>),
    Cdf(Vec<(i64, i64)>),
}

fn cdf_run(log: &mut Log, tag: &str, d: i64, ctor: Ctor, ops: &[Op]) {
    if !log.begin(tag, json!({"grp": "cdf", "d": d, "s": S_CDF, "k": S_CDF / d})) {
        return;
    }
    let mut cur: Option<CDF<i32>> = None;
    match ctor {
        Ctor::Pmf(e) => {
            log.call("from_pmf", json!({"e": pairs(&e)}), || {
                let c = CDF::from_pmf(e.iter().map(|&(v, w)| Entry::new(v as i32, lp_of(w, d))).collect());
                let r = dump(&c);
                cur = Some(c);
                r
            });
        }
        Ctor::Cdf(e) => {
            log.call("from_cdf", json!({"e": pairs(&e)}), || {
                let c = CDF::from_cdf(e.iter().map(|&(v, w)| Entry::new(v as i32, lp_of(w, d))));
                let r = dump(&c);
                cur = Some(c);
                r
            });
        }
    }
    let mut cdf = match cur {
        Some(c) => c,
        None => return,
    };
    for op in ops {
        match *op {
            Op::Reduce => {
                let mut next = None;
                log.call("reduce", json!({}), || {
                    let c = cdf.clone().reduce();
                    let r = dump(&c);
                    next = Some(c);
                    r
                });
                if let Some(c) = next {
                    cdf = c;
                }
            }
            Op::Sample(n) => {
                let mut next = None;
                log.call("sample", json!({"n": n}), || {
                    let c = cdf.clone().sample(n as usize);
                    let r = dump(&c);
                    next = Some(c);
                    r
                });
                if let Some(c) = next {
                    cdf = c;
                }
            }
            Op::Iter => {
                log.call("iter", json!({}), || dump(&cdf));
            }
            Op::Get(x) => {
                log.call("get", json!({"x": x}), || match cdf.get(&(x as i32)) {
                    Some(lp) => {
                        let (p, b) = proj(lp, S_CDF);
                        json!({"some": 1, "p": p, "bad": b})
                    }
                    None => json!({"some": 0, "p": 0, "bad": 0}),
                });
            }
            Op::GetPmf(x) => {
                log.call("get_pmf", json!({"x": x}), || match cdf.get_pmf(&(x as i32)) {
                    Some(lp) => {
                        let (p, b) = proj(lp, S_CDF);
                        json!({"some": 1, "p": p, "bad": b})
                    }
                    None => json!({"some": 0, "p": 0, "bad": 0}),
                });
            }
            Op::Total => {
                log.call("total_prob", json!({}), || {
                    let (p, b) = proj(cdf.total_prob(), S_CDF);
                    json!({"p": p, "bad": b})
                });
            }
            Op::Len => {
                log.call("len", json!({}), || json!({"n": cdf.len(), "empty": cdf.is_empty() as i64}));
            }
            Op::IterPmf => {
                log.call("iter_pmf", json!({}), || {
                    let mut vals = vec![];
                    let mut ps = vec![];
                    let mut bad = 0;
                    for e in cdf.iter_pmf() {
                        let (p, b) = proj(e.prob, S_CDF);
                        vals.push(*e.value as i64);
                        ps.push(p);
                        bad |= b;
                    }
                    json!({"vals": i64s(&vals), "ps": i64s(&ps), "bad": bad})
                });
            }
            Op::Map => {
                log.call("map", json!({}), || match cdf.map() {
                    Some(v) => json!({"some": 1, "v": *v}),
                    None => json!({"some": 0, "v": 0}),
                });
            }
            Op::Cred(wn, wd) => {
                log.call("credible_interval", json!({"wn": wn, "wd": wd}), || {
                    match cdf.credible_interval(wn as f64 / wd as f64) {
                        Some(r) => json!({"some": 1, "lo": *r.start, "hi": *r.end}),
                        None => json!({"some": 0, "lo": 0, "hi": 0}),
                    }
                });
            }
            Op::Ev => {
                log.call("expected_value", json!({}), || projf(cdf.expected_value(), S_CDF as f64));
            }
            Op::Var => {
                log.call("variance", json!({}), || projf(cdf.variance(), S_CDF as f64));
            }
            Op::Shift(k) => {
                // iter_mut: replace the values by an order-preserving map (the documented use)
                log.call("shift_values", json!({"k": k}), || {
                    for e in cdf.iter_mut() {
                        e.value += k as i32;
                    }
                    dump(&cdf)
                });
            }
            Op::Sd => {
                log.call("standard_deviation", json!({}), || projf(cdf.standard_deviation(), 1024.0));
            }
        }
    }
}

/// random weights in units of 1/d with total <= d
fn rand_weights(rng: &mut Rng, n: usize, d: i64, normalise: bool) -> Vec<i64> {
    if n == 0 {
        return vec![];
    }
    let mut w: Vec<i64> = vec![0; n];
    let mut left = d;
    // a random composition: each entry takes a random share of what is left, zeros are frequent
    let mut order: Vec<usize> = (0..n).collect();
    for i in (1..n).rev() {
        let j = rng.below(i as u64 + 1) as usize;
        order.swap(i, j);
    }
    for (pos, &i) in order.iter().enumerate() {
        if left == 0 {
            break;
        }
        if rng.chance(1, 4) {
            continue;
        }
        let remaining = (n - pos) as i64;
        let cap = std::cmp::max(1, std::cmp::min(left, 2 * left / remaining + 1));
        let x = match rng.below(8) {
            0 => 1,
            1 => left,
            _ => rng.range(1, cap),
        };
        let x = std::cmp::min(x, left);
        w[i] = x;
        left -= x;
    }
    if normalise && left > 0 {
        let i = rng.below(n as u64) as usize;
        w[i] += left;
    }
    w
}

fn rand_query_ops(rng: &mut Rng, lo: i64, hi: i64, count: usize, moments: bool) -> Vec<Op> {
    let mut ops = vec![];
    for _ in 0..count {
        let op = match rng.below(if moments { 14 } else { 11 }) {
            0 | 1 => Op::Get(rng.range(lo - 1, hi + 1)),
            2 | 3 => Op::GetPmf(rng.range(lo - 1, hi + 1)),
            4 => Op::Total,
            5 => Op::Len,
            6 => Op::IterPmf,
            7 => Op::Map,
            8 | 9 => {
                let wd = *rng.pick(&[2i64, 4, 8, 16]);
                Op::Cred(rng.range(0, wd), wd)
            }
            10 => Op::Iter,
            11 => Op::Ev,
            12 => Op::Var,
            _ => Op::Sd,
        };
        ops.push(op);
    }
    ops
}

fn drive_cdf(log: &mut Log, case: &mut u64) {
    let seed = log.opts.seed;

    // (0) spec -> impl: the family the model checker covers -- every pmf of length <= 3 over values 0..2 and
    // weights 0..2 (units of 1/8), a fixed script of every query, then reduce, then sample
    {
        let mut pmfs: Vec<Vec<(i64, i64)>> = vec![vec![]];
        for l in 1..=3u32 {
            for code in 0..9usize.pow(l) {
                let mut c = code;
                let mut e = vec![];
                for _ in 0..l {
                    e.push(((c % 3) as i64, ((c / 3) % 3) as i64));
                    c /= 9;
                }
                pmfs.push(e);
            }
        }
        for e in pmfs {
            *case += 1;
            if !log.mine(*case) {
                continue;
            }
            let mut ops = vec![Op::Len, Op::Total];
            for x in -1..=3 {
                ops.push(Op::Get(x));
                ops.push(Op::GetPmf(x));
            }
            ops.push(Op::IterPmf);
            ops.push(Op::Map);
            for wn in 0..=4 {
                ops.push(Op::Cred(wn, 4));
            }
            ops.push(Op::Ev);
            ops.push(Op::Var);
            ops.push(Op::Reduce);
            ops.push(Op::Len);
            ops.push(Op::Get(1));
            ops.push(Op::GetPmf(1));
            ops.push(Op::Map);
            ops.push(Op::Cred(2, 4));
            ops.push(Op::Sample(2));
            ops.push(Op::Total);
            log.oblige("cdf_mc_family");
            if e.is_empty() {
                log.oblige("cdf_empty");
            }
            cdf_run(log, "cex", 8, Ctor::Pmf(e), &ops);
        }
    }

    // (a) random pmfs: lengths 0..12, duplicate values, zero-probability entries, dyadic weights
    for _ in 0..log.opts.n(500, 6000) {
        *case += 1;
        if !log.mine(*case) {
            continue;
        }
        let mut rng = Rng::new(seed, 401, *case);
        let d = *rng.pick(&[4i64, 16, 64, 1024, 1 << 20]);
        let n = match rng.below(8) {
            0 => 0,
            1 => 1,
            2 => 2,
            _ => rng.range(3, 12) as usize,
        };
        let span = *rng.pick(&[2i64, 4, 8]);
        let normalise = rng.coin();
        let w = rand_weights(&mut rng, n, d, normalise);
        let e: Vec<(i64, i64)> = w.iter().map(|&x| (rng.range(-span, span), x)).collect();
        let mut seen = std::collections::HashSet::new();
        let mut dup = false;
        for &(v, _) in &e {
            if !seen.insert(v) {
                dup = true;
            }
        }
        if dup {
            log.oblige("cdf_duplicate_values");
        }
        if e.iter().any(|&(_, x)| x == 0) {
            log.oblige("cdf_zero_probability_entry");
        }
        if n == 0 {
            log.oblige("cdf_empty");
        }
        if n == 1 {
            log.oblige("cdf_single_entry");
        }
        if n > 0 && e.iter().all(|&(_, x)| x == 0) {
            log.oblige("cdf_all_zero");
        }
        if normalise && n > 0 {
            log.oblige("cdf_total_one");
        } else {
            log.oblige("cdf_total_below_one");
        }
        let moments = d <= 64;
        let mut ops = rand_query_ops(&mut rng, -span, span, 6, moments);
        if rng.chance(2, 3) {
            ops.push(Op::Reduce);
            log.oblige("cdf_reduce");
            ops.extend(rand_query_ops(&mut rng, -span, span, 4, moments));
        }
        if rng.chance(1, 4) {
            ops.push(Op::Shift(rng.range(-3, 3)));
            log.oblige("cdf_iter_mut");
            ops.extend(rand_query_ops(&mut rng, -span - 3, span + 3, 3, moments));
        }
        if rng.chance(1, 2) {
            let nn = rng.range(2, 8);
            ops.push(Op::Sample(nn));
            ops.extend(rand_query_ops(&mut rng, -span, span, 4, moments));
        }
        if rng.chance(1, 12) {
            ops.push(Op::Sample(rng.range(0, 1)));
            log.oblige("cdf_sample_refused");
            ops.push(Op::Total);
        }
        if rng.chance(1, 8) {
            let wd = *rng.pick(&[2i64, 4]);
            ops.push(Op::Cred(if rng.coin() { wd + 1 } else { -1 }, wd));
            log.oblige("cdf_width_refused");
            ops.push(Op::Len);
        }
        cdf_run(log, "cdf", d, Ctor::Pmf(e), &ops);
    }

    // (b) edge classes, written out
    {
        let edge: Vec<(i64, Vec<(i64, i64)>)> = vec![
            (4, vec![(5, 4)]),                                  // single entry carrying everything
            (4, vec![(5, 0)]),                                  // single entry carrying nothing
            (4, vec![(1, 0), (2, 0), (3, 0)]),                  // nothing anywhere
            (4, vec![(0, 0), (1, 0), (2, 1), (3, 3)]),          // leading zeros
            (4, vec![(0, 1), (1, 3), (2, 0), (3, 0)]),          // trailing zeros
            (8, vec![(7, 1), (7, 1), (7, 1), (7, 1)]),          // one value four times
            (8, vec![(3, 2), (1, 2), (3, 2), (1, 2)]),          // two values interleaved, unsorted
            (16, vec![(0, 0), (1, 2), (2, 2), (3, 2), (4, 2), (5, 2), (6, 2), (7, 2), (8, 2), (10, 0)]),
            (16, vec![(-3, 4), (-2, 0), (-1, 4), (0, 0), (1, 4), (2, 0), (3, 4)]), // alternating zero entries
            (1 << 20, vec![(0, 1), (1, (1 << 20) - 2), (2, 1)]), // smallest weights at both ends
            (1 << 20, vec![(0, (1 << 20) - 1), (1, 1)]),
            (2, vec![(0, 1), (1, 1)]),
        ];
        for (d, e) in edge {
            *case += 1;
            if !log.mine(*case) {
                continue;
            }
            let lo = e.iter().map(|x| x.0).min().unwrap();
            let hi = e.iter().map(|x| x.0).max().unwrap();
            let mut ops = vec![Op::Len, Op::Total, Op::Iter, Op::IterPmf, Op::Map];
            for x in (lo - 1)..=(hi + 1) {
                ops.push(Op::Get(x));
                ops.push(Op::GetPmf(x));
            }
            for wn in 0..=8 {
                ops.push(Op::Cred(wn, 8));
            }
            if d <= 64 {
                ops.extend(vec![Op::Ev, Op::Var, Op::Sd]);
            }
            ops.extend(vec![Op::Reduce, Op::Len, Op::Total, Op::Map, Op::IterPmf, Op::Cred(1, 2), Op::Reduce, Op::Len]);
            ops.extend(vec![Op::Sample(3), Op::Total, Op::Sample(2), Op::Len, Op::Total]);
            log.oblige("cdf_edge_classes");
            log.oblige("cdf_single_entry");
            log.oblige("cdf_all_zero");
            cdf_run(log, "cedge", d, Ctor::Pmf(e), &ops);
        }
    }

    // (c) from_cdf: cumulative entries given directly (strictly increasing values, non-decreasing weights)
    for _ in 0..log.opts.n(120, 1500) {
        *case += 1;
        if !log.mine(*case) {
            continue;
        }
        let mut rng = Rng::new(seed, 402, *case);
        let d = *rng.pick(&[4i64, 16, 64, 1024]);
        let n = rng.range(0, 10) as usize;
        let norm = rng.coin();
        let w = rand_weights(&mut rng, n, d, norm);
        let mut v = rng.range(-6, 0);
        let mut c = 0;
        let mut e = vec![];
        for x in w {
            c += x;
            e.push((v, c));
            v += rng.range(1, 3);
        }
        log.oblige("cdf_from_cdf");
        let moments = d <= 64;
        let mut ops = rand_query_ops(&mut rng, -6, v, 6, moments);
        if rng.coin() {
            ops.push(Op::Reduce);
            ops.extend(rand_query_ops(&mut rng, -6, v, 3, moments));
        }
        if rng.coin() {
            ops.push(Op::Sample(rng.range(2, 6)));
            ops.extend(rand_query_ops(&mut rng, -6, v, 3, moments));
        }
        cdf_run(log, "fcdf", d, Ctor::Cdf(e), &ops);
    }

    // (d) sample: every length 0..40 against every n in 2..12 (entries i -> cumulative i)
    for len in 0..=40i64 {
        *case += 1;
        if !log.mine(*case) {
            continue;
        }
        let e: Vec<(i64, i64)> = (1..=len).map(|i| (i, i)).collect();
        if !log.begin("samp", json!({"grp": "cdf", "d": 64, "s": S_CDF, "k": S_CDF / 64})) {
            continue;
        }
        let mut cur = None;
        log.call("from_cdf", json!({"e": pairs(&e)}), || {
            let c: CDF<i32> = CDF::from_cdf(e.iter().map(|&(v, w)| Entry::new(v as i32, lp_of(w, 64))));
            let r = dump(&c);
            cur = Some(c);
            r
        });
        let cdf = match cur {
            Some(c) => c,
            None => continue,
        };
        for n in 2..=12i64 {
            // `sample_fresh`: sample applied to a copy of the constructed object (the model state is not advanced)
            log.call("sample_fresh", json!({"n": n}), || dump(&cdf.clone().sample(n as usize)));
        }
        log.oblige("cdf_sample_all_lengths");
    }
}

// ---------------------------------------------------------------------------------------- model
type Ev = NotNan<f64>;

struct TablePrior {
    vals: Vec<i64>,
    pr: Vec<i64>,
    d: i64,
}
fn index_of(vals: &[i64], e: &Ev) -> usize {
    vals.iter().position(|&v| v as f64 == **e).unwrap()
}
impl Prior for TablePrior {
    type Event = Ev;
    fn compute(&self, event: &Ev) -> LogProb {
        lp_of(self.pr[index_of(&self.vals, event)], self.d)
    }
}
struct TableLikelihood {
    vals: Vec<i64>,
    lk: Vec<Vec<i64>>,
    d: i64,
}
impl Likelihood<Vec<u32>> for TableLikelihood {
    type Event = Ev;
    type Data = usize;
    fn compute(&self, event: &Ev, data: &usize, payload: &mut Vec<u32>) -> LogProb {
        let i = index_of(&self.vals, event);
        payload.push(i as u32);
        CALLS.with(|c| c.set(c.get() + 1));
        lp_of(self.lk[*data][i], self.d)
    }
}
thread_local! {
    static CALLS: std::cell::Cell<i64> = std::cell::Cell::new(0);
}
/// posterior event g = group of base events; its probability is the sum of their joint probabilities
struct GroupPosterior {
    vals: Vec<i64>,
    groups: Vec<Vec<usize>>,
}
impl Posterior for GroupPosterior {
    type Event = usize;
    type BaseEvent = Ev;
    type Data = usize;
    fn compute<F: FnMut(&Ev, &usize) -> LogProb>(&self, event: &usize, data: &usize, joint_prob: &mut F) -> LogProb {
        let ps: Vec<LogProb> = self.groups[*event]
            .iter()
            .map(|&i| joint_prob(&NotNan::new(self.vals[i] as f64).unwrap(), data))
            .collect();
        LogProb::ln_sum_exp(&ps)
    }
}
struct UniverseMarginal {
    u: Vec<usize>,
}
impl Marginal for UniverseMarginal {
    type Event = usize;
    type BaseEvent = Ev;
    type Data = usize;
    fn compute<F: FnMut(&usize, &usize) -> LogProb>(&self, data: &usize, joint_prob: &mut F) -> LogProb {
        let ps: Vec<LogProb> = self.u.iter().map(|g| joint_prob(g, data)).collect();
        LogProb::ln_sum_exp(&ps)
    }
}

fn drive_model(log: &mut Log, case: &mut u64) {
    let seed = log.opts.seed;
    for round in 0..log.opts.n(260, 3000) {
        *case += 1;
        if !log.mine(*case) {
            continue;
        }
        let mut rng = Rng::new(seed, 403, *case);
        let d = *rng.pick(&[2i64, 4, 8, 16]);
        let k = if round < 40 { 1 + (round % 4) as usize } else { rng.range(1, 6) as usize };
        // distinct event values
        let mut vals: Vec<i64> = vec![];
        while vals.len() < k {
            let v = rng.range(-6, 6);
            if !vals.contains(&v) {
                vals.push(v);
            }
        }
        let pr = {
            let norm = rng.coin();
            let w = rand_weights(&mut rng, k, d, norm);
            if w.iter().all(|&x| x == 0) {
                vec![1; k]
            } else {
                w
            }
        };
        let ndata = rng.range(1, 3) as usize;
        let lk: Vec<Vec<i64>> = (0..ndata)
            .map(|_| (0..k).map(|_| if rng.chance(1, 5) { 0 } else { rng.range(1, d) }).collect())
            .collect();
        // groups: the singletons first (identity posterior), then random subsets (may overlap, may be empty)
        let mut groups: Vec<Vec<usize>> = (0..k).map(|i| vec![i]).collect();
        for _ in 0..rng.range(0, 3) {
            let g: Vec<usize> = (0..k).filter(|_| rng.coin()).collect();
            groups.push(g);
        }
        let cfg = json!({"grp": "model", "d": d, "s": S_MODEL, "vals": i64s(&vals), "pr": i64s(&pr),
            "lk": Value::Array(lk.iter().map(|r| i64s(r)).collect()),
            "groups": Value::Array(groups.iter().map(|g| Value::Array(g.iter().map(|&i| json!(i)).collect())).collect())});
        if !log.begin("model", cfg) {
            continue;
        }
        let model: Model<TableLikelihood, TablePrior, GroupPosterior, Vec<u32>> = Model::new(
            TableLikelihood { vals: vals.clone(), lk: lk.clone(), d },
            TablePrior { vals: vals.clone(), pr: pr.clone(), d },
            GroupPosterior { vals: vals.clone(), groups: groups.clone() },
        );
        for _ in 0..2 {
            let dat = rng.below(ndata as u64) as usize;
            // universe: a random non-empty list of posterior events; sometimes all singletons (a partition)
            let u: Vec<usize> = match rng.below(3) {
                0 => (0..k).collect(),
                1 => (0..groups.len()).collect(),
                _ => {
                    let mut u: Vec<usize> = (0..groups.len()).filter(|_| rng.coin()).collect();
                    if u.is_empty() {
                        u.push(rng.below(groups.len() as u64) as usize);
                    }
                    if rng.chance(1, 4) {
                        let x = u[0];
                        u.push(x); // the same posterior event twice
                        log.oblige("model_duplicate_universe_entry");
                    }
                    u
                }
            };
            // precondition: the marginal is positive (the posterior is undefined otherwise)
            let positive = u.iter().any(|&g| groups[g].iter().any(|&i| pr[i] > 0 && lk[dat][i] > 0));
            if !positive {
                continue;
            }
            if u.iter().any(|&g| groups[g].len() >= 2) {
                log.oblige("model_group_event");
            }
            if u.iter().any(|&g| groups[g].is_empty()) {
                log.oblige("model_empty_group");
            }
            if (0..k).any(|i| pr[i] == 0 || lk[dat][i] == 0) {
                log.oblige("model_zero_joint");
            }
            if k == 1 {
                log.oblige("model_single_event");
            }
            let via_marginal = rng.chance(1, 3);
            let mut u = u;
            if via_marginal {
                // the marginal model used here sums over the listed posterior events: list each once
                let mut seen = std::collections::HashSet::new();
                u.retain(|g| seen.insert(*g));
                log.oblige("model_from_marginal");
            }
            let mut inst = None;
            let uu: Vec<i64> = u.iter().map(|&g| g as i64).collect();
            log.call(if via_marginal { "compute_from_marginal" } else { "compute" }, json!({"u": i64s(&uu), "dat": dat}), || {
                CALLS.with(|c| c.set(0));
                let m = if via_marginal {
                    model.compute_from_marginal(&UniverseMarginal { u: u.clone() }, &dat)
                } else {
                    model.compute(u.clone(), &dat)
                };
                // the marginal over overlapping posterior events is a sum of joint probabilities, not a
                // probability: values above one are legitimate here
                let x = m.marginal().exp() * S_MODEL as f64;
                let (p, b) = if x.is_nan() || x > 2.0e9 { (0, 1) } else { (x.round() as i64, 0) };
                let calls = CALLS.with(|c| c.get());
                inst = Some(m);
                json!({"marg": p, "bad": b, "calls": calls})
            });
            let inst = match inst {
                Some(m) => m,
                None => continue,
            };
            for g in 0..groups.len() {
                log.call("posterior", json!({"g": g}), || match inst.posterior(&g) {
                    Some(lp) => {
                        let (p, b) = proj(lp, S_MODEL);
                        json!({"some": 1, "p": p, "bad": b})
                    }
                    None => json!({"some": 0, "p": 0, "bad": 0}),
                });
            }
            log.call("maximum_posterior", json!({}), || match inst.maximum_posterior() {
                Some(e) => json!({"some": 1, "v": **e as i64}),
                None => json!({"some": 0, "v": 0}),
            });
            log.call("event_posteriors", json!({}), || {
                let mut vs = vec![];
                let mut ps = vec![];
                let mut bad = 0;
                for (e, lp) in inst.event_posteriors() {
                    let (p, b) = proj(lp, S_MODEL);
                    vs.push(**e as i64);
                    ps.push(p);
                    bad |= b;
                }
                json!({"vals": i64s(&vs), "ps": i64s(&ps), "bad": bad})
            });
            // the expectation of the event value is recorded where the posterior events are the base events
            // themselves, each listed once (their posteriors then sum to one)
            let mut distinct = std::collections::HashSet::new();
            if u.iter().all(|&g| g < k && distinct.insert(g)) {
                log.call("expected_value", json!({}), || projf(*inst.expected_value(), S_MODEL as f64));
                log.oblige("model_expected_value");
            }
            log.oblige("model_compute");
        }
    }
}

// --------------------------------------------------------------------------------- Bayes factors
fn kr(bf: BayesFactor) -> Value {
    let e = bf.evidence_kass_raftery();
    let name = e.to_string();
    let back = name.parse::<KassRaftery>().map(|x| x as i64).unwrap_or(-1);
    json!({"lvl": e as i64, "name": name, "back": back})
}

fn drive_bf(log: &mut Log, case: &mut u64) {
    let seed = log.opts.seed;
    // (a) the whole axis on a grid of quarters, 0 .. 160, plus negative values and infinity
    for block in 0..8i64 {
        *case += 1;
        if !log.mine(*case) {
            continue;
        }
        if !log.begin("bfgrid", json!({"grp": "bf"})) {
            continue;
        }
        for i in 0..=80i64 {
            let num = block * 81 + i;
            log.call("evidence", json!({"num": num, "den": 4, "ulp": 0}), || kr(BayesFactor(num as f64 / 4.0)));
        }
        log.call("evidence", json!({"num": -(block + 1), "den": 4, "ulp": 0}), || kr(BayesFactor(-(block + 1) as f64 / 4.0)));
        log.call("evidence_inf", json!({}), || kr(BayesFactor(f64::INFINITY)));
        log.oblige("bf_axis_grid");
    }
    // (b) the four thresholds and their floating-point neighbours
    {
        *case += 1;
        if log.mine(*case) && log.begin("bfulp", json!({"grp": "bf"})) {
            for &t in &[1i64, 3, 20, 150] {
                for ulp in -2..=2i64 {
                    log.call("evidence", json!({"num": t, "den": 1, "ulp": ulp}), || {
                        let bits = (t as f64).to_bits() as i64 + ulp;
                        kr(BayesFactor(f64::from_bits(bits as u64)))
                    });
                }
            }
            log.oblige("bf_threshold_neighbours");
        }
    }
    // (c) BayesFactor::new from two log-probabilities
    for _ in 0..log.opts.n(40, 400) {
        *case += 1;
        if !log.mine(*case) {
            continue;
        }
        let mut rng = Rng::new(seed, 404, *case);
        if !log.begin("bfnew", json!({"grp": "bf"})) {
            continue;
        }
        for _ in 0..12 {
            let d = 1024i64;
            let wb = rng.range(1, 40);
            let wa = match rng.below(6) {
                0 => wb,
                1 => 3 * wb,
                2 => 20 * wb,
                3 => std::cmp::min(150 * wb, d),
                4 => 0,
                _ => rng.range(0, d),
            };
            log.call("new", json!({"wa": wa, "wb": wb, "d": d}), || {
                let bf = BayesFactor::new(lp_of(wa, d), lp_of(wb, d));
                let mut r = kr(bf);
                let k = *bf * 1024.0;
                r["k"] = if k.is_nan() || k.abs() > 2.0e9 { json!(-1) } else { json!(k.round() as i64) };
                r
            });
        }
        log.oblige("bf_from_logprobs");
    }
}

// ------------------------------------------------------------------------------------------ FDR
fn drive_fdr(log: &mut Log, case: &mut u64) {
    let seed = log.opts.seed;
    for _ in 0..log.opts.n(60, 600) {
        *case += 1;
        if !log.mine(*case) {
            continue;
        }
        let mut rng = Rng::new(seed, 405, *case);
        if !log.begin("fdr", json!({"grp": "fdr", "s": S_MODEL})) {
            continue;
        }
        for _ in 0..6 {
            let d = *rng.pick(&[4i64, 16, 64]);
            let n = match rng.below(6) {
                0 => 0,
                1 => 1,
                _ => rng.range(2, 8) as usize,
            };
            let peps: Vec<i64> = (0..n).map(|_| if rng.chance(1, 6) { 0 } else if rng.chance(1, 8) { d } else { rng.range(0, d) }).collect();
            if n == 0 {
                log.oblige("fdr_empty");
            }
            let mut sorted = peps.clone();
            sorted.sort();
            if sorted.windows(2).any(|w| w[0] == w[1]) {
                log.oblige("fdr_ties");
            }
            log.call("expected_fdr", json!({"peps": i64s(&peps), "d": d}), || {
                let lps: Vec<LogProb> = peps.iter().map(|&w| lp_of(w, d)).collect();
                let out = expected_fdr(&lps);
                let mut ps = vec![];
                let mut bad = 0;
                for lp in out {
                    let (p, b) = proj(lp, S_MODEL);
                    ps.push(p);
                    bad |= b;
                }
                json!({"out": i64s(&ps), "bad": bad})
            });
        }
        log.oblige("fdr");
    }
}

// ------------------------------------------------------------------------------ adaptive integration
/// densities that are linear between the listed knots (abscissae in units of 1/den, heights in units of 1/hd);
/// evaluated exactly in f64 for dyadic abscissae
fn pl_density(knots: &[(i64, i64)], den: i64, hd: i64, x: f64) -> LogProb {
    let t = x * den as f64;
    let mut y = 0.0;
    for w in knots.windows(2) {
        let (x0, y0) = (w[0].0 as f64, w[0].1 as f64);
        let (x1, y1) = (w[1].0 as f64, w[1].1 as f64);
        if t >= x0 && t <= x1 {
            y = y0 + (y1 - y0) * (t - x0) / (x1 - x0);
            break;
        }
    }
    if y <= 0.0 {
        LogProb::ln_zero()
    } else {
        LogProb((y / hd as f64).ln())
    }
}

fn drive_integ(log: &mut Log, case: &mut u64) {
    let seed = log.opts.seed;
    for _ in 0..log.opts.n(100, 1000) {
        *case += 1;
        if !log.mine(*case) {
            continue;
        }
        let mut rng = Rng::new(seed, 406, *case);
        if !log.begin("integ", json!({"grp": "integ", "s": S_MODEL})) {
            continue;
        }
        for _ in 0..6 {
            let den = *rng.pick(&[1i64, 2, 4, 8]);
            let a = rng.range(-8, 8);
            let width = rng.range(1, 16);
            let b = a + width;
            let hd = 128i64;
            // shape: "lin" = one linear piece over [a, b]; "tent" = two pieces meeting at the midpoint (the first
            // grid point the method adds); "peak" = two pieces of opposite slope +-sl meeting anywhere else: a
            // density symmetric about its mode, the case the maximum search is made for
            let shape = rng.below(3);
            let tent = shape == 1 && width % 2 == 0;
            let peak = shape == 2 && width >= 3;
            let knots: Vec<(i64, i64)> = if peak {
                let c = rng.range(a + 1, b - 1);
                let sl = rng.range(1, 4);
                let ym = sl * std::cmp::max(c - a, b - c) + rng.range(0, 8);
                vec![(a, ym - sl * (c - a)), (c, ym), (b, ym - sl * (b - c))]
            } else {
                let ya = rng.range(0, 16);
                let yb = rng.range(0, 16);
                let ym = rng.range(std::cmp::max(ya, yb), 16);
                if tent { vec![(a, ya), ((a + b) / 2, ym), (b, yb)] } else { vec![(a, ya), (b, yb)] }
            };
            let (ya, yb) = (knots[0].1, knots[knots.len() - 1].1);
            if knots.iter().all(|k| k.1 == 0) {
                continue;
            }
            let rden = *rng.pick(&[1i64, 4, 16, 64]);
            let rnum = if peak { rng.range(1, 4) } else { rng.range(1, 8) };
            if peak {
                log.oblige("integ_peak");
                if 2 * knots[1].0 != a + b {
                    log.oblige("integ_peak_off_centre");
                }
            } else if tent {
                log.oblige("integ_tent");
            } else {
                log.oblige("integ_linear");
            }
            if ya == 0 || yb == 0 {
                log.oblige("integ_zero_endpoint");
            }
            if rnum * den > width * rden {
                log.oblige("integ_resolution_wider_than_interval");
            }
            log.call("ln_integrate_exp", json!({"knots": pairs(&knots), "den": den, "hd": hd, "rnum": rnum, "rden": rden}), || {
                let mut evals = 0i64;
                let r = ln_integrate_exp(
                    |x: NotNan<f64>| {
                        evals += 1;
                        pl_density(&knots, den, hd, *x)
                    },
                    NotNan::new(a as f64 / den as f64).unwrap(),
                    NotNan::new(b as f64 / den as f64).unwrap(),
                    NotNan::new(rnum as f64 / rden as f64).unwrap(),
                );
                let x = *r;
                if x.is_nan() || x > 20.0 {
                    json!({"v": 0, "bad": 1, "evals": evals})
                } else {
                    json!({"v": (x.exp() * S_MODEL as f64).round() as i64, "bad": 0, "evals": evals})
                }
            });
        }
    }
}

pub fn drive(log: &mut Log) {
    let mut case: u64 = 0;
    drive_cdf(log, &mut case);
    drive_model(log, &mut case);
    drive_bf(log, &mut case);
    drive_fdr(log, &mut case);
    drive_integ(log, &mut case);
}

fn main() {
    bio_verif_harness::run(drive)
}
