//! C09 — distance functions (hamming, levenshtein, their SIMD versions, bounded
//! Levenshtein). One run = one pair of strings; the bounds handed to
//! `bounded_levenshtein` are chosen around the value `levenshtein` just returned
//! (a driver hint, not an oracle: TLC judges every answer against the definition).
use bio::alignment::distance::{hamming, levenshtein, simd};
use bio_verif_harness::{bytes, Log, Rng};
use serde_json::json;

fn num64(x: u64) -> i64 {
    if x >= (1u64 << 31) {
        -2
    } else {
        x as i64
    }
}

fn run_one(log: &mut Log, tag: &str, a: &[u8], b: &[u8], with_lev: bool) {
    if !log.begin(tag, json!({"a": bytes(a), "b": bytes(b)})) {
        return;
    }
    log.call("hamming", json!({}), || json!({"d": num64(hamming(a, b))}));
    log.call("simd_hamming", json!({}), || json!({"d": num64(simd::hamming(a, b))}));
    if a.len() != b.len() {
        log.oblige("hamming_unequal_refused");
    }
    if !with_lev {
        return;
    }
    let r = log.call("lev", json!({}), || json!({"d": num64(levenshtein(a, b) as u64)}));
    log.call("simd_lev", json!({}), || json!({"d": num64(simd::levenshtein(a, b) as u64)}));
    let d = r.get("d").and_then(|x| x.as_i64()).unwrap_or(3);
    let mx = a.len().max(b.len()) as i64;
    if d > 0 && d < mx {
        log.oblige("nontrivial"); // neither equal strings nor "everything differs"
    }
    let mut ks: Vec<i64> = vec![0, d - 1, d, d + 1, mx - 1, mx, mx + 1, -1];
    ks.retain(|&k| k >= -1);
    ks.sort();
    ks.dedup();
    for k in ks {
        let kk: u32 = if k < 0 { u32::MAX } else { k as u32 };
        log.call("bounded", json!({ "k": k }), || {
            json!({"d": match simd::bounded_levenshtein(a, b, kk) { Some(x) => num64(x as u64), None => -1 }})
        });
        if k >= 0 && k == d - 1 {
            log.oblige("bound_d_minus_1");
        }
        if k == d {
            log.oblige("bound_d");
        }
        if k < 0 {
            log.oblige("bound_u32_max");
        }
    }
}

fn all_strings(alpha: &[u8], maxlen: usize) -> Vec<Vec<u8>> {
    let mut out: Vec<Vec<u8>> = vec![vec![]];
    let mut cur: Vec<Vec<u8>> = vec![vec![]];
    for _ in 1..=maxlen {
        let mut nxt = vec![];
        for s in &cur {
            for &c in alpha {
                let mut t = s.clone();
                t.push(c);
                nxt.push(t);
            }
        }
        out.extend(nxt.iter().cloned());
        cur = nxt;
    }
    out
}

fn mutate(rng: &mut Rng, s: &[u8], edits: usize, alpha: &[u8]) -> Vec<u8> {
    let mut v = s.to_vec();
    for _ in 0..edits {
        match rng.below(3) {
            0 if !v.is_empty() => {
                let i = rng.below(v.len() as u64) as usize;
                v[i] = *rng.pick(alpha);
            }
            1 => {
                let i = rng.below(v.len() as u64 + 1) as usize;
                v.insert(i, *rng.pick(alpha));
            }
            _ if !v.is_empty() => {
                let i = rng.below(v.len() as u64) as usize;
                v.remove(i);
            }
            _ => {}
        }
    }
    v
}

pub fn drive(log: &mut Log) {
    let seed = log.opts.seed;
    let mut case: u64 = 0;
    // (a) exhaustive over {a,b}
    let l = if log.opts.thorough() { 4 } else { 3 };
    let strs = all_strings(b"ab", l);
    for a in &strs {
        for b in &strs {
            case += 1;
            if !log.mine(case) {
                continue;
            }
            run_one(log, "ex", a, b, true);
            log.oblige("exhaustive_small");
            if a.is_empty() || b.is_empty() {
                log.oblige("empty_string");
            }
        }
    }
    // (b) lengths around the SIMD lane sizes; related strings (few edits) and unrelated ones
    let lens: Vec<usize> = if log.opts.thorough() {
        vec![1, 2, 15, 16, 17, 31, 32, 33, 47, 63, 64, 65, 100, 127, 128, 129, 200, 255, 256, 257, 300]
    } else {
        vec![1, 15, 16, 17, 31, 32, 33, 63, 64, 65, 100, 128, 129]
    };
    let nvar = log.opts.n(3, 12);
    for &n in &lens {
        for variant in 0..nvar {
            case += 1;
            if !log.mine(case) {
                continue;
            }
            if n >= 200 && variant >= 3 {
                continue; // a 300 x 300 matrix is 90 000 cells for the specification
            }
            let mut rng = Rng::new(seed, 31, case);
            let alpha: Vec<u8> = match variant % 3 {
                0 => b"ACGT".to_vec(),
                1 => b"ab".to_vec(),
                _ => (0..=255u8).collect(),
            };
            let a = rng.seq(n, &alpha);
            let b = match variant % 4 {
                0 => mutate(&mut rng, &a, 1 + n / 16, &alpha),
                1 => {
                    // equal length, a few substitutions (hamming lanes)
                    let mut b = a.clone();
                    for _ in 0..(1 + n / 10) {
                        let i = rng.below(n as u64) as usize;
                        b[i] = *rng.pick(&alpha);
                    }
                    b
                }
                2 => {
                    let l2 = (n + rng.below(9) as usize).saturating_sub(4);
                    rng.seq(l2, &alpha)
                }
                _ => mutate(&mut rng, &a, n / 3 + 1, &alpha),
            };
            if n >= 15 {
                log.oblige("simd_lane_lengths");
            }
            run_one(log, "ln", &a, &b, true);
            if variant == 0 {
                // one string empty
                run_one(log, "le", &a, &[], true);
                log.oblige("empty_string");
            }
        }
    }
    // (c) long equal-length strings for the Hamming routines only (linear for the specification)
    let n = log.opts.n(12, 60);
    for i in 0..n {
        case += 1;
        if !log.mine(case) {
            continue;
        }
        let mut rng = Rng::new(seed, 32, case);
        let len = *rng.pick(&[255usize, 256, 257, 1000, 1023, 1024, 1025, 3000]);
        let alpha: Vec<u8> = if i % 2 == 0 { b"ACGT".to_vec() } else { (0..=255u8).collect() };
        let a = rng.seq(len, &alpha);
        let mut b = a.clone();
        let subs = rng.below(len as u64 / 2 + 1);
        for _ in 0..subs {
            let j = rng.below(len as u64) as usize;
            b[j] = *rng.pick(&alpha);
        }
        log.oblige("hamming_long");
        run_one(log, "hm", &a, &b, false);
    }
}

fn main() {
    bio_verif_harness::run(drive)
}
