use bio_verif_harness::{fam, install_guards, parse_opts, Log};

fn main() {
    let opts = parse_opts();
    let timeout: u64 = std::env::var("VERIF_CALL_TIMEOUT_MS")
        .ok()
        .and_then(|s| s.parse().ok())
        .unwrap_or(20_000);
    install_guards(timeout, 4 << 30);
    let mut log = Log::new(opts.clone());
    match opts.fam.as_str() {
        "exact" => fam::exact::drive(&mut log),
        other => {
            eprintln!("unknown family {}", other);
            std::process::exit(2);
        }
    }
    log.finish();
}
