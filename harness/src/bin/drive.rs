use bio_verif_harness::{fam, install_guards, parse_opts, Log};

fn main() {
    let opts = parse_opts();
    let timeout: u64 = std::env::var("VERIF_CALL_TIMEOUT_MS")
        .ok()
        .and_then(|s| s.parse().ok())
        .unwrap_or(20_000);
    install_guards(timeout, 4 << 30);
    let mut log = Log::new(opts.clone());
    if !fam::dispatch(opts.fam.as_str(), &mut log) {
        eprintln!("unknown family {}", opts.fam);
        std::process::exit(2);
    }
    log.finish();
}
