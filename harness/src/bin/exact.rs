//! C08 — exact matchers. One run = one matcher object (algo, pattern);
//! events: `new`, then `find_all` on several texts (same object).
use bio_verif_harness::{bytes, usizes, Log, Rng};
use bio::pattern_matching::{bndm::BNDM, bom::BOM, horspool::Horspool, kmp::KMP, shift_and::ShiftAnd};
use serde_json::json;

pub const ALGOS: [&str; 5] = ["shiftand", "bndm", "bom", "horspool", "kmp"];

#[derive(Clone)]
enum M<'a> {
    SA(ShiftAnd),
    BN(BNDM),
    BO(BOM),
    HO(Horspool<'a>),
    KM(KMP<'a>),
}

fn run_one(log: &mut Log, tag: &str, algo: &str, p: &[u8], texts: &[Vec<u8>]) {
    if !log.begin(tag, json!({"algo": algo, "p": bytes(p)})) {
        return;
    }
    let mut m: Option<M> = None;
    log.call("new", json!({}), || {
        m = Some(match algo {
            // the pattern by reference, by value, or through a reversed-twice iterator (all ExactSize)
            "shiftand" => M::SA(match p.len() % 3 {
                0 => ShiftAnd::new(p),
                1 => ShiftAnd::new(p.iter().cloned()),
                _ => ShiftAnd::new(p.iter().rev().rev()),
            }),
            "bndm" => M::BN(match p.len() % 3 {
                0 => BNDM::new(p),
                1 => BNDM::new(p.iter().cloned()),
                _ => BNDM::new(p.to_vec()),
            }),
            "bom" => M::BO(BOM::new(p)),
            "horspool" => M::HO(Horspool::new(p)),
            _ => M::KM(KMP::new(p)),
        });
        json!({})
    });
    let mut m = match m {
        Some(m) => m,
        None => return,
    };
    for (ti, t) in texts.iter().enumerate() {
        if ti == 2 {
            // go on with a copy of the matcher object
            let c = m.clone();
            m = c;
        }
        if ti % 3 == 2 {
            // a match iterator forked in the middle of a search: first item, then a CLONE of the
            // iterator continues (the original's continuation must agree with it)
            macro_rules! fork {
                ($it:expr) => {{
                    let mut it = $it;
                    let mut v: Vec<usize> = vec![];
                    if let Some(p) = it.next() {
                        v.push(p);
                    }
                    let c = it.clone();
                    let rest_orig: Vec<usize> = it.collect();
                    let rest: Vec<usize> = c.collect();
                    if rest != rest_orig {
                        v.push(usize::MAX >> 40); // not a position of any text used here
                    }
                    v.extend(rest);
                    v
                }};
            }
            log.call("find_all", json!({"t": bytes(t), "fork": 1}), || {
                let v: Vec<usize> = match &m {
                    M::SA(x) => fork!(x.find_all(t.iter())),
                    M::BN(x) => fork!(x.find_all(t)),
                    M::BO(x) => fork!(x.find_all(t)),
                    M::HO(x) => fork!(x.find_all(t)),
                    M::KM(x) => fork!(x.find_all(t.iter())),
                };
                json!({"v": usizes(&v)})
            });
        }
        // every 4th text is also handed over as a lazy iterator without a size hint (find_all takes
        // any IntoIterator for ShiftAnd and KMP)
        if ti % 4 == 1 {
            if let M::SA(_) | M::KM(_) = &m {
                log.call("find_all", json!({"t": bytes(t), "lazy": 1}), || {
                    let v: Vec<usize> = match &m {
                        M::SA(x) => x.find_all(t.iter().filter(|_| true)).collect(),
                        M::KM(x) => x.find_all(t.iter().filter(|_| true)).collect(),
                        _ => vec![],
                    };
                    json!({"v": usizes(&v)})
                });
            }
        }
        log.call("find_all", json!({"t": bytes(t)}), || {
            let v: Vec<usize> = match &m {
                M::SA(x) if ti % 2 == 1 => x.find_all(t.iter().cloned()).collect(), // items by value
                M::KM(x) if ti % 2 == 1 => x.find_all(t.iter().cloned()).collect(),
                M::SA(x) => x.find_all(t.iter()).collect(),
                M::BN(x) => x.find_all(t).collect(),
                M::BO(x) => x.find_all(t).collect(),
                M::HO(x) => x.find_all(t).collect(),
                M::KM(x) => x.find_all(t.iter()).collect(),
            };
            json!({"v": usizes(&v)})
        });
    }
}

fn all_strings(alpha: &[u8], maxlen: usize, minlen: usize) -> Vec<Vec<u8>> {
    let mut out = vec![];
    let mut cur: Vec<Vec<u8>> = vec![vec![]];
    if minlen == 0 {
        out.push(vec![]);
    }
    for l in 1..=maxlen {
        let mut nxt = vec![];
        for s in &cur {
            for &c in alpha {
                let mut t = s.clone();
                t.push(c);
                nxt.push(t);
            }
        }
        if l >= minlen {
            out.extend(nxt.iter().cloned());
        }
        cur = nxt;
    }
    out
}

/// text with the pattern planted several times (overlapping where periodic)
fn planted(rng: &mut Rng, p: &[u8], n: usize, alpha: &[u8]) -> Vec<u8> {
    let mut t = rng.seq(n, alpha);
    let k = rng.below(4) + 1;
    for _ in 0..k {
        if n >= p.len() {
            let pos = rng.below((n - p.len() + 1) as u64) as usize;
            t[pos..pos + p.len()].copy_from_slice(p);
        }
    }
    t
}

pub fn drive(log: &mut Log) {
    let seed = log.opts.seed;
    let mut case: u64 = 0;
    // (a) exhaustive over {a,b}
    let (pl, tl) = if log.opts.thorough() { (5, 9) } else { (4, 7) };
    let pats = all_strings(b"ab", pl, 1);
    let texts = all_strings(b"ab", tl, 0);
    for algo in ALGOS.iter() {
        for p in &pats {
            case += 1;
            if !log.mine(case) {
                continue;
            }
            run_one(log, "ex", algo, p, &texts);
        }
    }
    log.oblige("exhaustive_small");
    // (a2) every binary pattern of length 5..=9 (11 thorough) against its own self-overlaps:
    // text = p[..s] + p for every shift s, and p p p. An occurrence at s exists iff p has the
    // corresponding border, so every entry of the failure/shift tables is exercised
    // (nested borders first differ from simple ones at length 9).
    let maxp = if log.opts.thorough() { 11 } else { 9 };
    for algo in ALGOS.iter() {
        for m in 5..=maxp {
            for code in 0..(1u32 << m) {
                case += 1;
                if !log.mine(case) {
                    continue;
                }
                let p: Vec<u8> = (0..m).map(|i| if (code >> i) & 1 == 1 { b'b' } else { b'a' }).collect();
                let mut texts: Vec<Vec<u8>> = vec![];
                for sft in 1..=m {
                    let mut t = p[..sft].to_vec();
                    t.extend_from_slice(&p);
                    texts.push(t);
                }
                let mut ppp = p.clone();
                ppp.extend_from_slice(&p);
                ppp.extend_from_slice(&p);
                texts.push(ppp);
                run_one(log, "so", algo, &p, &texts);
            }
        }
    }
    log.oblige("self_overlap_all_borders");
    // (a3) texts of 10^5 .. 4*10^6 symbols: the comb family (a^(L-1) b)^r, pattern a^m b; the text is
    // logged by its parameters and the spec knows the occurrences in closed form
    for algo in ALGOS.iter() {
        for (l, r) in [(1000usize, 1000usize), (4096, 257), (65_537, 17), (50, 70_000), (1 << 20, 4), (70_001, 3), (140_000, 2)] {
            case += 1;
            if !log.mine(case) {
                continue;
            }
            let mut rng = Rng::new(seed, 8, case);
            let bp = *algo == "shiftand" || *algo == "bndm";
            let m = if bp {
                rng.range(0, 63.min(l as i64 - 1))
            } else if l == 70_001 || l == 140_000 {
                // patterns beyond 2^16 symbols (no documented limit for BOM / Horspool / KMP); the run of
                // a's is only slightly longer than the pattern (BOM is quadratic on long unary runs)
                log.oblige("pattern_longer_than_65536");
                l as i64 - 1 - rng.range(0, 40)
            } else {
                rng.range(0, 200.min(l as i64 - 1))
            } as usize;
            let (a, b) = (rng.below(256) as u8, 0u8);
            let a = if a == b { 7 } else { a };
            // the 70 001 case uses only very low byte values (tables indexed by symbol stay tiny)
            let a = if l == 70_001 { 1 + (a % 15) } else { a };
            if l == 70_001 {
                log.oblige("pattern_longer_than_65536_low_bytes");
            }
            let mut p = vec![a; m];
            p.push(b);
            if !log.begin("comb", json!({"algo": algo, "p": bytes(&p)})) {
                continue;
            }
            let mut text = vec![a; l * r];
            for k in 1..=r {
                text[k * l - 1] = b;
            }
            let mut mm: Option<M> = None;
            log.call("new", json!({}), || {
                mm = Some(match *algo {
                    "shiftand" => M::SA(ShiftAnd::new(&p)),
                    "bndm" => M::BN(BNDM::new(&p)),
                    "bom" => M::BO(BOM::new(&p)),
                    "horspool" => M::HO(Horspool::new(&p)),
                    _ => M::KM(KMP::new(&p)),
                });
                json!({})
            });
            if let Some(mt) = mm {
                log.call("find_all_comb", json!({"L": l, "r": r, "m": m, "a": a, "b": b}), || {
                    let v: Vec<usize> = match &mt {
                        M::SA(x) => x.find_all(text.iter()).collect(),
                        M::BN(x) => x.find_all(&text).collect(),
                        M::BO(x) => x.find_all(&text).collect(),
                        M::HO(x) => x.find_all(&text).collect(),
                        M::KM(x) => x.find_all(text.iter()).collect(),
                    };
                    json!({"v": usizes(&v)})
                });
            }
            log.oblige("text_of_a_million_symbols");
        }
    }
    // (a4) texts over a LARGER alphabet than the pattern: every text symbol that is congruent to a
    // pattern symbol modulo (largest pattern symbol + 1), modulo 64 / 128 / 256-wrapped, or differs from
    // it in one bit -- symbols a table indexed by "symbol" could alias
    for algo in ALGOS.iter() {
        let pats: Vec<Vec<u8>> = vec![
            vec![0], vec![1], vec![2, 0, 2], vec![0, 1, 0], vec![1, 1], vec![3, 1, 4, 1], vec![67], vec![65, 67, 65],
            vec![65, 67, 71, 84], vec![127, 5], vec![200, 100, 200], vec![15, 0, 15, 0, 15],
        ];
        for p in pats.iter() {
            case += 1;
            if !log.mine(case) {
                continue;
            }
            let mut rng = Rng::new(seed, 9, case);
            let mx = *p.iter().max().unwrap() as usize;
            let mut aliases: Vec<u8> = vec![];
            for &c in p.iter() {
                for k in 1..6usize {
                    let v = c as usize + k * (mx + 1);
                    if v < 256 {
                        aliases.push(v as u8);
                    }
                }
                for bit in 0..8 {
                    aliases.push(c ^ (1 << bit));
                }
                aliases.push(c.wrapping_add(64));
                aliases.push(c.wrapping_add(128));
                aliases.push(255 - c);
            }
            aliases.retain(|a| !p.contains(a));
            let mut texts: Vec<Vec<u8>> = vec![];
            // the pattern with one position replaced by an alias, between two real occurrences
            for i in 0..p.len() {
                for &a in aliases.iter() {
                    let mut t = p.clone();
                    let mut q = p.clone();
                    q[i] = a;
                    t.extend_from_slice(&q);
                    t.extend_from_slice(p);
                    t.push(a);
                    texts.push(t);
                }
            }
            // an alias in front of / behind a partial occurrence
            for &a in aliases.iter().take(40) {
                let mut t = vec![a];
                t.extend_from_slice(&p[1..]);
                t.extend_from_slice(&p[1..]);
                t.push(a);
                t.extend_from_slice(p);
                texts.push(t);
            }
            let n = rng.range(20, 60) as usize;
            let full: Vec<u8> = (0..=255u8).collect();
            texts.push(planted(&mut rng, p, n, &full));
            log.oblige("text_symbols_aliasing_pattern_symbols");
            run_one(log, "ali", algo, p, &texts);
        }
    }
    // (b) word-size boundaries, periodic families, full byte range
    let lens_bp: [usize; 10] = [1, 2, 7, 31, 32, 33, 62, 63, 64, 65];
    let lens_any: [usize; 8] = [1, 2, 3, 16, 33, 64, 65, 70];
    let nrand = log.opts.n(6, 40);
    for algo in ALGOS.iter() {
        let bp = *algo == "shiftand" || *algo == "bndm";
        let lens: &[usize] = if bp { &lens_bp } else { &lens_any };
        for &m in lens {
            for variant in 0..nrand {
                case += 1;
                if !log.mine(case) {
                    continue;
                }
                let mut rng = Rng::new(seed, 7, case);
                let alpha: Vec<u8> = match variant % 4 {
                    0 => b"a".to_vec(),
                    1 => b"ab".to_vec(),
                    2 => vec![0u8, 255u8, 128u8],
                    _ => (0..=255u8).collect(),
                };
                // pattern shapes: unary, a^i b a^j, periodic, random
                let p: Vec<u8> = match variant % 5 {
                    0 => vec![alpha[0]; m],
                    1 => {
                        let mut p = vec![alpha[0]; m];
                        let i = rng.below(m as u64) as usize;
                        p[i] = alpha[alpha.len() - 1];
                        p
                    }
                    2 => {
                        let per = (rng.below(4) + 1) as usize;
                        let unit = rng.seq(per, &alpha);
                        (0..m).map(|i| unit[i % per]).collect()
                    }
                    _ => rng.seq(m, &alpha),
                };
                let mut texts: Vec<Vec<u8>> = vec![];
                texts.push(vec![]);
                texts.push(p.clone());
                if m > 1 {
                    texts.push(p[..m - 1].to_vec());
                    texts.push(p[1..].to_vec());
                }
                let mut pp = p.clone();
                pp.extend_from_slice(&p);
                texts.push(pp);
                for _ in 0..3 {
                    let n = rng.range(m as i64, (m + 200) as i64) as usize;
                    texts.push(planted(&mut rng, &p, n.min(300), &alpha));
                }
                if m == 64 {
                    log.oblige("len64");
                }
                if m == 65 && bp {
                    log.oblige("len65_refused");
                }
                if m == 63 {
                    log.oblige("len63");
                }
                run_one(log, "bd", algo, &p, &texts);
            }
        }
    }
    // (c) alignment sweep: a pattern with one rare symbol x at position i (i = 0 and i random), texts
    // = filler^s + p + tail for every offset s (filler free of x). The first search window ends on
    // pattern position m-1-s, so every pattern position is once the last symbol of a window that lies
    // inside a real occurrence (the shift taken there must not jump over the occurrence), for the
    // word-size lengths of the bit-parallel matchers and for pattern lengths around 256 / 512 (longer
    // than any table indexed by a byte) for the others.
    let lens_c_bp: [usize; 5] = [31, 33, 62, 63, 64];
    let lens_c_any: [usize; 9] = [64, 65, 130, 255, 256, 257, 258, 300, 520];
    let nrep = log.opts.n(1, 4);
    for algo in ALGOS.iter() {
        let bp = *algo == "shiftand" || *algo == "bndm";
        let lens: &[usize] = if bp { &lens_c_bp } else { &lens_c_any };
        for &m in lens {
            for rep in 0..(2 * nrep) {
                case += 1;
                if !log.mine(case) {
                    continue;
                }
                let mut rng = Rng::new(seed, 8, case);
                let alpha: Vec<u8> = if rep % 4 < 2 { b"ACT".to_vec() } else { (1..=200u8).collect() };
                let x = if rep % 4 < 2 { b'G' } else { 0u8 };
                let i = if rep % 2 == 0 { 0 } else { rng.below(m as u64) as usize };
                let mut p = rng.seq(m, &alpha);
                p[i] = x;
                let full = m <= 300;
                let mut offs: Vec<usize> = if full { (0..=m).collect() } else { vec![0, m - 1, m - 1 - i, m] };
                if !full {
                    for _ in 0..24 {
                        offs.push(rng.below(m as u64 + 1) as usize);
                    }
                }
                let texts: Vec<Vec<u8>> = offs
                    .iter()
                    .map(|&s| {
                        let mut t = rng.seq(s, &alpha);
                        t.extend_from_slice(&p);
                        let tail = rng.below(4) as usize;
                        t.extend(rng.seq(tail, &alpha));
                        t
                    })
                    .collect();
                if m == 64 && bp {
                    log.oblige("alignment_sweep_len64");
                }
                if m > 256 {
                    log.oblige("alignment_sweep_pattern_longer_than_256");
                }
                run_one(log, "al", algo, &p, &texts);
            }
        }
    }
}

fn main() {
    bio_verif_harness::run(drive)
}
