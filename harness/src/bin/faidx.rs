//! C12 — indexed FASTA random access (fasta::IndexedReader + .fai).
//!
//! One run = one IndexedReader object over one file (possibly cut) read through a
//! scripted reader (short reads). cfg = {cls, recs:[{name,desc,seq,w,t}], file, fai, cut}.
//! Events: open, fetch, fetch_rid, fetch_all, fetch_all_rid, read, read_iter.
//! Every read event carries `io`: the seeks ([1, offset, offset]) and read() calls
//! ([0, requested, returned]) the reader issued against the underlying stream during
//! that call, so the specification can replay them as environment steps.
//! The harness contains no expectation about results.
use bio::io::fasta;
use bio_verif_harness::{bytes, Log, Rng, SchedReader};
use serde_json::{json, Value};
use std::cell::RefCell;
use std::io::{Read, Seek, SeekFrom};
use std::rc::Rc;

#[derive(Clone)]
struct Shared(Rc<RefCell<SchedReader>>);
impl Read for Shared {
    fn read(&mut self, buf: &mut [u8]) -> std::io::Result<usize> {
        let mut g = self.0.borrow_mut();
        if g.pos >= g.data.len() {
            // position at / behind the end of a cut file (after a seek): plain EOF
            // (SchedReader::read itself slices data[pos..] and must not be asked there)
            g.log.push((0, buf.len() as u64, 0));
            return Ok(0);
        }
        g.read(buf)
    }
}
impl Seek for Shared {
    fn seek(&mut self, p: SeekFrom) -> std::io::Result<u64> {
        self.0.borrow_mut().seek(p)
    }
}

#[derive(Clone)]
struct FRec {
    name: Vec<u8>,
    desc: Vec<u8>,
    seq: Vec<u8>,
    w: usize,
    t: usize,
}

struct Layout {
    file: Vec<u8>,
    fai: String,
    rows: Vec<Value>,
    offs: Vec<usize>, // offset of the first base of each record
    hdr: Vec<usize>,  // offset of the '>' of each record
}

fn s(b: &[u8]) -> &str {
    std::str::from_utf8(b).unwrap()
}

/// The file is an INPUT of this property (the writer belongs to C11): it is laid out by hand,
/// record by record: header line, then lines of `w` bases, each followed by `t` terminator bytes.
fn layout(recs: &[FRec], fai_crlf: bool) -> Layout {
    let mut file = vec![];
    let mut fai = String::new();
    let mut rows = vec![];
    let mut offs = vec![];
    let mut hdr = vec![];
    for r in recs {
        let term: &[u8] = if r.t == 2 { b"\r\n" } else { b"\n" };
        let mut one: Vec<u8> = vec![b'>'];
        one.extend_from_slice(&r.name);
        if !r.desc.is_empty() {
            one.push(b' ');
            one.extend_from_slice(&r.desc);
        }
        one.extend_from_slice(term);
        for c in r.seq.chunks(r.w) {
            one.extend_from_slice(c);
            one.extend_from_slice(term);
        }
        let hl = one.iter().position(|&c| c == b'\n').unwrap() + 1;
        hdr.push(file.len());
        let off = file.len() + hl;
        offs.push(off);
        fai.push_str(&format!("{}\t{}\t{}\t{}\t{}{}", s(&r.name), r.seq.len(), off, r.w, r.w + r.t,
                              if fai_crlf { "\r\n" } else { "\n" }));
        rows.push(json!({"name": bytes(&r.name), "len": r.seq.len(), "off": off, "lb": r.w, "lby": r.w + r.t}));
        file.extend_from_slice(&one);
    }
    Layout { file, fai, rows, offs, hdr }
}

fn err_kind(e: &std::io::Error) -> &'static str {
    let m = e.to_string();
    if m == "No sequence fetched for reading." {
        "nofetch"
    } else if m == "FASTA read interval was out of bounds" {
        "oob"
    } else if m == "Invalid query interval" {
        "invalid"
    } else if e.kind() == std::io::ErrorKind::UnexpectedEof {
        "trunc"
    } else {
        "other"
    }
}

fn io_log(sh: &Shared) -> Value {
    let g = sh.0.borrow();
    Value::Array(g.log.iter().map(|&(k, a, r)| json!([k, a, r])).collect())
}

struct Obj {
    rd: fasta::IndexedReader<Shared>,
    sh: Shared,
    sel: Option<(u64, u64)>, // interval of the last successful fetch / fetch_by_rid (driver bookkeeping)
}

fn set_sched(o: &Obj, sched: &[usize]) {
    let mut g = o.sh.0.borrow_mut();
    g.sched = sched.to_vec();
    g.si = 0;
}

fn open(log: &mut Log, tag: &str, cls: &str, recs: &[FRec], cut: i64, fai_crlf: bool) -> Option<(Obj, Layout)> {
    let lay = layout(recs, fai_crlf);
    let cfg = json!({
        "cls": cls, "cut": cut, "file": bytes(&lay.file), "fai": lay.rows,
        "recs": recs.iter().map(|r| json!({"name": bytes(&r.name), "desc": bytes(&r.desc), "seq": bytes(&r.seq),
                                           "w": r.w, "t": r.t})).collect::<Vec<_>>(),
    });
    if !log.begin(tag, cfg) {
        return None;
    }
    let data = if cut < 0 { lay.file.clone() } else { lay.file[..(cut as usize).min(lay.file.len())].to_vec() };
    let sh = Shared(Rc::new(RefCell::new(SchedReader::new(data, vec![]))));
    let mut obj = None;
    // constructors: new (parses the .fai), with_index, with_index on a clone of a used Index,
    // with_index on a serde_json round trip of the Index
    let via = (recs.len() + recs[0].seq.len() + recs[0].w) % 4;
    log.oblige(["reader_new", "reader_with_index", "reader_with_cloned_index", "reader_with_serde_index"][via]);
    log.call("open", json!({"via_index": via}), || {
        let rd = if via == 0 {
            fasta::IndexedReader::new(sh.clone(), lay.fai.as_bytes()).unwrap()
        } else {
            let index = fasta::Index::new(lay.fai.as_bytes()).unwrap();
            let index = match via {
                1 => index,
                2 => {
                    let _used = index.sequences();
                    let mut c = fasta::Index::default();
                    c.clone_from(&index);
                    c.clone()
                }
                _ => serde_json::from_str(&serde_json::to_string(&index).unwrap()).unwrap(),
            };
            fasta::IndexedReader::with_index(sh.clone(), index)
        };
        let seqs: Vec<Value> = rd.index.sequences().iter().map(|q| q.clone())
            .map(|q| json!({"name": bytes(q.name.as_bytes()), "len": q.len})).collect();
        obj = Some(rd);
        json!({"seqs": seqs})
    });
    obj.map(|rd| (Obj { rd, sh, sel: None }, lay))
}

fn ok01(r: &std::io::Result<()>) -> i64 {
    if r.is_ok() { 1 } else { 0 }
}

fn ev_fetch(log: &mut Log, o: &mut Obj, name: &[u8], start: u64, stop: u64) {
    let r = log.call("fetch", json!({"name": bytes(name), "start": start, "stop": stop}), || {
        json!({"ok": ok01(&o.rd.fetch(s(name), start, stop))})
    });
    if r["ok"] == 1 {
        o.sel = Some((start, stop));
    }
}
fn ev_fetch_rid(log: &mut Log, o: &mut Obj, rid: usize, start: u64, stop: u64) {
    let r = log.call("fetch_rid", json!({"rid": rid, "start": start, "stop": stop}), || {
        json!({"ok": ok01(&o.rd.fetch_by_rid(rid, start, stop))})
    });
    if r["ok"] == 1 {
        o.sel = Some((start, stop));
    }
}
fn ev_fetch_all(log: &mut Log, o: &mut Obj, name: &[u8]) {
    log.call("fetch_all", json!({"name": bytes(name)}), || json!({"ok": ok01(&o.rd.fetch_all(s(name)))}));
}
fn ev_fetch_all_rid(log: &mut Log, o: &mut Obj, rid: usize) {
    log.call("fetch_all_rid", json!({"rid": rid}), || json!({"ok": ok01(&o.rd.fetch_all_by_rid(rid))}));
}

fn ev_read(log: &mut Log, o: &mut Obj, sched: &[usize], junk: bool) -> Value {
    if junk && o.sel.map(|(a, b)| a == b).unwrap_or(false) {
        log.oblige("empty_interval_into_dirty_buffer");
    }
    set_sched(o, sched);
    o.sh.0.borrow_mut().log.clear();
    log.call("read", json!({"sched": sched.len()}), || {
        // the caller's vector may hold old data: read() must replace it
        let mut seq: Vec<u8> = if junk { b"JUNKJUNK".to_vec() } else { vec![] };
        let r = o.rd.read(&mut seq);
        match r {
            Ok(()) => json!({"ok": 1, "err": "none", "seq": bytes(&seq), "io": io_log(&o.sh)}),
            Err(e) => json!({"ok": 0, "err": err_kind(&e), "seq": bytes(&seq), "io": io_log(&o.sh)}),
        }
    })
}

/// take < 0: iterate to the end. `limit` only bounds a runaway iterator (reported as capped).
fn ev_read_iter(log: &mut Log, o: &mut Obj, sched: &[usize], take: i64, limit: usize) -> Value {
    set_sched(o, sched);
    o.sh.0.borrow_mut().log.clear();
    log.call("read_iter", json!({"take": take, "sched": sched.len(), "adapt": 0, "k": 0}), || {
        let sh = o.sh.clone();
        match o.rd.read_iter() {
            Err(e) => json!({"ok": 0, "err": err_kind(&e), "items": [], "ierr": 0, "ierrkind": "none", "after": 0,
                             "ended": 0, "capped": 0, "hint": -1, "io": io_log(&sh)}),
            Ok(mut it) => {
                let hint0 = it.size_hint().0;
                let mut items: Vec<u8> = vec![];
                let (mut ierr, mut after, mut ended, mut capped) = (0, 0, 0, 0);
                let mut ierrkind = "none";
                let mut n: i64 = 0;
                loop {
                    if take >= 0 && n >= take {
                        break;
                    }
                    if items.len() + after > limit {
                        capped = 1;
                        break;
                    }
                    match it.next() {
                        None => {
                            ended = 1;
                            break;
                        }
                        Some(Ok(b)) => {
                            if ierr == 1 { after += 1 } else { items.push(b) }
                        }
                        Some(Err(e)) => {
                            if ierr == 1 { after += 1 } else {
                                ierr = 1;
                                ierrkind = err_kind(&e);
                            }
                        }
                    }
                    n += 1;
                }
                drop(it);
                json!({"ok": 1, "err": "none", "items": bytes(&items), "ierr": ierr, "ierrkind": ierrkind,
                       "after": after, "ended": ended, "capped": capped,
                       "hint": if hint0 < (1usize << 30) { hint0 as i64 } else { -1 }, "io": io_log(&sh)})
            }
        }
    })
}

/// read_iter consumed through iterator adapters: adapt = 1: nth(k) first (skips k items), then the rest;
/// adapt = 2: step_by(k). hint_mid = lower size_hint right after the first item came through nth(k).
fn ev_read_iter_adapt(log: &mut Log, o: &mut Obj, sched: &[usize], adapt: usize, k: usize, limit: usize) -> Value {
    set_sched(o, sched);
    o.sh.0.borrow_mut().log.clear();
    log.call("read_iter", json!({"take": -1, "sched": sched.len(), "adapt": adapt, "k": k}), || {
        let sh = o.sh.clone();
        match o.rd.read_iter() {
            Err(e) => json!({"ok": 0, "err": err_kind(&e), "items": [], "ierr": 0, "ierrkind": "none", "after": 0,
                             "ended": 0, "capped": 0, "hint": -1, "hint_mid": -1, "io": io_log(&sh)}),
            Ok(mut it) => {
                let hint0 = it.size_hint().0;
                let mut items: Vec<u8> = vec![];
                let (mut ierr, mut ended, mut capped) = (0, 0, 0);
                let mut ierrkind = "none";
                let mut hint_mid: i64 = -1;
                let mut push = |x: Option<std::io::Result<u8>>, items: &mut Vec<u8>| -> bool {
                    match x {
                        None => {
                            ended = 1;
                            false
                        }
                        Some(Ok(b)) => {
                            items.push(b);
                            true
                        }
                        Some(Err(e)) => {
                            ierr = 1;
                            ierrkind = err_kind(&e);
                            false
                        }
                    }
                };
                if adapt == 1 {
                    if push(it.nth(k), &mut items) {
                        hint_mid = it.size_hint().0 as i64;
                        loop {
                            if items.len() > limit {
                                capped = 1;
                                break;
                            }
                            if !push(it.next(), &mut items) {
                                break;
                            }
                        }
                    }
                } else {
                    let mut st = it.by_ref().step_by(k.max(1));
                    loop {
                        if items.len() > limit {
                            capped = 1;
                            break;
                        }
                        if !push(st.next(), &mut items) {
                            break;
                        }
                    }
                }
                drop(it);
                json!({"ok": 1, "err": "none", "items": bytes(&items), "ierr": ierr, "ierrkind": ierrkind,
                       "after": 0, "ended": ended, "capped": capped,
                       "hint": if hint0 < (1usize << 30) { hint0 as i64 } else { -1 }, "hint_mid": hint_mid,
                       "io": io_log(&sh)})
            }
        }
    })
}

fn note(log: &mut Log, r: &Value) {
    if r["err"] == "trunc" || r["ierrkind"] == "trunc" {
        log.oblige("truncation_error_seen");
    }
    if r["ierr"] == 1 {
        log.oblige("iter_error_item_seen");
    }
    if let Some(io) = r["io"].as_array() {
        if io.len() > 3 {
            log.oblige("several_fills_in_one_read");
        }
    }
}

// ------------------------------------------------------------ readers over real files (no io log)
// Events carry `who` (which reader object of the run); results have the same fields as the scripted-reader
// events, with an empty io list (the trace spec does no machine replay for these classes).
type FileRd = fasta::IndexedReader<std::fs::File>;

fn file_cfg(cls: &str, recs: &[FRec], lay: &Layout) -> Value {
    json!({
        "cls": cls, "cut": -1, "file": bytes(&lay.file), "fai": lay.rows,
        "recs": recs.iter().map(|r| json!({"name": bytes(&r.name), "desc": bytes(&r.desc), "seq": bytes(&r.seq),
                                           "w": r.w, "t": r.t})).collect::<Vec<_>>(),
    })
}
fn seqs_json<R: Read + Seek>(rd: &fasta::IndexedReader<R>) -> Vec<Value> {
    rd.index.sequences().iter().map(|q| json!({"name": bytes(q.name.as_bytes()), "len": q.len})).collect()
}
fn fev_fetch<R: Read + Seek>(log: &mut Log, rd: &mut fasta::IndexedReader<R>, who: usize, name: &[u8], start: u64, stop: u64) {
    log.call("fetch", json!({"who": who, "name": bytes(name), "start": start, "stop": stop}), || {
        json!({"ok": ok01(&rd.fetch(s(name), start, stop))})
    });
}
fn fev_fetch_rid<R: Read + Seek>(log: &mut Log, rd: &mut fasta::IndexedReader<R>, who: usize, rid: usize, start: u64, stop: u64) {
    log.call("fetch_rid", json!({"who": who, "rid": rid, "start": start, "stop": stop}), || {
        json!({"ok": ok01(&rd.fetch_by_rid(rid, start, stop))})
    });
}
fn fev_read<R: Read + Seek>(log: &mut Log, rd: &mut fasta::IndexedReader<R>, who: usize, junk: bool) {
    log.call("read", json!({"who": who, "sched": 0}), || {
        let mut seq: Vec<u8> = if junk { b"JUNKJUNK".to_vec() } else { vec![] };
        match rd.read(&mut seq) {
            Ok(()) => json!({"ok": 1, "err": "none", "seq": bytes(&seq), "io": []}),
            Err(e) => json!({"ok": 0, "err": err_kind(&e), "seq": bytes(&seq), "io": []}),
        }
    });
}
fn fev_read_iter<R: Read + Seek>(log: &mut Log, rd: &mut fasta::IndexedReader<R>, who: usize, limit: usize) {
    log.call("read_iter", json!({"who": who, "take": -1, "sched": 0, "adapt": 0, "k": 0}), || match rd.read_iter() {
        Err(e) => json!({"ok": 0, "err": err_kind(&e), "items": [], "ierr": 0, "ierrkind": "none", "after": 0,
                         "ended": 0, "capped": 0, "hint": -1, "io": []}),
        Ok(mut it) => {
            let hint0 = it.size_hint().0;
            let mut items: Vec<u8> = vec![];
            let (mut ierr, mut after, mut ended, mut capped) = (0, 0, 0, 0);
            let mut ierrkind = "none";
            loop {
                if items.len() + after > limit {
                    capped = 1;
                    break;
                }
                match it.next() {
                    None => {
                        ended = 1;
                        break;
                    }
                    Some(Ok(b)) => {
                        if ierr == 1 { after += 1 } else { items.push(b) }
                    }
                    Some(Err(e)) => {
                        if ierr == 1 { after += 1 } else {
                            ierr = 1;
                            ierrkind = err_kind(&e);
                        }
                    }
                }
            }
            json!({"ok": 1, "err": "none", "items": bytes(&items), "ierr": ierr, "ierrkind": ierrkind, "after": after,
                   "ended": ended, "capped": capped, "hint": if hint0 < (1usize << 30) { hint0 as i64 } else { -1 },
                   "io": []})
        }
    });
}

// ------------------------------------------------------------ closed-form huge files (never materialised)
const RADIX: u64 = 1_000_000; // positions travel as (hi, lo) = hi * 10^6 + lo; 5 | 10^6

/// One record `big` of `len` bases, base(i) = "ACGTN"[i mod 5], `w` bases per line, `t` terminator bytes.
struct VirtualFasta {
    len: u64,
    w: u64,
    t: u64,
    pos: u64,
    chunk: usize, // at most this many bytes per read() call
}

impl VirtualFasta {
    /// header line ">big" + terminator
    fn hlen(&self) -> u64 {
        4 + self.t
    }
    fn size(&self) -> u64 {
        let full = self.len / self.w;
        let rest = self.len % self.w;
        self.hlen() + full * (self.w + self.t) + if rest > 0 { rest + self.t } else { 0 }
    }
    fn byte_at(&self, p: u64) -> u8 {
        if p < 4 {
            return b">big"[p as usize];
        }
        if p < self.hlen() {
            return if self.t == 2 && p == 4 { b'\r' } else { b'\n' };
        }
        let q = p - self.hlen();
        let line = q / (self.w + self.t);
        let col = q % (self.w + self.t);
        let bases_here = self.w.min(self.len - line * self.w);
        if col < bases_here {
            b"ACGTN"[((line * self.w + col) % 5) as usize]
        } else if self.t == 2 && col == bases_here {
            b'\r'
        } else {
            b'\n'
        }
    }
    fn fai(&self) -> String {
        format!("big\t{}\t{}\t{}\t{}\n", self.len, self.hlen(), self.w, self.w + self.t)
    }
}
impl Read for VirtualFasta {
    fn read(&mut self, buf: &mut [u8]) -> std::io::Result<usize> {
        let size = self.size();
        let mut n = 0;
        while n < buf.len() && n < self.chunk && self.pos < size {
            buf[n] = self.byte_at(self.pos);
            self.pos += 1;
            n += 1;
        }
        Ok(n)
    }
}
impl Seek for VirtualFasta {
    fn seek(&mut self, p: SeekFrom) -> std::io::Result<u64> {
        let np = match p {
            SeekFrom::Start(o) => o as i128,
            SeekFrom::Current(d) => self.pos as i128 + d as i128,
            SeekFrom::End(d) => self.size() as i128 + d as i128,
        };
        if np < 0 {
            return Err(std::io::Error::new(std::io::ErrorKind::InvalidInput, "negative seek"));
        }
        self.pos = np as u64;
        Ok(self.pos)
    }
}

/// One run over a virtual file. `starts` = (start, span) list; every fetch is followed by read and read_iter.
fn big_run(log: &mut Log, len: u64, w: u64, t: u64, chunk: usize, dump: bool, queries: &[(u64, u64)]) {
    let cfg = json!({"cls": "big", "w": w, "t": t, "lenhi": len / RADIX, "lenlo": len % RADIX, "R": RADIX,
                     "name": bytes(b"big")});
    if !log.begin("big", cfg) {
        return;
    }
    let vf = VirtualFasta { len, w, t, pos: 0, chunk };
    let fai = vf.fai();
    if dump {
        // small instance of the same generator, materialised: binds byte_at() to the layout definition
        log.call("dump", json!({}), || {
            let file: Vec<u8> = (0..vf.size()).map(|p| vf.byte_at(p)).collect();
            json!({"file": bytes(&file), "off": vf.hlen(), "lb": w, "lby": w + t})
        });
        log.oblige("virtual_generator_small_dump");
    }
    let mut rd: Option<fasta::IndexedReader<VirtualFasta>> = None;
    log.call("open", json!({}), || {
        let r = fasta::IndexedReader::new(vf, fai.as_bytes()).unwrap();
        let q = r.index.sequences();
        let out = json!({"n": q.len(), "lenhi": q[0].len / RADIX, "lenlo": q[0].len % RADIX});
        rd = Some(r);
        out
    });
    let mut rd = match rd {
        Some(r) => r,
        None => return,
    };
    for (qi, &(start, span)) in queries.iter().enumerate() {
        let stop = start + span;
        let args = json!({"shi": start / RADIX, "slo": start % RADIX, "span": span, "by_rid": qi % 2});
        log.call("fetch", args, || {
            let r = if qi % 2 == 1 { rd.fetch_by_rid(0, start, stop) } else { rd.fetch("big", start, stop) };
            json!({"ok": ok01(&r)})
        });
        log.call("read", json!({}), || {
            let mut seq: Vec<u8> = b"JUNK".to_vec();
            match rd.read(&mut seq) {
                Ok(()) => json!({"ok": 1, "seq": bytes(&seq)}),
                Err(_) => json!({"ok": 0, "seq": []}),
            }
        });
        log.call("read_iter", json!({}), || match rd.read_iter() {
            Err(_) => json!({"ok": 0, "items": [], "ierr": 0, "ended": 0, "capped": 0}),
            Ok(mut it) => {
                let mut items: Vec<u8> = vec![];
                let (mut ierr, mut ended, mut capped) = (0, 0, 0);
                loop {
                    if items.len() as u64 > span + 8 {
                        capped = 1;
                        break;
                    }
                    match it.next() {
                        None => {
                            ended = 1;
                            break;
                        }
                        Some(Ok(b)) => items.push(b),
                        Some(Err(_)) => {
                            ierr = 1;
                            break;
                        }
                    }
                }
                json!({"ok": 1, "items": bytes(&items), "ierr": ierr, "ended": ended, "capped": capped})
            }
        });
        let lby = w + t;
        let byte_off = start / w * lby + start % w;
        if byte_off >= (1u64 << 32) {
            log.oblige("fetch_beyond_4GiB");
        } else if len > (1u64 << 32) {
            log.oblige("big_control_below_4GiB");
        }
        if start / w >= (1u64 << 32) {
            log.oblige("line_number_beyond_2_32");
        }
    }
}

const NAMECH: &[u8] = b"ABCXYZabcxyz0123456789_.|:-";

fn seq_of(rng: &mut Rng, len: usize) -> Vec<u8> {
    // position-revealing content: a long-period pattern mixed with random bases
    match rng.below(3) {
        0 => rng.seq(len, b"ACGT"),
        1 => (0..len).map(|i| b"ACGTNacgtn"[(i * 7 + i / 10) % 10]).collect(),
        _ => rng.seq(len, b"ACGTNRYKMSWBDHVacgtn*-"),
    }
}

fn scheds_small(n: usize) -> Vec<usize> {
    match n % 7 {
        0 => vec![1],
        1 => vec![2],
        2 => vec![3],
        3 => vec![4],
        4 => vec![1, 3],
        5 => vec![2, 1],
        _ => vec![],
    }
}

pub fn drive(log: &mut Log) {
    let seed = log.opts.seed;
    let thorough = log.opts.thorough();
    let mut case = 0u64;

    // ---------------- R: behaviours generated by TLC from the IndexedFasta machine (spec -> impl):
    // file parameters, cut, fetch, read path and the exact sequence of fill sizes
    if let Some(path) = log.opts.replay.clone() {
        let text = std::fs::read_to_string(&path).expect("cannot read behaviours");
        for (li, line) in text.lines().enumerate() {
            case += 1;
            if !log.mine(case) {
                continue;
            }
            let b: Value = serde_json::from_str(line).expect("behaviour is not JSON");
            let recs: Vec<FRec> = b["recs"].as_array().unwrap().iter().enumerate().map(|(j, r)| {
                let len = r["len"].as_u64().unwrap() as usize;
                FRec {
                    name: vec![b'1' + j as u8],
                    desc: if j == 1 { b"7".to_vec() } else { vec![] },
                    seq: (0..len).map(|k| b'a' + ((li + 3 * k + 11 * j) % 26) as u8).collect(),
                    w: r["w"].as_u64().unwrap() as usize,
                    t: r["t"].as_u64().unwrap() as usize,
                }
            }).collect();
            let cut = b["cut"].as_i64().unwrap();
            let (mut o, _lay) = match open(log, "beh", "beh", &recs, cut, false) {
                Some(x) => x,
                None => continue,
            };
            let rid = b["rid"].as_u64().unwrap() as usize;
            let (start, stop) = (b["start"].as_u64().unwrap(), b["stop"].as_u64().unwrap());
            ev_fetch_rid(log, &mut o, rid, start, stop);
            let fills: Vec<usize> = b["fills"].as_array().unwrap().iter().map(|x| x.as_u64().unwrap() as usize).collect();
            let r = if b["path"] == "buf" {
                ev_read(log, &mut o, &fills, li % 2 == 0)
            } else {
                ev_read_iter(log, &mut o, &fills, -1, (stop.saturating_sub(start)) as usize + 8)
            };
            note(log, &r);
            log.oblige("tlc_behaviours_replayed");
            // the adjacent window: the next fetch starts exactly where the completed read stopped. The model
            // says (seam = 1) when the source was left in front of / inside the line terminator behind `stop`
            if b["path"] == "buf" && b["last"] == "done" {
                let len = recs[rid].seq.len() as u64;
                let w = recs[rid].w as u64;
                let stop2 = (stop + w).min(len);
                if li % 2 == 0 {
                    ev_fetch_rid(log, &mut o, rid, stop, stop2);
                } else {
                    ev_fetch(log, &mut o, &recs[rid].name.clone(), stop, stop2);
                }
                let r = if li % 3 == 0 { ev_read_iter(log, &mut o, &fills, -1, w as usize + 8) } else {
                    ev_read(log, &mut o, &[3, 1], li % 2 == 1)
                };
                note(log, &r);
                if b["seam"] == 1 {
                    log.oblige("adjacent_windows_line_aligned_seam");
                    log.oblige("adjacent_seam_from_tlc_behaviour");
                }
            }
        }
    }

    // ---------------- A: systematic small files x every cut x every interval x both paths
    let (maxlen, maxw) = if thorough { (7usize, 4usize) } else { (4, 3) };
    let mut counter = 0usize;
    for len in 0..=maxlen {
        for w in 1..=maxw {
            for t in 1..=2usize {
                for two in [false, true] {
                    if two && (len > 3 || w > 2) {
                        continue;
                    }
                    let main = FRec { name: b"s".to_vec(), desc: vec![], seq: (0..len).map(|i| b'a' + i as u8).collect(), w, t };
                    let recs = if two {
                        vec![FRec { name: b"p".to_vec(), desc: b"d".to_vec(), seq: b"XYZ".to_vec(), w: 2, t: 3 - t }, main]
                    } else {
                        vec![main]
                    };
                    let full = layout(&recs, false).file.len();
                    for cut in 0..=full {
                        case += 1;
                        if !log.mine(case) {
                            continue;
                        }
                        let cutv = if cut == full { -1 } else { cut as i64 };
                        let (mut o, _lay) = match open(log, "small", "small", &recs, cutv, false) {
                            Some(x) => x,
                            None => continue,
                        };
                        let rid = recs.len() - 1;
                        for start in 0..=len {
                            for stop in start..=len {
                                counter += 1;
                                if counter % 2 == 0 {
                                    ev_fetch_rid(log, &mut o, rid, start as u64, stop as u64);
                                } else {
                                    ev_fetch(log, &mut o, b"s", start as u64, stop as u64);
                                }
                                let r = ev_read(log, &mut o, &scheds_small(counter), counter % 3 == 0);
                                note(log, &r);
                                let r = ev_read_iter(log, &mut o, &scheds_small(counter / 2 + 3), -1, len + 8);
                                note(log, &r);
                            }
                        }
                        if two {
                            ev_fetch_all_rid(log, &mut o, 0);
                            let r = ev_read(log, &mut o, &[2], false);
                            note(log, &r);
                        }
                        log.oblige("small_exhaustive");
                    }
                }
            }
        }
    }

    // ---------------- B: random files, boundary widths, histories, truncation classes
    let nrand = log.opts.n(112, 1100);
    for i in 0..nrand {
        case += 1;
        if !log.mine(case) {
            continue;
        }
        let mut rng = Rng::new(seed, 21, case);
        let nrec = rng.range(1, 4) as usize;
        let big = i % 8 == 0;
        let mut recs = vec![];
        for k in 0..nrec {
            // the width class first; the length is bounded by ~150 lines (replay cost in TLC is per line)
            let wc = rng.below(11);
            let w0 = match wc {
                0 => 1,
                1 => 2,
                2 => 7,
                3 => 60,
                4 => 61,
                5 => 511,
                6 => 512,
                7 => 513,
                8 => 1000,
                _ => 0, // derived from len below
            };
            let lim = if w0 == 0 { 3000 } else { (150 * w0).min(3000) } as i64;
            let len = match rng.below(8) {
                0 => 0,
                1 => rng.range(1, 3) as usize,
                2..=5 => rng.range(4, lim.min(400)) as usize,
                _ => if big { rng.range(lim.min(1000), lim) as usize } else { rng.range(lim.min(300), lim.min(1200)) as usize },
            };
            let w = match wc {
                0..=8 => w0,
                9 => len.max(1),
                _ => len + 1 + rng.below(3) as usize,
            };
            let t = if rng.coin() { 1 } else { 2 };
            let nl = rng.range(1, 8) as usize;
            let mut name = rng.seq(nl, NAMECH);
            name.push(b'0' + k as u8); // unique
            let dl = rng.range(1, 10) as usize;
            let desc = if rng.coin() { vec![] } else { rng.seq(dl, b"abc =;,") };
            let desc = if desc.last().map(|&c| c == b' ').unwrap_or(false) { b"dd".to_vec() } else { desc };
            recs.push(FRec { name, desc, seq: seq_of(&mut rng, len), w, t });
        }
        let lay0 = layout(&recs, false);
        // the interval the truncation is aimed at
        let target = rng.below(nrec as u64) as usize;
        let tl = recs[target].seq.len();
        let tw = recs[target].w;
        let tt = recs[target].t;
        let (ts, te) = if tl == 0 { (0, 0) } else {
            let a = rng.below(tl as u64) as usize;
            (a, rng.range(a as i64 + 1, tl as i64) as usize)
        };
        let last_base_off = if te > ts { lay0.offs[target] + (te - 1) / tw * (tw + tt) + (te - 1) % tw } else { lay0.offs[target] };
        let cut: i64 = match i % 6 {
            0 | 1 => -1,
            2 => {
                log.oblige("trunc_in_header");
                (lay0.hdr[target] + rng.below((lay0.offs[target] - lay0.hdr[target]) as u64) as usize) as i64
            }
            3 => {
                log.oblige("trunc_in_region");
                let first = lay0.offs[target] + ts / tw * (tw + tt) + ts % tw;
                rng.range(first as i64, last_base_off as i64)
            }
            4 => {
                // directly behind a line's bases: inside / in front of a terminator of the region
                log.oblige("trunc_in_terminator");
                let line = if te > ts { rng.range((ts / tw) as i64, ((te - 1) / tw) as i64) as usize } else { 0 };
                let eol = lay0.offs[target] + line * (tw + tt) + tw.min(tl.saturating_sub(line * tw));
                (eol + rng.below(tt as u64) as usize).min(lay0.file.len()) as i64
            }
            _ => {
                log.oblige("trunc_after_region");
                (last_base_off + 1 + rng.below(3) as usize).min(lay0.file.len()) as i64
            }
        };
        let (mut o, lay) = match open(log, "rand", "rand", &recs, cut, i % 5 == 0) {
            Some(x) => x,
            None => continue,
        };
        let _ = &lay;
        if nrec > 1 {
            log.oblige("multi_record");
        }
        // read without fetch
        if i % 3 == 0 {
            let r = if rng.coin() { ev_read(log, &mut o, &[], false) } else { ev_read_iter(log, &mut o, &[], -1, 16) };
            note(log, &r);
            log.oblige("read_without_fetch");
        }
        let nq = if big { 6 } else { 10 };
        let mut done: Vec<(usize, u64, u64)> = vec![];
        for q in 0..nq {
            let k = if q == 0 { target } else { rng.below(nrec as u64) as usize };
            let r = &recs[k];
            let len = r.seq.len();
            let w = r.w;
            // interval classes
            let (start, stop): (u64, u64) = if q == 0 { (ts as u64, te as u64) } else {
                match rng.below(10) {
                    0 => {
                        log.oblige("start_eq_stop");
                        let a = rng.range(0, len as i64) as u64;
                        (a, a)
                    }
                    1 => {
                        log.oblige("stop_eq_len");
                        (rng.range(0, len as i64) as u64, len as u64)
                    }
                    2 | 3 | 4 => {
                        // both ends at line boundaries +-1
                        log.oblige("at_line_boundary");
                        let lines = len / w + 1;
                        let pick = |rng: &mut Rng| -> u64 {
                            let b = (rng.below(lines as u64 + 1) as i64) * w as i64 + rng.range(-1, 1);
                            b.clamp(0, len as i64) as u64
                        };
                        let a = pick(&mut rng);
                        let b = pick(&mut rng);
                        (a.min(b), a.max(b))
                    }
                    5 => {
                        log.oblige("interval_invalid");
                        match rng.below(3) {
                            0 => (0, len as u64 + 1 + rng.below(3)),                 // out of range
                            1 => (len as u64 + 5, len as u64 + 2),                  // both
                            _ => {
                                let b = rng.range(0, len as i64) as u64;
                                (b + 1 + rng.below(2), b)                            // inverted
                            }
                        }
                    }
                    6 if len > 600 => {
                        log.oblige("long_interval");
                        let a = rng.below(50);
                        (a, len as u64 - rng.below(50))
                    }
                    _ => {
                        let a = rng.range(0, len as i64) as u64;
                        (a, rng.range(a as i64, len as i64) as u64)
                    }
                }
            };
            // fetch flavours and histories
            match rng.below(8) {
                0 => {
                    ev_fetch_rid(log, &mut o, k, start, stop);
                    log.oblige("fetch_by_rid");
                }
                1 => {
                    // a fetch that is overridden
                    let other = rng.below(nrec as u64) as usize;
                    ev_fetch_rid(log, &mut o, other, 0, 1);
                    ev_fetch(log, &mut o, &r.name, start, stop);
                    log.oblige("fetch_fetch_read");
                }
                2 => {
                    ev_fetch(log, &mut o, &r.name, start, stop);
                    // unknown name / rid: reported, selection unchanged
                    if rng.coin() {
                        ev_fetch(log, &mut o, b"nosuchseq", 0, 1);
                        log.oblige("unknown_name");
                    } else {
                        ev_fetch_rid(log, &mut o, nrec + rng.below(2) as usize, 0, 1);
                        log.oblige("unknown_rid");
                    }
                }
                3 if start == 0 && stop == len as u64 => {
                    if rng.coin() { ev_fetch_all(log, &mut o, &r.name) } else { ev_fetch_all_rid(log, &mut o, k) }
                    log.oblige("fetch_all");
                }
                4 => {
                    if rng.coin() {
                        ev_fetch_all(log, &mut o, b"missing");
                    } else {
                        ev_fetch_all_rid(log, &mut o, nrec);
                    }
                    ev_fetch(log, &mut o, &r.name, start, stop);
                }
                _ => ev_fetch(log, &mut o, &r.name, start, stop),
            }
            let span = stop.saturating_sub(start) as usize;
            let lines = span / w + 2;
            let sched: Vec<usize> = match rng.below(5) {
                0 if span + 2 * lines <= 400 => {
                    log.oblige("sched_1byte");
                    vec![1]
                }
                1 => (0..rng.range(2, 6)).map(|_| rng.range(1, 2 * w as i64 + 3) as usize).collect(),
                2 => {
                    // fills ending exactly at the end of the bases / of the terminator of a line
                    log.oblige("sched_line_aligned");
                    let first = w - (start as usize % w);
                    if rng.coin() { vec![first.max(1), r.t, w, r.t] } else { vec![first + r.t, w + r.t] }
                }
                3 => (0..3).map(|_| rng.range(20, 700) as usize).collect(),
                _ => {
                    log.oblige("sched_full");
                    vec![]
                }
            };
            if w >= 513 && span > 512 {
                log.oblige("iter_buffer_cap_512");
            }
            if w == 1 {
                log.oblige("w1");
            }
            if w == len && len > 0 {
                log.oblige("w_eq_len");
            }
            if w > len {
                log.oblige("w_gt_len");
            }
            if r.t == 2 { log.oblige("crlf") } else { log.oblige("lf") }
            match rng.below(6) {
                0 | 1 => {
                    let rr = ev_read(log, &mut o, &sched, rng.coin());
                    note(log, &rr);
                    log.oblige("buf_path");
                }
                2 | 3 => {
                    let rr = ev_read_iter(log, &mut o, &sched, -1, span + 16);
                    note(log, &rr);
                    log.oblige("iter_path");
                }
                4 => {
                    // read twice / both paths after one fetch
                    let rr = ev_read(log, &mut o, &sched, false);
                    note(log, &rr);
                    let rr = ev_read_iter(log, &mut o, &[], -1, span + 16);
                    note(log, &rr);
                    let rr = ev_read(log, &mut o, &[], true);
                    note(log, &rr);
                    log.oblige("read_twice");
                }
                _ => {
                    // iterator abandoned half way, then a complete read
                    let take = rng.range(0, span as i64 + 1);
                    let rr = ev_read_iter(log, &mut o, &sched, take, span + 16);
                    note(log, &rr);
                    let rr = ev_read(log, &mut o, &sched, false);
                    note(log, &rr);
                    log.oblige("iter_partial_take");
                }
            }
            // adjacent windows: a completed read whose stop is a line end, fills ending exactly behind the last
            // base (LF/CRLF) or between CR and LF, then the fetch that starts at that stop
            if len >= 2 * w && q % 3 == 1 {
                let lines = len / w;
                let l1 = rng.below(lines as u64) as usize;
                let l2 = rng.range(l1 as i64 + 1, lines as i64) as usize;
                let a = (l1 * w + rng.below(w as u64) as usize) as u64;
                let bnd = (l2 * w) as u64;
                ev_fetch(log, &mut o, &r.name, a, bnd);
                let first = w - (a as usize % w);
                let sched: Vec<usize> = if r.t == 2 && rng.coin() {
                    log.oblige("adjacent_seam_between_cr_and_lf");
                    vec![first + 1, w + 2] // every fill ends behind a CR
                } else {
                    vec![first, r.t, w, r.t] // every fill ends behind the last base of a line / its terminator
                };
                let rr = ev_read(log, &mut o, &sched, false);
                note(log, &rr);
                let c = (bnd + rng.range(1, 2 * w as i64) as u64).min(len as u64);
                if rng.coin() { ev_fetch(log, &mut o, &r.name, bnd, c) } else { ev_fetch_rid(log, &mut o, k, bnd, c) }
                let rr = if rng.coin() { ev_read(log, &mut o, &[], true) } else {
                    ev_read_iter(log, &mut o, &[], -1, (c - bnd) as usize + 16)
                };
                note(log, &rr);
                log.oblige("adjacent_windows_line_aligned_seam");
            }
            // the iterator consumed through adapters (complete files only)
            if cut < 0 && q % 3 == 2 && start <= stop && stop <= len as u64 {
                ev_fetch(log, &mut o, &r.name, start, stop);
                let span = (stop - start) as usize;
                let kk = rng.below(span as u64 + 2) as usize;
                let rr = if rng.coin() {
                    log.oblige("read_iter_through_nth");
                    ev_read_iter_adapt(log, &mut o, &[], 1, kk, span + 16)
                } else {
                    log.oblige("read_iter_through_step_by");
                    ev_read_iter_adapt(log, &mut o, &[7, 100], 2, 1 + kk % 9, span + 16)
                };
                note(log, &rr);
            }
            done.push((k, start, stop));
        }
        // the same fetches once more in the opposite order: every answer must be the same as before
        // (each is judged by the definition, which has no history argument)
        for &(k, start, stop) in done.iter().rev().take(6) {
            ev_fetch_rid(log, &mut o, k, start, stop);
            let rr = ev_read(log, &mut o, &[], true);
            note(log, &rr);
        }
        log.oblige("fetch_set_in_two_orders");
    }

    // ---------------- C: lines longer than the BufReader capacity (8192)
    let nbig = log.opts.n(6, 24);
    for i in 0..nbig {
        case += 1;
        if !log.mine(case) {
            continue;
        }
        let mut rng = Rng::new(seed, 22, case);
        let w = [8190usize, 8191, 8192, 8193, 8200, 9000][i as usize % 6];
        let len = w * 2 + rng.range(1, 50) as usize;
        let t = 1 + (i as usize / 6) % 2;
        let recs = vec![
            FRec { name: b"pre".to_vec(), desc: vec![], seq: seq_of(&mut rng, 5), w: 3, t },
            FRec { name: b"big".to_vec(), desc: b"x".to_vec(), seq: seq_of(&mut rng, len), w, t },
        ];
        let cut = if i % 3 == 2 { (layout(&recs, false).file.len() - rng.range(1, 30) as usize) as i64 } else { -1 };
        let (mut o, _lay) = match open(log, "bigline", "bigline", &recs, cut, false) {
            Some(x) => x,
            None => continue,
        };
        for q in 0..3 {
            let (a, b) = match q {
                0 => (0u64, len as u64),
                1 => (w as u64 - 2, w as u64 + 3),
                _ => {
                    let a = rng.below(w as u64);
                    (a, rng.range(w as i64, len as i64) as u64)
                }
            };
            ev_fetch(log, &mut o, b"big", a, b);
            let sched: Vec<usize> = if q == 2 { vec![5000, 8192, 100] } else { vec![] };
            let rr = if (q + i) % 2 == 0 { ev_read(log, &mut o, &sched, false) } else {
                ev_read_iter(log, &mut o, &sched, -1, len + 16)
            };
            note(log, &rr);
        }
        log.oblige("line_longer_than_bufreader");
    }

    // ---------------- C2: plain full-buffer reads (like io::Cursor): the 8 KiB BufReader seam swept over
    // every byte around a line end, then the adjacent window
    let mut sweep = 0usize;
    for t in 1..=2usize {
        for delta in -1i64..=(t as i64 + 1) {
            // the first fill (8192 bytes from the seek position) ends `delta` bytes behind the last base of a
            // line: 0 = right in front of the terminator, 1 with CRLF = between CR and LF, t = behind it
            for w in [60usize, 61, 20] {
                case += 1;
                sweep += 1;
                if !log.mine(case) {
                    continue;
                }
                let mut rng = Rng::new(seed, 24, case);
                let lby = w + t;
                let len = (8192 / lby + 12) * w + rng.below(w as u64) as usize;
                let recs = vec![
                    FRec { name: b"p".to_vec(), desc: vec![], seq: seq_of(&mut rng, sweep % 5), w: 3, t },
                    FRec { name: b"chr".to_vec(), desc: vec![], seq: seq_of(&mut rng, len), w, t },
                ];
                let (mut o, _lay) = match open(log, "seam8k", "seam8k", &recs, -1, false) {
                    Some(x) => x,
                    None => continue,
                };
                // seek position p = off + l1*lby + c; wanted: p + 8192 - delta = off + L*lby + w
                let c0 = (w as i64 + delta - 8192).rem_euclid(lby as i64) as usize;
                if c0 >= w {
                    continue; // this delta cannot be produced with this width (start column inside a terminator)
                }
                for l1 in 0..3usize {
                    let start = l1 * w + c0;
                    let l = (l1 * lby + c0 + 8192 - w) as i64 - delta;
                    let stop = (l as usize / lby + 1) * w;
                    if l as usize % lby != 0 || stop > len {
                        continue;
                    }
                    ev_fetch(log, &mut o, b"chr", start as u64, stop as u64);
                    let rr = ev_read(log, &mut o, &[], false);
                    note(log, &rr);
                    let stop2 = (stop + w + rng.below(w as u64) as usize).min(len);
                    if l1 % 2 == 0 { ev_fetch(log, &mut o, b"chr", stop as u64, stop2 as u64) } else {
                        ev_fetch_rid(log, &mut o, 1, stop as u64, stop2 as u64)
                    }
                    let rr = if (l1 + sweep) % 2 == 0 { ev_read(log, &mut o, &[], true) } else {
                        ev_read_iter(log, &mut o, &[], -1, stop2 - stop + 16)
                    };
                    note(log, &rr);
                    log.oblige("bufreader_seam_on_line_end_then_adjacent");
                    if delta == 0 || (t == 2 && delta == 1) {
                        log.oblige("adjacent_windows_line_aligned_seam");
                        log.oblige("adjacent_seam_at_8k_boundary");
                    }
                }
            }
        }
    }

    // ---------------- D: closed-form huge files: positions beyond 4 GiB / line numbers beyond 2^32
    let two32: u64 = 1 << 32;
    let mut bigcases: Vec<(u64, u64, u64, bool)> = vec![]; // (len, w, t, dump)
    for t in 1..=2u64 {
        bigcases.push((5_000_000_000, 60, t, false));
        bigcases.push((two32 + 100, 1, t, false));
        bigcases.push((two32 * 7 / 6 + 977, 7, t, false));
    }
    for (len, w) in [(0u64, 3u64), (5, 1), (10, 3), (13, 4), (8, 8), (9, 60)] {
        bigcases.push((len, w, 1 + (len + w) % 2, true));
    }
    for (ci, &(len, w, t, dump)) in bigcases.iter().enumerate() {
        case += 1;
        if !log.mine(case) {
            continue;
        }
        let mut rng = Rng::new(seed, 23, case);
        let lby = w + t;
        let mut q: Vec<(u64, u64)> = vec![];
        if dump {
            for a in 0..=len {
                for b in a..=len {
                    if (a + b + ci as u64) % 3 == 0 || b == len {
                        q.push((a, b - a));
                    }
                }
            }
            q.push((0, len + 1)); // out of range
        } else {
            let maxspan = if w == 1 { 40 } else { 300 };
            // controls: the beginning, and the last positions whose byte offset stays below 2^32
            q.push((0, rng.range(1, maxspan) as u64));
            let below = (two32 - 4096) / lby * w;
            q.push((below - rng.below(1000), rng.range(1, maxspan) as u64));
            // byte offsets into the record just below / at / above 2^32, and far above
            for target in [two32 - lby, two32 - 1, two32, two32 + 1, two32 + lby + 3, two32 + 700_001] {
                let start = target / lby * w + (target % lby).min(w - 1);
                if start + maxspan as u64 <= len {
                    q.push((start, rng.range(1, maxspan) as u64));
                }
            }
            // line numbers around 2^32 (narrow lines), the end of the record, a refusal
            for start in [two32 * w - 2, two32 * w, two32 * w + 41] {
                if start + maxspan as u64 <= len {
                    q.push((start, rng.range(1, maxspan) as u64));
                }
            }
            let span = rng.range(1, maxspan) as u64;
            q.push((len - span, span));
            q.push((len - 3, 4)); // stop = len + 1: refused
            for _ in 0..3 {
                let start = two32 / lby * w + rng.below(len - two32 / lby * w - maxspan as u64);
                q.push((start, rng.range(0, maxspan) as u64));
            }
        }
        let chunk = [usize::MAX, 1000, 8192, 61][ci % 4];
        big_run(log, len, w, t, chunk, dump, &q);
    }

    // ---------------- E: record names: the first byte swept over all printable ASCII (also in the middle of a
    // name); the .fai text parsed by Index::new (memory) or Index::from_file via IndexedReader::from_file;
    // every record fetched by name and by record number
    for c in 33u8..=126 {
        case += 1;
        if !log.mine(case) {
            continue;
        }
        let mut rng = Rng::new(seed, 25, case);
        let t = 1 + (c as usize % 2);
        let mk = |name: Vec<u8>, rng: &mut Rng, k: usize| FRec { name, desc: if k == 1 { b"second rec".to_vec() } else { vec![] },
                                                                seq: seq_of(rng, 5 + 3 * k + (c as usize % 4)), w: 4 + k, t };
        let recs = vec![
            mk(b"plain".to_vec(), &mut rng, 0),
            mk(vec![c, b'2'], &mut rng, 1),
            mk(vec![b'a', c, b'b'], &mut rng, 2),
            mk(vec![c], &mut rng, 3),
            mk(b"last".to_vec(), &mut rng, 4),
        ];
        let lay = layout(&recs, c % 3 == 0);
        let from_file = c % 2 == 1;
        if !log.begin("names", file_cfg("file", &recs, &lay)) {
            continue;
        }
        let path = format!("{}.names{}.fa", log.opts.out, c);
        if from_file {
            std::fs::write(&path, &lay.file).unwrap();
            std::fs::write(format!("{}.fai", path), lay.fai.as_bytes()).unwrap();
            let mut r: Option<FileRd> = None;
            log.call("open", json!({"who": 0, "via": "from_file"}), || {
                let x = fasta::IndexedReader::from_file(&path).unwrap();
                let q = seqs_json(&x);
                r = Some(x);
                json!({"seqs": q})
            });
            if let Some(mut r) = r {
                for (k, rec) in recs.iter().enumerate() {
                    let len = rec.seq.len() as u64;
                    fev_fetch(log, &mut r, 0, &rec.name, 0, len);
                    fev_read(log, &mut r, 0, k % 2 == 0);
                    fev_fetch_rid(log, &mut r, 0, k, 1.min(len), len);
                    fev_read_iter(log, &mut r, 0, len as usize + 8);
                }
            }
            let _ = std::fs::remove_file(&path);
            let _ = std::fs::remove_file(format!("{}.fai", path));
            log.oblige("index_from_file");
        } else {
            let mut r: Option<fasta::IndexedReader<std::io::Cursor<Vec<u8>>>> = None;
            log.call("open", json!({"who": 0, "via": "index_new"}), || {
                let x = fasta::IndexedReader::new(std::io::Cursor::new(lay.file.clone()), lay.fai.as_bytes()).unwrap();
                let q = seqs_json(&x);
                r = Some(x);
                json!({"seqs": q})
            });
            if let Some(mut r) = r {
                for (k, rec) in recs.iter().enumerate() {
                    let len = rec.seq.len() as u64;
                    fev_fetch_rid(log, &mut r, 0, k, 0, len);
                    fev_read(log, &mut r, 0, k % 2 == 1);
                    fev_fetch(log, &mut r, 0, &rec.name, 1.min(len), len);
                    fev_read_iter(log, &mut r, 0, len as usize + 8);
                }
            }
        }
        log.oblige("name_first_byte_sweep");
        if c == b'#' || c == b'"' || c == b';' {
            log.oblige("name_with_csv_special_first_byte");
        }
    }

    // ---------------- F: two IndexedReaders over try_clone'd handles of ONE file: they share the OS file
    // cursor; fetch/read histories interleaved at call granularity, incl. adjacent windows
    let nshared = log.opts.n(6, 30);
    for i in 0..nshared {
        case += 1;
        if !log.mine(case) {
            continue;
        }
        let mut rng = Rng::new(seed, 26, case);
        let t = 1 + (i as usize % 2);
        let w = [60usize, 61, 100][i as usize % 3];
        let len = 34_000 + rng.below(3000) as usize;
        let recs = vec![
            FRec { name: b"s0".to_vec(), desc: vec![], seq: seq_of(&mut rng, 7), w: 3, t },
            FRec { name: b"chr".to_vec(), desc: b"shared".to_vec(), seq: seq_of(&mut rng, len), w, t },
        ];
        let lay = layout(&recs, false);
        if !log.begin("shared", file_cfg("shared", &recs, &lay)) {
            continue;
        }
        let path = format!("{}.shared{}.fa", log.opts.out, i);
        std::fs::write(&path, &lay.file).unwrap();
        let f1 = std::fs::File::open(&path).unwrap();
        let f2 = f1.try_clone().unwrap();
        let mut rds: Vec<FileRd> = vec![];
        for (who, f) in [f1, f2].into_iter().enumerate() {
            let mut r: Option<FileRd> = None;
            log.call("open", json!({"who": who, "via": "try_clone"}), || {
                let x = fasta::IndexedReader::new(f, lay.fai.as_bytes()).unwrap();
                let q = seqs_json(&x);
                r = Some(x);
                json!({"seqs": q})
            });
            if let Some(r) = r {
                rds.push(r);
            }
        }
        if rds.len() == 2 {
            // per reader: the end of its previous window (the next window starts there)
            let mut at = [0u64, 30_000];
            let mut step = 0usize;
            for round in 0..6 {
                for who in 0..2usize {
                    step += 1;
                    let a = at[who];
                    let span = match (round + who) % 3 {
                        0 => 100,
                        1 => rng.range(1, 3 * w as i64) as u64,
                        _ => if who == 0 { 9_000 + rng.below(9000) } else { 500 },
                    };
                    let b = (a + span).min(len as u64);
                    if step % 2 == 0 { fev_fetch(log, &mut rds[who], who, b"chr", a, b) } else {
                        fev_fetch_rid(log, &mut rds[who], who, 1, a, b)
                    }
                    if (round + 2 * who) % 3 == 2 { fev_read_iter(log, &mut rds[who], who, (b - a) as usize + 8) } else {
                        fev_read(log, &mut rds[who], who, step % 3 == 0)
                    }
                    at[who] = if b >= len as u64 { rng.below(1000) } else { b };
                    if round > 0 {
                        log.oblige("shared_cursor_adjacent_window_after_foreign_read");
                    }
                }
            }
        }
        drop(rds);
        let _ = std::fs::remove_file(&path);
        log.oblige("shared_cursor_two_readers");
    }

    // ---------------- G: IndexedReader::from_file on unusual file names (the index is "<path>.fai", byte for byte):
    // non-UTF-8 bytes, spaces, '#', '%', trailing dots, very long names; for the non-UTF-8 names a decoy index
    // spelled with U+FFFD (different line width) lies next to the right one
    {
        use std::os::unix::ffi::OsStrExt;
        let names: Vec<Vec<u8>> = vec![
            b"g\xE9nome.fa".to_vec(),
            b"\xff\xfe ref.fasta".to_vec(),
            b"a b  c.fa".to_vec(),
            b"x#y%z%20.fa".to_vec(),
            b"dots...".to_vec(),
            b".hidden".to_vec(),
            { let mut v = vec![b'L'; 200]; v.extend_from_slice(b".fa"); v },
            "g\u{FFFD}nome2\u{00E9}.fa".as_bytes().to_vec(),
        ];
        for (ni, name) in names.iter().enumerate() {
            case += 1;
            if !log.mine(case) {
                continue;
            }
            let mut rng = Rng::new(seed, 27, case);
            let t = 1 + ni % 2;
            let recs = vec![
                FRec { name: b"one".to_vec(), desc: vec![], seq: seq_of(&mut rng, 23 + ni), w: 5, t },
                FRec { name: b"two".to_vec(), desc: b"d".to_vec(), seq: seq_of(&mut rng, 40), w: 7, t },
            ];
            let lay = layout(&recs, false);
            if !log.begin("paths", file_cfg("file", &recs, &lay)) {
                continue;
            }
            let dir = std::path::PathBuf::from(format!("{}.paths{}", log.opts.out, ni));
            std::fs::create_dir_all(&dir).unwrap();
            let fa = dir.join(std::ffi::OsStr::from_bytes(name));
            let mut fai_name = name.clone();
            fai_name.extend_from_slice(b".fai");
            std::fs::write(&fa, &lay.file).unwrap();
            std::fs::write(dir.join(std::ffi::OsStr::from_bytes(&fai_name)), lay.fai.as_bytes()).unwrap();
            if std::str::from_utf8(name).is_err() {
                // decoy: the lossy spelling of the index name, describing another layout
                let lossy = format!("{}.fai", String::from_utf8_lossy(name));
                let decoy_recs: Vec<FRec> = recs.iter().map(|r| FRec { w: r.w + 1, ..r.clone() }).collect();
                std::fs::write(dir.join(lossy), layout(&decoy_recs, false).fai.as_bytes()).unwrap();
                log.oblige("from_file_non_utf8_path");
            }
            let mut r: Option<FileRd> = None;
            log.call("open", json!({"who": 0, "via": "from_file_odd_name"}), || {
                let x = fasta::IndexedReader::from_file(&fa).unwrap();
                let q = seqs_json(&x);
                r = Some(x);
                json!({"seqs": q})
            });
            if let Some(mut r) = r {
                for (k, rec) in recs.iter().enumerate() {
                    let len = rec.seq.len() as u64;
                    fev_fetch(log, &mut r, 0, &rec.name, 0, len);
                    fev_read(log, &mut r, 0, true);
                    fev_fetch_rid(log, &mut r, 0, k, 3, len - 2);
                    fev_read_iter(log, &mut r, 0, len as usize + 8);
                }
            }
            let _ = std::fs::remove_dir_all(&dir);
            log.oblige("from_file_unusual_path");
        }
    }

    // ---------------- H: an index that promises far more than the file holds (2^63, u64::MAX, 10^6, 100 bases for a
    // record of a few dozen): reading must end in an error (never a panic / abort); small valid fetches afterwards
    // work on the same reader. Lengths travel as 4 limbs base 10^6, most significant first.
    let limbs = |x: u128| -> Value { json!([(x / 1_000_000_000_000_000_000) as u64, ((x / 1_000_000_000_000) % 1_000_000) as u64,
                                             ((x / 1_000_000) % 1_000_000) as u64, (x % 1_000_000) as u64]) };
    let claims: [u64; 6] = [1u64 << 63, u64::MAX, 1_000_000, 100, (1u64 << 33) + 5, 1u64 << 32];
    for (ci, &claim) in claims.iter().enumerate() {
        for t in 1..=2usize {
            case += 1;
            if !log.mine(case) {
                continue;
            }
            let mut rng = Rng::new(seed, 28, case);
            let recs = vec![
                FRec { name: b"ok".to_vec(), desc: vec![], seq: seq_of(&mut rng, 11), w: 4, t },
                FRec { name: b"liar".to_vec(), desc: vec![], seq: seq_of(&mut rng, 37 + ci), w: [60usize, 5, 1][ci % 3], t },
            ];
            let lay = layout(&recs, false);
            let real = recs[1].seq.len() as u64;
            let fai = format!("ok\t11\t{}\t4\t{}\nliar\t{}\t{}\t{}\t{}\n", lay.offs[0], 4 + t, claim, lay.offs[1],
                              recs[1].w, recs[1].w + t);
            let cfg = json!({"cls": "lying", "file": bytes(&lay.file),
                "claim": [limbs(11), limbs(claim as u128)],
                "recs": recs.iter().map(|r| json!({"name": bytes(&r.name), "desc": bytes(&r.desc), "seq": bytes(&r.seq),
                                                   "w": r.w, "t": r.t})).collect::<Vec<_>>()});
            if !log.begin("lying", cfg) {
                continue;
            }
            let mut rd: Option<fasta::IndexedReader<std::io::Cursor<Vec<u8>>>> = None;
            log.call("open", json!({"who": 0}), || {
                rd = Some(fasta::IndexedReader::new(std::io::Cursor::new(lay.file.clone()), fai.as_bytes()).unwrap());
                json!({})
            });
            let mut rd = match rd {
                Some(r) => r,
                None => continue,
            };
            // (rid, start, stop; stop = None: fetch_all)
            let plan: Vec<(usize, u64, Option<u64>)> = vec![
                (1, 0, None), (1, 3, Some(claim)), (1, 0, Some(real)), (0, 2, Some(9)), (1, real - 1, Some(claim)),
                (1, 5, Some(real + 1)), (1, 7, Some(20)), (0, 0, None), (1, real, Some(claim)), (1, 1, Some(real - 1)),
            ];
            for (pi, &(rid, start, stop)) in plan.iter().enumerate() {
                match stop {
                    None => {
                        log.call("fetch_all_rid", json!({"who": 0, "rid": rid}), || json!({"ok": ok01(&rd.fetch_all_by_rid(rid))}));
                    }
                    Some(e) => {
                        let e = e.max(start);
                        log.call("fetch_big", json!({"who": 0, "rid": rid, "start": start, "stop": limbs(e as u128)}),
                                 || json!({"ok": ok01(&rd.fetch_by_rid(rid, start, e))}));
                    }
                }
                if pi % 2 == 0 { fev_read(log, &mut rd, 0, pi % 4 == 0) } else { fev_read_iter(log, &mut rd, 0, real as usize + 16) }
            }
            if claim >= (1u64 << 62) {
                log.oblige("index_promises_more_than_the_file_holds_huge");
            }
            log.oblige("index_promises_more_than_the_file_holds");
        }
    }
}

fn main() {
    bio_verif_harness::run(drive)
}
