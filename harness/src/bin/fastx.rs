//! C11 — FASTA / FASTQ readers, writers, sniffer.
//!
//! One run = one record list (cfg.kind, cfg.recs; empty for the classes that
//! feed raw bytes). Events:
//!   write   {wrap}                -> {b}      bytes produced by the real writer
//!   display {}                    -> {b}      concatenated Record::to_string()
//!   parse   {p,b,cap,sched,how,lay,wrap,crlf,cut} -> {items,vk,capped}
//!   sniff   {b,how}               -> {kind,pos}
//! The harness contains no expectation: it records what the readers return.
//! `lay = 1` tells the specification that `b` claims to be the wire format of
//! cfg.recs with the given wrap / line end, cut after `cut` bytes (-1 = not cut);
//! the specification re-derives that claim itself.
use bio::io::fasta::FastaRead;
use bio::io::fastq::FastqRead;
use bio::io::fastx::Record as FxRecord;
use bio::io::{fasta, fastq, fastx};
use bio_verif_harness::{bytes, usizes, Log, Rng, SchedReader};
use serde_json::{json, Value};
use std::io::BufReader;

const TOK: [u8; 9] = [b'>', b'@', b'+', b' ', b'\t', b'\r', b'\n', b'A', b'!'];
const CAPS: [usize; 6] = [1, 2, 3, 5, 16, 8192];

// ------------------------------------------------------------ Err(Interrupted) steps of the environment
// A read()/write() call may fail with ErrorKind::Interrupted at any time; the contract is "no-op, retry".
// Pattern k (cyclic over the calls; 1 = this call is interrupted): 0 none, 1 before every call incl. the
// first, 2 twice in a row, 3 every second call, 4 a later pair.
const INTR_PATTERNS: [&[u8]; 5] = [&[], &[1, 0], &[1, 1, 0], &[0, 1], &[0, 0, 1, 1, 0]];
thread_local! { static INTR: std::cell::Cell<usize> = std::cell::Cell::new(0); }
/// choose the interruption pattern of the NEXT event (one-shot)
fn set_intr(k: usize) {
    INTR.with(|c| c.set(k % INTR_PATTERNS.len()));
}
fn take_intr(log: &mut Log, sniffing: bool, writing: bool) -> usize {
    let k = INTR.with(|c| c.replace(0));
    if k != 0 {
        log.oblige(if writing { "sink_interrupted_writes" } else { "io_interrupted_reads" });
        if !writing && (k == 1 || k == 2) {
            log.oblige("io_interrupted_before_first_byte");
            if sniffing {
                log.oblige("sniffer_first_read_interrupted");
            }
        }
        if k == 2 || k == 4 {
            log.oblige("io_interrupted_twice_in_a_row");
        }
    }
    k
}
fn interrupted() -> std::io::Error {
    std::io::Error::new(std::io::ErrorKind::Interrupted, "interrupted (scripted)")
}

struct Intr<R> {
    inner: R,
    pat: &'static [u8],
    i: usize,
}
impl<R> Intr<R> {
    fn new(inner: R, k: usize) -> Self {
        Intr { inner, pat: INTR_PATTERNS[k], i: 0 }
    }
    fn hit(&mut self) -> bool {
        if self.pat.is_empty() {
            return false;
        }
        let x = self.pat[self.i % self.pat.len()];
        self.i += 1;
        x == 1
    }
}
impl<R: std::io::Read> std::io::Read for Intr<R> {
    fn read(&mut self, buf: &mut [u8]) -> std::io::Result<usize> {
        if self.hit() {
            return Err(interrupted());
        }
        self.inner.read(buf)
    }
}
impl<R: std::io::Seek> std::io::Seek for Intr<R> {
    fn seek(&mut self, p: std::io::SeekFrom) -> std::io::Result<u64> {
        self.inner.seek(p)
    }
}

#[derive(Clone)]
struct Rec {
    id: Vec<u8>,
    desc: Option<Vec<u8>>,
    seq: Vec<u8>,
    qual: Vec<u8>,
}

fn rec_json(r: &Rec) -> Value {
    json!({"id": bytes(&r.id), "hd": if r.desc.is_some() {1} else {0},
           "desc": bytes(r.desc.as_deref().unwrap_or(&[])), "seq": bytes(&r.seq), "qual": bytes(&r.qual)})
}

fn item_rec(id: &str, desc: Option<&str>, seq: &[u8], qual: &[u8], chk: bool) -> Value {
    json!({"k": "rec", "e": "", "id": bytes(id.as_bytes()), "hd": if desc.is_some() {1} else {0},
           "desc": bytes(desc.unwrap_or("").as_bytes()), "seq": bytes(seq), "qual": bytes(qual),
           "chk": if chk {1} else {0}})
}

fn item_err(kind: &str) -> Value {
    json!({"k": "err", "e": kind, "id": [], "hd": 0, "desc": [], "seq": [], "qual": [], "chk": 0})
}

fn io_kind(e: &std::io::Error) -> &'static str {
    let msg = e.to_string();
    if msg.starts_with("Not a valid FASTA/FASTQ") {
        "sniff"
    } else if msg == "Expected > at record start." {
        "fmt"
    } else if e.kind() == std::io::ErrorKind::InvalidData {
        "utf8"
    } else {
        "io"
    }
}

fn fq_kind(e: &fastq::Error) -> &'static str {
    match e {
        fastq::Error::MissingAt => "missing_at",
        fastq::Error::IncompleteRecord => "incomplete",
        fastq::Error::ReadError(e) => io_kind(e),
        _ => "io",
    }
}

/// Drive one parser over `data` through BufReader(cap) over SchedReader(sched).
/// Returns (items, variant kinds, capped).
fn parse(p: &str, how: &str, data: &[u8], cap: usize, sched: &[usize], intr: usize) -> (Vec<Value>, Vec<Value>, bool) {
    let limit = data.len() + 3;
    let src = Intr::new(SchedReader::new(data.to_vec(), sched.to_vec()), intr);
    let mut items = vec![];
    let mut vk = vec![];
    let mut capped = false;
    match (p, how) {
        ("fasta", "iter") => {
            let rd = if cap == 8192 { fasta::Reader::new(src) } else { fasta::Reader::with_capacity(cap, src) };
            let mut it = rd.records();
            loop {
                if items.len() >= limit {
                    capped = true;
                    break;
                }
                match it.next() {
                    None => break,
                    Some(Ok(r)) => items.push(item_rec(r.id(), r.desc(), r.seq(), &[], r.check().is_ok())),
                    Some(Err(e)) => items.push(item_err(io_kind(&e))),
                }
            }
        }
        ("fasta", _) => {
            // the documented read() loop: stop at an empty record or at the first error
            let mut rd = fasta::Reader::from_bufread(BufReader::with_capacity(cap.max(1), src));
            let mut r = fasta::Record::new();
            loop {
                if items.len() >= limit {
                    capped = true;
                    break;
                }
                match rd.read(&mut r) {
                    Ok(()) => {
                        if r.is_empty() {
                            break;
                        }
                        items.push(item_rec(r.id(), r.desc(), r.seq(), &[], r.check().is_ok()));
                    }
                    Err(e) => {
                        items.push(item_err(io_kind(&e)));
                        break;
                    }
                }
            }
        }
        ("fastq", "iter") => {
            let rd = if cap == 8192 { fastq::Reader::new(src) } else { fastq::Reader::with_capacity(cap, src) };
            let mut it = rd.records();
            loop {
                if items.len() >= limit {
                    capped = true;
                    break;
                }
                match it.next() {
                    None => break,
                    Some(Ok(r)) => items.push(item_rec(r.id(), r.desc(), r.seq(), r.qual(), r.check().is_ok())),
                    Some(Err(e)) => items.push(item_err(fq_kind(&e))),
                }
            }
        }
        ("fastq", _) => {
            let mut rd = fastq::Reader::from_bufread(BufReader::with_capacity(cap.max(1), src));
            let mut r = fastq::Record::new();
            loop {
                if items.len() >= limit {
                    capped = true;
                    break;
                }
                match rd.read(&mut r) {
                    Ok(()) => {
                        if r.is_empty() {
                            break;
                        }
                        items.push(item_rec(r.id(), r.desc(), r.seq(), r.qual(), r.check().is_ok()));
                    }
                    Err(e) => items.push(item_err(fq_kind(&e))),
                }
            }
        }
        _ => {
            let it = fastx::EitherRecords::new(BufReader::with_capacity(cap.max(1), src));
            let mut it = it;
            loop {
                if items.len() >= limit {
                    capped = true;
                    break;
                }
                match it.next() {
                    None => break,
                    Some(Ok(r)) => {
                        let q: Vec<u8> = FxRecord::qual(&r).map(|q| q.to_vec()).unwrap_or_default();
                        vk.push(json!(match FxRecord::kind(&r) {
                            fastx::Kind::FASTA => "fasta",
                            fastx::Kind::FASTQ => "fastq",
                        }));
                        items.push(item_rec(
                            FxRecord::id(&r),
                            FxRecord::desc(&r),
                            FxRecord::seq(&r),
                            &q,
                            FxRecord::check(&r).is_ok(),
                        ));
                    }
                    Some(Err(e)) => {
                        vk.push(json!("err"));
                        items.push(item_err(match &e {
                            fastx::Error::IO(e) => io_kind(e),
                            fastx::Error::FASTQ(e) => fq_kind(e),
                        }));
                    }
                }
            }
        }
    }
    (items, vk, capped)
}

// ------------------------------------------------------------ other ways to obtain the same records
// how = "copies"         every record is handed on as a copy: clone(), serde_json round trip, clone_from() into a
//                        used record; Default/new() records are logged as `fresh_empty`
//       "read_then_iter" one read() call, then the records() iterator on the same reader (mixing the two APIs)
//       "adapters"       first item through nth(0), the rest through by_ref().step_by(1); count() and last() of two
//                        further passes are logged as `count` / `last`
//       "from_file"      Reader::from_file / from_file_with_capacity / EitherRecords::from_file on a real file
// All of them must yield the items of the plain iteration.
thread_local! { static TMPBASE: std::cell::RefCell<String> = std::cell::RefCell::new(String::new()); }
fn tmp_path(tag: &str) -> String {
    TMPBASE.with(|t| format!("{}.{}.tmp", t.borrow(), tag))
}

macro_rules! alt_reader {
    ($m:ident, $item:expr, $errk:expr, $how:expr, $data:expr, $cap:expr, $sched:expr, $intr:expr, $limit:expr) => {{
        let mk = || $m::Reader::with_capacity($cap.max(1), Intr::new(SchedReader::new($data.to_vec(), $sched.to_vec()), $intr));
        let mut items: Vec<Value> = vec![];
        let mut extra = json!({});
        let mut capped = false;
        match $how {
            "copies" => {
                let mut dirty = $m::Record::new();
                let fresh = $m::Record::new();
                let dflt = $m::Record::default();
                extra = json!({"fresh_empty": if fresh.is_empty() && dflt.is_empty() && fresh == dflt {1} else {0}});
                for (n, res) in mk().records().enumerate() {
                    if items.len() >= $limit {
                        capped = true;
                        break;
                    }
                    match res {
                        Ok(r) => {
                            let c = match n % 3 {
                                0 => r.clone(),
                                1 => serde_json::from_str(&serde_json::to_string(&r).unwrap()).unwrap(),
                                _ => {
                                    dirty.clone_from(&r);
                                    dirty.clone()
                                }
                            };
                            items.push($item(&c));
                            dirty = r; // the next clone_from target holds an older record
                        }
                        Err(e) => items.push(item_err($errk(&e))),
                    }
                }
            }
            h if h.ends_with("_then_iter") => {
                // "read<k>_then_iter": k read() calls, then the records() iterator on the same reader
                let k = h.as_bytes()[4].saturating_sub(b'0') as usize;
                let mut rd = mk();
                let mut r = $m::Record::new();
                let mut go_on = true;
                for _ in 0..k {
                    match rd.read(&mut r) {
                        Ok(()) => {
                            if r.is_empty() {
                                go_on = false;
                                break;
                            }
                            items.push($item(&r));
                        }
                        Err(e) => items.push(item_err($errk(&e))),
                    }
                }
                if go_on {
                    for res in rd.records() {
                        if items.len() >= $limit {
                            capped = true;
                            break;
                        }
                        match res {
                            Ok(r) => items.push($item(&r)),
                            Err(e) => items.push(item_err($errk(&e))),
                        }
                    }
                }
            }
            "adapters" => {
                let conv = |res: Result<$m::Record, _>| match res {
                    Ok(r) => $item(&r),
                    Err(e) => item_err($errk(&e)),
                };
                let mut it = mk().records();
                if let Some(first) = it.nth(0) {
                    items.push(conv(first));
                    for res in it.by_ref().step_by(1).take($limit) {
                        items.push(conv(res));
                    }
                }
                let count = mk().records().take($limit).count();
                let last: Vec<Value> = mk().records().take($limit).last().map(|x| vec![conv(x)]).unwrap_or_default();
                extra = json!({"count": count, "last": last});
            }
            _ => {
                let path = tmp_path("rd");
                std::fs::write(&path, $data).unwrap();
                let rd = $m::Reader::from_file(&path).unwrap();
                for res in rd.records() {
                    if items.len() >= $limit {
                        capped = true;
                        break;
                    }
                    match res {
                        Ok(r) => items.push($item(&r)),
                        Err(e) => items.push(item_err($errk(&e))),
                    }
                }
                let _ = std::fs::remove_file(&path);
            }
        }
        (items, capped, extra)
    }};
}

fn parse_alt(p: &str, how: &str, data: &[u8], cap: usize, sched: &[usize], intr: usize) -> (Vec<Value>, Vec<Value>, bool, Value) {
    let limit = data.len() + 3;
    let fa_item = |r: &fasta::Record| item_rec(r.id(), r.desc(), r.seq(), &[], r.check().is_ok());
    let fq_item = |r: &fastq::Record| item_rec(r.id(), r.desc(), r.seq(), r.qual(), r.check().is_ok());
    match p {
        "fasta" => {
            if how == "from_file" && cap != 8192 {
                // the capacity variant of the file constructor
                let path = tmp_path("rdc");
                std::fs::write(&path, data).unwrap();
                let mut items = vec![];
                for res in fasta::Reader::from_file_with_capacity(cap.max(1), &path).unwrap().records().take(limit) {
                    match res {
                        Ok(r) => items.push(fa_item(&r)),
                        Err(e) => items.push(item_err(io_kind(&e))),
                    }
                }
                let _ = std::fs::remove_file(&path);
                return (items, vec![], false, json!({}));
            }
            let (i, c, x) = alt_reader!(fasta, fa_item, io_kind, how, data, cap, sched, intr, limit);
            (i, vec![], c, x)
        }
        "fastq" => {
            let (i, c, x) = alt_reader!(fastq, fq_item, fq_kind, how, data, cap, sched, intr, limit);
            (i, vec![], c, x)
        }
        _ => {
            // either: EitherRecords::from_file + get_kind_file
            let path = tmp_path("rdx");
            std::fs::write(&path, data).unwrap();
            let kf = match fastx::get_kind_file(&path) {
                Ok(fastx::Kind::FASTA) => "fasta",
                Ok(fastx::Kind::FASTQ) => "fastq",
                Err(e) if e.kind() == std::io::ErrorKind::UnexpectedEof => "eof",
                Err(e) if e.kind() == std::io::ErrorKind::InvalidData => "invalid",
                Err(_) => "io",
            };
            let mut items = vec![];
            let mut vk = vec![];
            for res in fastx::EitherRecords::from_file(&path).unwrap().take(limit) {
                match res {
                    Ok(r) => {
                        let q: Vec<u8> = FxRecord::qual(&r).map(|q| q.to_vec()).unwrap_or_default();
                        vk.push(json!(match FxRecord::kind(&r) {
                            fastx::Kind::FASTA => "fasta",
                            fastx::Kind::FASTQ => "fastq",
                        }));
                        items.push(item_rec(FxRecord::id(&r), FxRecord::desc(&r), FxRecord::seq(&r), &q, FxRecord::check(&r).is_ok()));
                    }
                    Err(e) => {
                        vk.push(json!("err"));
                        items.push(item_err(match &e {
                            fastx::Error::IO(e) => io_kind(e),
                            fastx::Error::FASTQ(e) => fq_kind(e),
                        }));
                    }
                }
            }
            let _ = std::fs::remove_file(&path);
            (items, vk, false, json!({"kind_file": kf}))
        }
    }
}

struct Lay {
    lay: i64,
    wrap: i64,
    crlf: i64,
    cut: i64,
}
const NOLAY: Lay = Lay { lay: 0, wrap: 0, crlf: 0, cut: -1 };

fn parse_event(log: &mut Log, p: &str, how: &str, data: &[u8], cap: usize, sched: &[usize], lay: &Lay) -> Value {
    let intr = take_intr(log, p == "either", false);
    let args = json!({"p": p, "how": how, "b": bytes(data), "cap": cap, "sched": usizes(sched), "intr": intr,
                      "lay": lay.lay, "wrap": lay.wrap, "crlf": lay.crlf, "cut": lay.cut});
    log.call("parse", args, || {
        if how == "iter" || how == "read" {
            let (items, vk, capped) = parse(p, how, data, cap, sched, intr);
            json!({"items": items, "vk": vk, "capped": if capped {1} else {0}})
        } else {
            let (items, vk, capped, extra) = parse_alt(p, how, data, cap, sched, intr);
            let mut out = json!({"items": items, "vk": vk, "capped": if capped {1} else {0}});
            if let (Value::Object(o), Value::Object(x)) = (&mut out, extra) {
                for (k, v) in x {
                    o.insert(k, v);
                }
            }
            out
        }
    })
}

fn sniff_event(log: &mut Log, how: &str, data: &[u8]) {
    let intr = take_intr(log, true, false);
    log.call("sniff", json!({"how": how, "b": bytes(data), "intr": intr}), || {
        let classify = |r: std::io::Result<fastx::Kind>| match r {
            Ok(fastx::Kind::FASTA) => "fasta",
            Ok(fastx::Kind::FASTQ) => "fastq",
            Err(e) if e.kind() == std::io::ErrorKind::UnexpectedEof => "eof",
            Err(e) if e.kind() == std::io::ErrorKind::InvalidData => "invalid",
            Err(_) => "io",
        };
        match how {
            "kind" => {
                let mut it = fastx::EitherRecords::new(BufReader::new(Intr::new(SchedReader::new(data.to_vec(), vec![1]), intr)));
                json!({"kind": classify(it.kind()), "pos": 0})
            }
            "seek" => {
                let mut src = Intr::new(SchedReader::new(data.to_vec(), vec![]), intr);
                let k = classify(fastx::get_kind_seek(&mut src));
                json!({"kind": k, "pos": src.inner.pos})
            }
            _ => {
                let src = Intr::new(SchedReader::new(data.to_vec(), vec![]), intr);
                let k = match fastx::get_kind(src) {
                    Ok((_, k)) => classify(Ok(k)),
                    Err(e) => classify(Err(e)),
                };
                json!({"kind": k, "pos": 0})
            }
        }
    });
}

fn collect_fasta<R: std::io::Read>(src: R, limit: usize) -> (Vec<Value>, bool) {
    let mut items = vec![];
    let mut it = fasta::Reader::new(src).records();
    loop {
        if items.len() >= limit {
            return (items, true);
        }
        match it.next() {
            None => return (items, false),
            Some(Ok(r)) => items.push(item_rec(r.id(), r.desc(), r.seq(), &[], r.check().is_ok())),
            Some(Err(e)) => items.push(item_err(io_kind(&e))),
        }
    }
}
fn collect_fastq<R: std::io::Read>(src: R, limit: usize) -> (Vec<Value>, bool) {
    let mut items = vec![];
    let mut it = fastq::Reader::new(src).records();
    loop {
        if items.len() >= limit {
            return (items, true);
        }
        match it.next() {
            None => return (items, false),
            Some(Ok(r)) => items.push(item_rec(r.id(), r.desc(), r.seq(), r.qual(), r.check().is_ok())),
            Some(Err(e)) => items.push(item_err(fq_kind(&e))),
        }
    }
}

/// The sniffer on a source that is NOT at offset 0: a seekable source is (bytes, position).
///   how = "seek"           seek to `off`, get_kind_seek (twice), then the selected reader continues from there
///   how = "read_then_seek" reach `off` by consuming `off` bytes with read_exact, then as "seek"
///   how = "get_kind"       seek to `off`, get_kind (chained reader), the selected reader over the chain
/// result: kind, kind2 (second sniff), pos / pos2 (position of the source after the first / second sniff),
/// items = what the selected reader yields afterwards.
fn sniff_at_event(log: &mut Log, how: &str, data: &[u8], off: usize, lay: &Lay) -> Value {
    let intr = take_intr(log, true, false);
    let args = json!({"how": how, "b": bytes(data), "off": off, "intr": intr,
                      "lay": lay.lay, "wrap": lay.wrap, "crlf": lay.crlf, "cut": lay.cut});
    log.call("sniff_at", args, || {
        use std::io::{Read, Seek, SeekFrom};
        let classify = |r: std::io::Result<fastx::Kind>| match r {
            Ok(fastx::Kind::FASTA) => "fasta",
            Ok(fastx::Kind::FASTQ) => "fastq",
            Err(e) if e.kind() == std::io::ErrorKind::UnexpectedEof => "eof",
            Err(e) if e.kind() == std::io::ErrorKind::InvalidData => "invalid",
            Err(_) => "io",
        };
        let limit = data.len() + 3;
        let mut src = Intr::new(SchedReader::new(data.to_vec(), vec![]), intr);
        if how == "read_then_seek" {
            let mut sink = vec![0u8; off];
            src.read_exact(&mut sink).unwrap();
        } else {
            src.seek(SeekFrom::Start(off as u64)).unwrap();
        }
        if how == "get_kind" {
            let (items, capped, k) = match fastx::get_kind(src) {
                Ok((chain, fastx::Kind::FASTA)) => {
                    let (i, c) = collect_fasta(chain, limit);
                    (i, c, "fasta")
                }
                Ok((chain, fastx::Kind::FASTQ)) => {
                    let (i, c) = collect_fastq(chain, limit);
                    (i, c, "fastq")
                }
                Err(e) => (vec![], false, classify(Err(e))),
            };
            return json!({"kind": k, "kind2": k, "pos": off, "pos2": off, "items": items,
                          "capped": if capped {1} else {0}});
        }
        let k = classify(fastx::get_kind_seek(&mut src));
        let pos = src.inner.pos;
        let k2 = classify(fastx::get_kind_seek(&mut src));
        let pos2 = src.inner.pos;
        let (items, capped) = match k2 {
            "fasta" => collect_fasta(src, limit),
            "fastq" => collect_fastq(src, limit),
            _ => (vec![], false),
        };
        json!({"kind": k, "kind2": k2, "pos": pos, "pos2": pos2, "items": items, "capped": if capped {1} else {0}})
    })
}

// ------------------------------------------------------------ wire format built by the harness
fn nl(crlf: bool) -> &'static [u8] {
    if crlf { b"\r\n" } else { b"\n" }
}
fn body(out: &mut Vec<u8>, s: &[u8], wrap: usize, crlf: bool) {
    if wrap == 0 {
        out.extend_from_slice(s);
        out.extend_from_slice(nl(crlf));
    } else {
        for c in s.chunks(wrap) {
            out.extend_from_slice(c);
            out.extend_from_slice(nl(crlf));
        }
    }
}
fn wire(kind: &str, recs: &[Rec], wrap: usize, crlf: bool) -> Vec<u8> {
    let mut out = vec![];
    for r in recs {
        out.push(if kind == "fasta" { b'>' } else { b'@' });
        out.extend_from_slice(&r.id);
        if let Some(d) = &r.desc {
            out.push(b' ');
            out.extend_from_slice(d);
        }
        out.extend_from_slice(nl(crlf));
        body(&mut out, &r.seq, wrap, crlf);
        if kind == "fastq" {
            out.push(b'+');
            out.extend_from_slice(nl(crlf));
            body(&mut out, &r.qual, wrap, crlf);
        }
    }
    out
}

fn s(b: &[u8]) -> &str {
    std::str::from_utf8(b).unwrap()
}

/// A legal sink that accepts at most `max` bytes per write() call (pipes, sockets, compressors do that).
struct ShortSink {
    data: Vec<u8>,
    max: usize,
    pat: &'static [u8],
    i: usize,
}
impl std::io::Write for ShortSink {
    fn write(&mut self, buf: &[u8]) -> std::io::Result<usize> {
        if !self.pat.is_empty() {
            let x = self.pat[self.i % self.pat.len()];
            self.i += 1;
            if x == 1 {
                return Err(interrupted());
            }
        }
        let n = buf.len().min(self.max);
        self.data.extend_from_slice(&buf[..n]);
        Ok(n)
    }
    fn flush(&mut self) -> std::io::Result<()> {
        Ok(())
    }
}

/// wcap = 0: Writer::new (8 KiB BufWriter), else Writer::with_capacity(wcap); sink_max = 0: unlimited writes.
/// ctor: 0 = Writer::new / with_capacity(wcap), 1 = from_bufwriter, 2 = to_file + explicit flush,
///       3 = to_file_with_capacity, dropped without flush (BufWriter flushes on drop)
fn real_write(kind: &str, recs: &[Rec], wrap: usize, via_record: bool, wcap: usize, sink_max: usize, intr: usize, ctor: usize) -> Vec<u8> {
    let mut sink = ShortSink { data: vec![], max: if sink_max == 0 { usize::MAX } else { sink_max },
                               pat: INTR_PATTERNS[intr], i: 0 };
    macro_rules! put {
        ($w:expr, fasta) => {
            for r in recs {
                if via_record {
                    let rec = fasta::Record::with_attrs(s(&r.id), r.desc.as_deref().map(s), &r.seq);
                    $w.write_record(&rec).unwrap();
                } else {
                    $w.write(s(&r.id), r.desc.as_deref().map(s), &r.seq).unwrap();
                }
            }
        };
        ($w:expr, fastq) => {
            for r in recs {
                if via_record {
                    let rec = fastq::Record::with_attrs(s(&r.id), r.desc.as_deref().map(s), &r.seq, &r.qual);
                    $w.write_record(&rec).unwrap();
                } else {
                    $w.write(s(&r.id), r.desc.as_deref().map(s), &r.seq, &r.qual).unwrap();
                }
            }
        };
    }
    if ctor >= 2 {
        let path = tmp_path("wr");
        if kind == "fasta" {
            let mut w = if ctor == 2 { fasta::Writer::to_file(&path).unwrap() } else {
                fasta::Writer::to_file_with_capacity(wcap.max(1), &path).unwrap()
            };
            if wrap > 0 {
                w.set_linewrap(Some(wrap));
            }
            put!(w, fasta);
            if ctor == 2 {
                w.flush().unwrap();
            }
        } else {
            let mut w = if ctor == 2 { fastq::Writer::to_file(&path).unwrap() } else {
                fastq::Writer::to_file_with_capacity(wcap.max(1), &path).unwrap()
            };
            put!(w, fastq);
            if ctor == 2 {
                w.flush().unwrap();
            }
        }
        let out = std::fs::read(&path).unwrap();
        let _ = std::fs::remove_file(&path);
        return out;
    }
    if kind == "fasta" {
        let mut w = if ctor == 1 {
            fasta::Writer::from_bufwriter(std::io::BufWriter::with_capacity(wcap.max(1), &mut sink))
        } else if wcap > 0 { fasta::Writer::with_capacity(wcap, &mut sink) } else { fasta::Writer::new(&mut sink) };
        if wrap > 0 {
            w.set_linewrap(Some(wrap));
        }
        put!(w, fasta);
        w.flush().unwrap();
    } else {
        let mut w = if ctor == 1 {
            fastq::Writer::from_bufwriter(std::io::BufWriter::with_capacity(wcap.max(1), &mut sink))
        } else if wcap > 0 { fastq::Writer::with_capacity(wcap, &mut sink) } else { fastq::Writer::new(&mut sink) };
        put!(w, fastq);
        w.flush().unwrap();
    }
    sink.data
}

/// A sink that takes `room` bytes and then fails hard (not Interrupted, not a short write): "disk full".
struct FailSink {
    room: usize,
}
impl std::io::Write for FailSink {
    fn write(&mut self, buf: &[u8]) -> std::io::Result<usize> {
        if self.room == 0 {
            return Err(std::io::Error::new(std::io::ErrorKind::Other, "no space left on device (scripted)"));
        }
        let n = buf.len().min(self.room);
        self.room -= n;
        Ok(n)
    }
    fn flush(&mut self) -> std::io::Result<()> {
        Ok(())
    }
}

/// Another writer object W1 of this thread runs into a hard I/O error after `room` bytes. Nothing about W1 is
/// judged; what matters is that the NEXT writer (a fresh object on a healthy sink) is not affected.
fn write_fail_event(log: &mut Log, kind: &str, recs: &[Rec], wrap: usize, wcap: usize, room: usize) {
    log.call("write_fail", json!({"wrap": wrap, "wcap": wcap, "room": room}), || {
        let mut sink = FailSink { room };
        let mut errs = 0;
        if kind == "fasta" {
            let mut w = fasta::Writer::with_capacity(wcap.max(1), &mut sink);
            if wrap > 0 {
                w.set_linewrap(Some(wrap));
            }
            for r in recs {
                if w.write(s(&r.id), r.desc.as_deref().map(s), &r.seq).is_err() {
                    errs += 1;
                }
            }
            if w.flush().is_err() {
                errs += 1;
            }
        } else {
            let mut w = fastq::Writer::with_capacity(wcap.max(1), &mut sink);
            for r in recs {
                if w.write(s(&r.id), r.desc.as_deref().map(s), &r.seq, &r.qual).is_err() {
                    errs += 1;
                }
            }
            if w.flush().is_err() {
                errs += 1;
            }
        }
        json!({"errs": errs})
    });
}

fn write_event(log: &mut Log, kind: &str, recs: &[Rec], wrap: usize, via_record: bool, wcap: usize, sink: usize, ctor: usize) -> Vec<u8> {
    let intr = take_intr(log, false, true);
    let mut written: Vec<u8> = vec![];
    let args = json!({"wrap": wrap, "via_record": if via_record {1} else {0}, "wcap": wcap, "sink": sink, "intr": intr, "ctor": ctor});
    log.call("write", args, || {
        written = real_write(kind, recs, wrap, via_record, wcap, sink, intr, ctor);
        json!({"b": bytes(&written)})
    });
    written
}

fn display(kind: &str, recs: &[Rec]) -> Vec<u8> {
    let mut out = String::new();
    for r in recs {
        if kind == "fasta" {
            out.push_str(&fasta::Record::with_attrs(s(&r.id), r.desc.as_deref().map(s), &r.seq).to_string());
        } else {
            out.push_str(&fastq::Record::with_attrs(s(&r.id), r.desc.as_deref().map(s), &r.seq, &r.qual).to_string());
        }
    }
    out.into_bytes()
}

// ------------------------------------------------------------ generators (validity rules of DESIGN.md C11)
fn printable(rng: &mut Rng, n: usize, lo: u8, exclude: &[u8]) -> Vec<u8> {
    let mut v = Vec::with_capacity(n);
    while v.len() < n {
        let c = rng.range(lo as i64, 126) as u8;
        if !exclude.contains(&c) {
            v.push(c);
        }
    }
    v
}

fn gen_rec(rng: &mut Rng, kind: &str, maxseq: usize, wrapped: bool, log: &mut Log) -> Rec {
    let idlen = if rng.chance(1, 4) { 1 } else { rng.range(1, 12) as usize };
    let mut id = printable(rng, idlen, 33, &[]);
    if rng.chance(1, 6) {
        id[0] = *rng.pick(&[b'>', b'@', b'+']);
    }
    let desc = if rng.chance(2, 5) {
        None
    } else {
        let n = rng.range(1, 30) as usize;
        let mut d = printable(rng, n, 32, &[]);
        if rng.chance(1, 4) && n > 2 {
            d[n / 2] = b'\t';
        }
        if rng.chance(1, 5) {
            d[0] = b' ';
        }
        let last = n - 1;
        if d[last] == b' ' || d[last] == b'\t' {
            d[last] = b'x';
        }
        if d.iter().any(|&c| c == b' ' || c == b'\t') {
            log.oblige("desc_with_whitespace");
        }
        Some(d)
    };
    let len = match rng.below(10) {
        0 => 1,
        1 => 2,
        2..=6 => rng.range(1, 40) as usize,
        _ => rng.range(1, maxseq as i64) as usize,
    };
    let seq = if kind == "fasta" {
        match rng.below(3) {
            0 => rng.seq(len, b"ACGT"),
            1 => rng.seq(len, b"ACGTNacgtn-*"),
            _ => printable(rng, len, 33, &[b'>']),
        }
    } else {
        match rng.below(3) {
            0 => rng.seq(len, b"ACGT"),
            1 => rng.seq(len, b"ACGTN.acgtn"),
            _ => {
                if wrapped {
                    printable(rng, len, 33, &[b'+'])
                } else {
                    let mut v = printable(rng, len, 33, &[]);
                    if v[0] == b'+' {
                        v[0] = b'N';
                    }
                    v
                }
            }
        }
    };
    let mut qual = if kind == "fastq" { printable(rng, len, 33, &[]) } else { vec![] };
    if kind == "fastq" {
        match rng.below(5) {
            0 => {
                qual[0] = b'@';
                log.oblige("qual_lead_at");
            }
            1 => {
                qual[0] = b'+';
                log.oblige("qual_lead_plus");
            }
            _ => {}
        }
    }
    Rec { id, desc, seq, qual }
}

fn gen_sched(rng: &mut Rng, data: &[u8], which: u64, log: &mut Log) -> Vec<usize> {
    match which % 4 {
        0 => {
            log.oblige("sched_all1");
            vec![1]
        }
        1 => (0..rng.range(2, 6)).map(|_| rng.range(1, 40) as usize).collect(),
        2 => {
            // chunks ending exactly at line ends
            log.oblige("sched_line_end");
            let mut v = vec![];
            let mut n = 0usize;
            for &c in data {
                n += 1;
                if c == b'\n' {
                    v.push(n);
                    n = 0;
                }
            }
            if n > 0 || v.is_empty() {
                v.push(n.max(1));
            }
            v
        }
        _ => vec![],
    }
}

fn all_strings(alpha: &[u8], maxlen: usize) -> Vec<Vec<u8>> {
    let mut out = vec![vec![]];
    let mut cur: Vec<Vec<u8>> = vec![vec![]];
    for _ in 1..=maxlen {
        let mut nxt = vec![];
        for st in &cur {
            for &c in alpha {
                let mut t = st.clone();
                t.push(c);
                nxt.push(t);
            }
        }
        out.extend(nxt.iter().cloned());
        cur = nxt;
    }
    out
}

fn note_items(log: &mut Log, res: &Value) {
    // coverage counters over what was observed (no expectation involved)
    if let Some(items) = res.get("items").and_then(|x| x.as_array()) {
        let mut seen_err = false;
        for it in items {
            let is_err = it["k"] == "err";
            if seen_err && !is_err {
                log.oblige("record_after_error");
            }
            if is_err {
                seen_err = true;
                if it["e"] == "incomplete" {
                    log.oblige("err_incomplete");
                }
                if it["e"] == "missing_at" {
                    log.oblige("err_missing_at");
                }
                if it["e"] == "fmt" {
                    log.oblige("err_fasta_fmt");
                }
                if it["e"] == "utf8" {
                    log.oblige("err_utf8");
                }
            } else if it["chk"] == 0 {
                log.oblige("check_fails");
            }
        }
    }
}

fn raw_cfg(cls: &str) -> Value {
    json!({"cls": cls, "kind": "none", "recs": []})
}

pub fn drive(log: &mut Log) {
    TMPBASE.with(|t| *t.borrow_mut() = log.opts.out.clone());
    let seed = log.opts.seed;
    let thorough = log.opts.thorough();
    let mut case = 0u64;

    // ---------------- (a) every token string up to length L through the three parsers
    let l = if thorough { 5 } else { 4 };
    let toks = all_strings(&TOK, l);
    let batch = 48;
    for (bi, chunk) in toks.chunks(batch).enumerate() {
        case += 1;
        if !log.mine(case) {
            continue;
        }
        if !log.begin("tok", raw_cfg("tok")) {
            continue;
        }
        for (j, b) in chunk.iter().enumerate() {
            let n = bi * batch + j;
            for (pi, p) in ["fasta", "fastq", "either"].iter().enumerate() {
                let cap = CAPS[(n + pi) % CAPS.len()];
                let sched: Vec<usize> = match (n / 7 + pi) % 3 {
                    0 => vec![1],
                    1 => vec![2, 1, 3],
                    _ => vec![],
                };
                let how = if (n + pi) % 5 == 0 { "read" } else { "iter" };
                set_intr(n / 3 + pi);
                let r = parse_event(log, p, how, b, cap, &sched, &NOLAY);
                note_items(log, &r);
            }
            if n % 9 == 0 {
                set_intr(n / 9);
                sniff_event(log, ["kind", "seek", "get_kind"][(n / 9) % 3], b);
            }
            if n % 5 == 0 {
                let off = (n / 5) % (b.len() + 1);
                set_intr(n / 5 + 1);
                sniff_at_event(log, ["seek", "get_kind", "read_then_seek"][(n / 5) % 3], b, off, &NOLAY);
            }
        }
        log.oblige("tok_exhaustive");
    }

    // ---------------- (a2) every sequence of up to NL lines over a small set of line tokens
    // (multi-line FASTQ structure: blank lines, '+' lines, quality lines that look like headers)
    const LTOK: [&[u8]; 8] = [b"@A", b"A", b"+", b"", b"!!", b">A", b" A ", b"+A"];
    let nl_max = if thorough { 5 } else { 4 };
    let mut combos: Vec<Vec<usize>> = vec![vec![]];
    let mut cur: Vec<Vec<usize>> = vec![vec![]];
    for _ in 0..nl_max {
        let mut nxt = vec![];
        for c in &cur {
            for t in 0..LTOK.len() {
                let mut d = c.clone();
                d.push(t);
                nxt.push(d);
            }
        }
        combos.extend(nxt.iter().cloned());
        cur = nxt;
    }
    for (bi, chunk) in combos.chunks(64).enumerate() {
        case += 1;
        if !log.mine(case) {
            continue;
        }
        if !log.begin("linetok", raw_cfg("tok")) {
            continue;
        }
        for (j, c) in chunk.iter().enumerate() {
            let n = bi * 64 + j;
            let (crlf, final_nl) = match n % 3 {
                0 => (false, true),
                1 => (false, false),
                _ => (true, true),
            };
            let mut b: Vec<u8> = vec![];
            for (k, &t) in c.iter().enumerate() {
                b.extend_from_slice(LTOK[t]);
                if k + 1 < c.len() || final_nl {
                    b.extend_from_slice(nl(crlf));
                }
            }
            let cap = CAPS[n % CAPS.len()];
            let sched: Vec<usize> = if n % 2 == 0 { vec![] } else { vec![1, 2] };
            set_intr(n);
            let r = parse_event(log, "fastq", "iter", &b, cap, &sched, &NOLAY);
            note_items(log, &r);
            let p2 = if n % 2 == 0 { "fasta" } else { "either" };
            set_intr(n / 2);
            let r = parse_event(log, p2, "iter", &b, cap, &sched, &NOLAY);
            note_items(log, &r);
        }
        log.oblige("line_tokens_exhaustive");
    }

    // ---------------- (a') longer random token strings
    let nlong = log.opts.n(160, 1500);
    for _ in 0..nlong {
        case += 1;
        if !log.mine(case) {
            continue;
        }
        let mut rng = Rng::new(seed, 11, case);
        if !log.begin("toklong", raw_cfg("tok")) {
            continue;
        }
        for _ in 0..16 {
            let n = rng.range(l as i64 + 1, 14) as usize;
            // token soup with a bias towards line ends and record markers
            let b: Vec<u8> = (0..n)
                .map(|_| if rng.chance(1, 4) { b'\n' } else { *rng.pick(&TOK) })
                .collect();
            for p in ["fasta", "fastq", "either"] {
                let cap = *rng.pick(&CAPS);
                let which = rng.next();
                let sched = gen_sched(&mut rng, &b, which, log);
                set_intr(rng.below(5) as usize);
                let r = parse_event(log, p, "iter", &b, cap, &sched, &NOLAY);
                note_items(log, &r);
            }
        }
        log.oblige("tok_long");
    }

    // ---------------- (b)+(c) round trip, layouts, capacities, schedules, cuts
    let nrt = log.opts.n(96, 900);
    for i in 0..nrt {
        case += 1;
        if !log.mine(case) {
            continue;
        }
        let mut rng = Rng::new(seed, 12, case);
        let kind = if i % 2 == 0 { "fasta" } else { "fastq" };
        let small = i % 4 >= 2; // small streams: every cut offset
        let nrec = if i % 16 == 15 { 0 } else if small { rng.range(1, 3) as usize } else { rng.range(1, 6) as usize };
        let maxseq = if small { 9 } else if thorough && i % 7 == 0 { 300 } else { 120 };
        let wrapped_fq = kind == "fastq" && rng.chance(1, 2);
        let recs: Vec<Rec> = (0..nrec)
            .map(|_| {
                let mut r = gen_rec(&mut rng, kind, maxseq, kind == "fasta" || wrapped_fq, log);
                if small {
                    r.id.truncate(3);
                    if let Some(d) = &mut r.desc {
                        d.truncate(4);
                        let last = d.len() - 1;
                        if d[last] == b' ' || d[last] == b'\t' {
                            d[last] = b'y';
                        }
                    }
                }
                r
            })
            .collect();
        let cfg = json!({"cls": "rt", "kind": kind, "recs": recs.iter().map(rec_json).collect::<Vec<_>>()});
        if !log.begin("rt", cfg) {
            continue;
        }
        if nrec == 0 {
            log.oblige("empty_list");
        }
        log.oblige(if kind == "fasta" { "rt_fasta" } else { "rt_fastq" });
        let maxlen = recs.iter().map(|r| r.seq.len()).max().unwrap_or(1);
        // wraps: None, 1, 2, 7, 60, len, len+1  (fastq writer has no wrap)
        let wraps: Vec<usize> = vec![0, 1, 2, 7, 60, maxlen, maxlen + 1];
        // streams: (lay, wrap, crlf). lay = 1: bytes of the real writer (a `write` event precedes
        // them); lay = 2: layout built by the harness (re-wrapped / CRLF / multi-line FASTQ)
        let w0 = if kind == "fasta" { *rng.pick(&wraps) } else { 0 };
        // (lay, wrap, crlf, writer capacity (0 = Writer::new), sink: max bytes accepted per write() (0 = all))
        let cap0 = if rng.coin() { 0 } else if kind == "fasta" { 7 } else { 5 };
        let mut streams: Vec<(i64, usize, bool, usize, usize, usize)> = vec![(1, w0, false, cap0, 0, 0)];
        {
            // the same records through a small BufWriter into a sink that takes only part of a write() call
            let wcap = *rng.pick(&[1usize, 5, 16, 64]);
            let sink = *rng.pick(&[1usize, 7, 4096]);
            let wrap = if kind == "fasta" { *rng.pick(&wraps) } else { 0 };
            streams.push((1, wrap, false, wcap, sink, i as usize % 2));
            if i % 2 == 1 {
                log.oblige("writer_from_bufwriter");
            }
            let piece = |r: &Rec| if kind == "fasta" && wrap > 0 { r.seq.len().min(wrap) } else { r.seq.len() };
            if recs.iter().any(|r| piece(r) >= wcap && piece(r) > sink) {
                log.oblige("writer_sink_short_writes_beyond_capacity");
            }
        }
        if kind == "fasta" && !small {
            streams.push((1, *rng.pick(&wraps), false, 0, 0, 0));
        }
        {
            // writers on real files: to_file + flush, to_file_with_capacity dropped without flush
            let wrap = if kind == "fasta" { *rng.pick(&wraps) } else { 0 };
            let ctor = 2 + (i as usize / 2) % 2;
            streams.push((1, wrap, false, 16, 0, ctor));
            log.oblige(if ctor == 2 { "writer_to_file_flush" } else { "writer_to_file_dropped_unflushed" });
        }
        let nlay = if small { 2 } else { 3 };
        for v in 0..nlay {
            let wrap = if kind == "fastq" && !wrapped_fq { 0 } else { *rng.pick(&wraps) };
            streams.push((2, wrap, (v + i as usize) % 2 == 1, 0, 0, 0));
        }
        let parsers: [&str; 2] = [kind, "either"];
        for (sidx, &(layk, wrap, crlf, wcap, sink, ctor)) in streams.iter().enumerate() {
            let b: Vec<u8> = if layk == 1 {
                if sidx >= 1 && nrec > 0 {
                    // W1 fails hard somewhere inside its records; then the fresh writer below does its round trip
                    let total = wire(kind, &recs, wrap, false).len();
                    let fwrap = if kind == "fasta" { [wrap.max(1), 4, 3, 0][(i as usize + sidx) % 4] } else { 0 };
                    let room = rng.below(total as u64 + 1) as usize;
                    write_fail_event(log, kind, &recs, fwrap, [1usize, 8, 3][sidx % 3], room);
                    log.oblige("fresh_writer_after_another_writers_hard_error");
                    if kind == "fasta" && fwrap > 0 && wrap > 0 {
                        log.oblige("hard_error_in_wrapped_block_then_wrapped_write");
                    }
                }
                let via_record = rng.coin();
                set_intr(sidx + i as usize);
                let written = write_event(log, kind, &recs, wrap, via_record, wcap, sink, ctor);
                if i % 3 == 0 && sidx == 0 {
                    log.call("display", json!({}), || json!({"b": bytes(&display(kind, &recs))}));
                }
                written
            } else {
                wire(kind, &recs, wrap, crlf)
            };
            if crlf {
                log.oblige("crlf");
            }
            if wrap == 1 {
                log.oblige("wrap1");
            }
            if wrap == maxlen && nrec > 0 {
                log.oblige("wrap_eq_len");
            }
            if wrap == maxlen + 1 && nrec > 0 {
                log.oblige("wrap_len_plus1");
            }
            if kind == "fastq" && wrap > 0 {
                log.oblige("fastq_multiline");
            }
            // the whole stream under several capacities / schedules, directly and through the sniffer
            let nvar = if sidx == 0 { if small { 2 } else { 4 } } else { 2 };
            for v in 0..nvar {
                let cap = CAPS[(i as usize + v + sidx) % CAPS.len()];
                if cap == 1 {
                    log.oblige("cap1");
                }
                if cap == 8192 {
                    log.oblige("cap8192");
                }
                let sched = gen_sched(&mut rng, &b, i + (v + sidx) as u64, log);
                let p = parsers[(v + sidx) % 2];
                let how = if v == 3 { "read" } else { "iter" };
                let lay = Lay { lay: layk, wrap: wrap as i64, crlf: crlf as i64, cut: -1 };
                set_intr(v + sidx + i as usize);
                let r = parse_event(log, p, how, &b, cap, &sched, &lay);
                note_items(log, &r);
                if p == "either" {
                    log.oblige(if kind == "fasta" { "either_fasta" } else { "either_fastq" });
                }
            }
            // the same stream through the other ways to obtain records (copies, mixed APIs, adapters, files)
            if sidx == 0 {
                let rk = ["read0_then_iter", "read1_then_iter", "read2_then_iter", "read3_then_iter"];
                log.oblige(["reads0_then_records", "reads1_then_records", "reads2_then_records", "reads3_then_records"][i as usize % 4]);
                let hows = ["copies", rk[i as usize % 4], rk[(i as usize + 1 + i as usize / 4) % 4], "adapters", "from_file"];
                for (hi, how) in hows.iter().enumerate() {
                    let cap = CAPS[(i as usize + hi) % CAPS.len()];
                    let sched = gen_sched(&mut rng, &b, i + hi as u64, log);
                    let lay = Lay { lay: layk, wrap: wrap as i64, crlf: crlf as i64, cut: -1 };
                    set_intr(hi + i as usize);
                    let r = parse_event(log, kind, how, &b, cap, &sched, &lay);
                    note_items(log, &r);
                    log.oblige(match *how {
                        "copies" => "records_as_copies_clone_serde_clone_from",
                        "adapters" => "records_through_nth_step_by_count_last",
                        "from_file" => "reader_from_file",
                        _ => "read_then_records_on_one_reader",
                    });
                }
                let lay = Lay { lay: layk, wrap: wrap as i64, crlf: crlf as i64, cut: -1 };
                let r = parse_event(log, "either", "from_file", &b, 8192, &[], &lay);
                note_items(log, &r);
                log.oblige("either_from_file_and_get_kind_file");
            }
            // truncation of this stream
            if sidx > 0 && layk == 1 {
                continue;
            }
            let cuts: Vec<usize> = if small && b.len() <= 90 {
                log.oblige("cut_all_offsets");
                (0..b.len()).collect()
            } else {
                let mut c = vec![];
                for (k, &x) in b.iter().enumerate() {
                    if x == b'\n' && rng.chance(1, 3) {
                        c.push(k);
                        c.push(k + 1);
                        if k > 0 {
                            c.push(k - 1);
                        }
                    }
                }
                c.truncate(9);
                for _ in 0..4 {
                    if !b.is_empty() {
                        c.push(rng.below(b.len() as u64) as usize);
                    }
                }
                c
            };
            for (ci, &c) in cuts.iter().enumerate() {
                let cap = CAPS[(ci + sidx) % CAPS.len()];
                let sched: Vec<usize> = if ci % 2 == 0 { vec![] } else { vec![3, 1] };
                let lay = Lay { lay: layk, wrap: wrap as i64, crlf: crlf as i64, cut: c as i64 };
                let p = if ci % 3 == 2 { "either" } else { kind };
                set_intr(ci);
                let r = parse_event(log, p, "iter", &b[..c], cap, &sched, &lay);
                note_items(log, &r);
                log.oblige("cut");
            }
        }
        // the section of cfg.recs inside a container: the sniffer runs at a non-zero offset of a
        // seekable source and the selected reader must continue exactly there
        if nrec > 0 {
            let wrap = if kind == "fastq" && !wrapped_fq { 0 } else { *rng.pick(&wraps) };
            let crlf = rng.coin();
            let section = wire(kind, &recs, wrap, crlf);
            let other: &[u8] = if kind == "fasta" { b"@pre d\nACGT\n+\nIIII\n" } else { b">pre d\nACGT\nAC\n" };
            let hows = ["seek", "get_kind", "read_then_seek"];
            for v in 0..3usize {
                // v = 0: a block of the other format in front; 1: the same block twice; 2: junk in front
                let prefix: Vec<u8> = match v {
                    0 => other.to_vec(),
                    1 => section.clone(),
                    _ => {
                        let n = rng.range(1, 9) as usize;
                        rng.seq(n, b"x\n >@+")
                    }
                };
                let mut b = prefix.clone();
                b.extend_from_slice(&section);
                let lay = Lay { lay: 2, wrap: wrap as i64, crlf: crlf as i64, cut: -1 };
                let how = hows[(v + i as usize) % 3];
                set_intr(v + 1 + i as usize);
                let r = sniff_at_event(log, how, &b, prefix.len(), &lay);
                note_items(log, &r);
                log.oblige("sniff_at_nonzero_offset");
                match how {
                    "seek" => log.oblige("sniff_seek_at_offset"),
                    "get_kind" => log.oblige("sniff_get_kind_at_offset"),
                    _ => log.oblige("sniff_after_consuming"),
                }
                if v == 1 {
                    log.oblige("sniff_second_block_same_format");
                }
            }
        }
    }

    // ---------------- (b2) records longer than the default 8 KiB BufWriter, short-writing sinks
    let nbigrec = log.opts.n(6, 24);
    for i in 0..nbigrec {
        case += 1;
        if !log.mine(case) {
            continue;
        }
        let mut rng = Rng::new(seed, 15, case);
        let kind = if i % 2 == 0 { "fastq" } else { "fasta" };
        let mut recs = vec![gen_rec(&mut rng, kind, 20, false, log)];
        let len = 8192 + rng.range(0, 300) as usize;
        let mut big = gen_rec(&mut rng, kind, 20, false, log);
        big.seq = rng.seq(len, b"ACGTN");
        if kind == "fastq" {
            big.qual = printable(&mut rng, len, 33, &[]);
            big.qual[0] = if i % 4 == 0 { b'@' } else { b'+' };
        }
        if rng.coin() { recs.push(big) } else { recs.insert(0, big) }
        let cfg = json!({"cls": "rt", "kind": kind, "recs": recs.iter().map(rec_json).collect::<Vec<_>>()});
        if !log.begin("bigrec", cfg) {
            continue;
        }
        let sink = [1usize, 7, 4096][(i as usize / 2) % 3];
        let wrap = if kind == "fasta" && i % 4 == 1 { 9000 } else { 0 };
        set_intr(i as usize);
        let written = write_event(log, kind, &recs, wrap, i % 3 == 0, 0, sink, 0);
        log.oblige("writer_default_capacity_exceeded_short_sink");
        let lay = Lay { lay: 1, wrap: wrap as i64, crlf: 0, cut: -1 };
        set_intr(i as usize + 1);
        let r = parse_event(log, kind, "iter", &written, 8192, &[], &lay);
        note_items(log, &r);
        set_intr(i as usize + 2);
        let r = parse_event(log, "either", "iter", &written, 16, &[700, 3], &lay);
        note_items(log, &r);
    }

    // ---------------- (b3) histories across writer objects of one thread: W1 hits a hard error after `room` bytes,
    // room swept over every byte position of its output; then a fresh W2 on a healthy sink does a round trip
    let nwerr = log.opts.n(8, 32);
    for i in 0..nwerr {
        case += 1;
        if !log.mine(case) {
            continue;
        }
        let mut rng = Rng::new(seed, 16, case);
        let kind = if i % 4 == 3 { "fastq" } else { "fasta" };
        let recs: Vec<Rec> = (0..2)
            .map(|_| {
                let mut r = gen_rec(&mut rng, kind, 16, false, log);
                r.id.truncate(2);
                r.desc = None;
                r
            })
            .collect();
        let cfg = json!({"cls": "rt", "kind": kind, "recs": recs.iter().map(rec_json).collect::<Vec<_>>()});
        if !log.begin("werr", cfg) {
            continue;
        }
        let w1 = if kind == "fasta" { [4usize, 3, 1, 0][i as usize % 4] } else { 0 };
        let w2 = if kind == "fasta" { [3usize, 4, 0, 7][(i as usize / 2) % 4] } else { 0 };
        let total = wire(kind, &recs, w1, false).len();
        for room in 0..=total {
            write_fail_event(log, kind, &recs, w1, [8usize, 1, 3][room % 3], room);
            let written = write_event(log, kind, &recs, w2, room % 2 == 0, if room % 4 == 0 { 5 } else { 0 }, 0, 0);
            let lay = Lay { lay: 1, wrap: w2 as i64, crlf: 0, cut: -1 };
            let r = parse_event(log, if room % 5 == 4 { "either" } else { kind }, "iter", &written, 8192, &[], &lay);
            note_items(log, &r);
        }
        log.oblige("fresh_writer_after_another_writers_hard_error");
        log.oblige("hard_error_swept_over_every_byte_of_the_record");
    }

    // ---------------- (e) damaged valid streams (ASCII): error paths on realistic input
    let ndmg = log.opts.n(64, 600);
    for i in 0..ndmg {
        case += 1;
        if !log.mine(case) {
            continue;
        }
        let mut rng = Rng::new(seed, 13, case);
        if !log.begin("dmg", raw_cfg("dmg")) {
            continue;
        }
        let kind = if i % 2 == 0 { "fastq" } else { "fasta" };
        for _ in 0..6 {
            let nrec = rng.range(1, 4) as usize;
            let recs: Vec<Rec> = (0..nrec).map(|_| gen_rec(&mut rng, kind, 30, true, log)).collect();
            let wrap = *rng.pick(&[0usize, 0, 3, 10]);
            let mut b = wire(kind, &recs, wrap, rng.chance(1, 4));
            for _ in 0..rng.range(1, 3) {
                if b.is_empty() {
                    break;
                }
                let pos = rng.below(b.len() as u64) as usize;
                match rng.below(4) {
                    0 => {
                        b.remove(pos);
                    }
                    1 => b.insert(pos, *rng.pick(&TOK)),
                    2 => b[pos] = *rng.pick(&[b'\n', b'\r', 0u8, 11, 12, b'+', b'@', b'>', b' ', 127]),
                    _ => {
                        // drop a whole line
                        let st = b[..pos].iter().rposition(|&c| c == b'\n').map(|x| x + 1).unwrap_or(0);
                        let en = b[pos..].iter().position(|&c| c == b'\n').map(|x| pos + x + 1).unwrap_or(b.len());
                        b.drain(st..en);
                    }
                }
            }
            for p in [kind, "either"] {
                let cap = *rng.pick(&CAPS);
                let which = rng.next();
                let sched = gen_sched(&mut rng, &b, which, log);
                set_intr(rng.below(5) as usize);
                let r = parse_event(log, p, "iter", &b, cap, &sched, &NOLAY);
                note_items(log, &r);
            }
        }
        log.oblige("damaged");
    }

    // ---------------- (d00) error path: a first line that is no header, 35..100 bytes of valid UTF-8 with a
    // 2-, 3- and 4-byte character straddling every byte offset (error messages that quote the line must not
    // cut it inside a character)
    let (klo, khi) = if thorough { (20usize, 100usize) } else { (30, 64) };
    for (ci, ch) in ['\u{00E9}', '\u{20AC}', '\u{1F600}'].iter().enumerate() {
        case += 1;
        if !log.mine(case) {
            continue;
        }
        if !log.begin("errctx", raw_cfg("arb")) {
            continue;
        }
        for k in klo..=khi {
            let mut line = "x".repeat(k);
            line.push(*ch);
            line.push_str(&"y".repeat(6 + (k + ci) % 30));
            line.push_str("\n>id\nACGT\n");
            let b = line.as_bytes();
            for (pi, p) in ["fasta", "fastq", "either"].iter().enumerate() {
                let r = parse_event(log, p, if (k + pi) % 4 == 0 { "read" } else { "iter" }, b, CAPS[(k + pi) % CAPS.len()], &[], &NOLAY);
                note_items(log, &r);
            }
        }
        log.oblige("error_path_multibyte_at_every_offset");
    }

    // ---------------- (d0) multi-byte Unicode white space as the first white space of a header
    case += 1;
    if log.mine(case) && log.begin("uniws", raw_cfg("arb")) {
        for ws in ['\u{00A0}', '\u{0085}', '\u{2028}', '\u{3000}', '\u{1680}', '\u{2003}'] {
            for (k, tpl) in [">id{}desc x\nACGT\nAC\n>b\nA\n", "@id{}desc x\nACGT\n+\nIIII\n", ">{}id\nAC\n", "@i{}{}d\nA\n+\n!\n"]
                .iter()
                .enumerate()
            {
                let text = tpl.replace("{}", &ws.to_string());
                let b = text.as_bytes();
                for p in ["fasta", "fastq", "either"] {
                    let r = parse_event(log, p, if k % 2 == 0 { "iter" } else { "read" }, b, CAPS[k % CAPS.len()], &[], &NOLAY);
                    note_items(log, &r);
                }
            }
        }
        log.oblige("header_unicode_whitespace");
    }

    // ---------------- (d) arbitrary bytes: ASCII (exact) and non-ASCII / invalid UTF-8 (totality)
    let narb = log.opts.n(64, 600);
    for i in 0..narb {
        case += 1;
        if !log.mine(case) {
            continue;
        }
        let mut rng = Rng::new(seed, 14, case);
        if !log.begin("arb", raw_cfg("arb")) {
            continue;
        }
        for _ in 0..8 {
            let n = rng.range(0, 60) as usize;
            let b: Vec<u8> = match i % 4 {
                0 => (0..n).map(|_| rng.below(128) as u8).collect(),
                1 => (0..n)
                    .map(|_| if rng.chance(1, 2) { *rng.pick(&TOK) } else { rng.below(128) as u8 })
                    .collect(),
                2 => {
                    log.oblige("invalid_utf8");
                    (0..n.max(1))
                        .map(|_| if rng.chance(1, 3) { *rng.pick(&TOK) } else { rng.below(256) as u8 })
                        .chain(std::iter::once(0xC3))
                        .collect()
                }
                _ => {
                    // valid UTF-8 with multi-byte characters, incl. Unicode white space
                    log.oblige("nonascii_utf8");
                    let mut st = String::new();
                    for _ in 0..n.max(1) {
                        match rng.below(6) {
                            0 => st.push('\u{00A0}'),
                            1 => st.push('\u{2028}'),
                            2 => st.push('\u{00E9}'),
                            3 => st.push('\u{0085}'),
                            _ => st.push(*rng.pick(&TOK) as char),
                        }
                    }
                    st.push('\u{3000}');
                    st.into_bytes()
                }
            };
            if i % 4 < 2 {
                log.oblige("arbitrary_ascii");
            }
            for p in ["fasta", "fastq", "either"] {
                let cap = *rng.pick(&CAPS);
                let which = rng.next();
                let sched = gen_sched(&mut rng, &b, which, log);
                set_intr(rng.below(5) as usize);
                let r = parse_event(log, p, if rng.chance(1, 4) { "read" } else { "iter" }, &b, cap, &sched, &NOLAY);
                note_items(log, &r);
            }
            set_intr(rng.below(5) as usize);
            sniff_event(log, ["kind", "seek", "get_kind"][rng.below(3) as usize], &b);
            let off = rng.below(b.len() as u64 + 1) as usize;
            set_intr(rng.below(5) as usize);
            sniff_at_event(log, ["seek", "get_kind", "read_then_seek"][rng.below(3) as usize], &b, off, &NOLAY);
        }
    }
}

fn main() {
    bio_verif_harness::run(drive)
}
