//! C18 — Fenwick trees (prefix sum / prefix max). One run = one tree.
use bio::data_structures::bit_tree::{MaxBitTree, SumBitTree};
use bio_verif_harness::{Log, Rng};
use serde_json::json;

pub fn drive(log: &mut Log) {
    let seed = log.opts.seed;
    let n = log.opts.n(500, 5000);
    for case in 1..=n {
        if !log.mine(case) {
            continue;
        }
        let mut rng = Rng::new(seed, 20, case);
        let sum = case % 2 == 0;
        // every small length exhaustively often, plus powers of two +-1 and up to 100
        let len = match rng.below(5) {
            4 => {
                log.oblige("fenwick_len_beyond_65536");
                *rng.pick(&[65_535usize, 65_536, 65_537, (1 << 20) - 1, 1 << 20, (1 << 20) + 1, 3_000_000])
            }
            0 => rng.range(1, 9) as usize,
            1 => *rng.pick(&[15usize, 16, 17, 31, 32, 33, 63, 64, 65]),
            _ => rng.range(1, 100) as usize,
        };
        if !log.begin("fw", json!({"op": if sum {"sum"} else {"max"}, "n": len})) {
            continue;
        }
        let mut st: Option<SumBitTree<i64>> = None;
        let mut mt: Option<MaxBitTree<u32>> = None;
        log.call("new", json!({}), || {
            if sum {
                st = Some(SumBitTree::new(len));
            } else {
                mt = Some(MaxBitTree::new(len));
            }
            json!({})
        });
        let nops = rng.range(1, 12);
        for _ in 0..nops {
            let i = match rng.below(4) {
                0 => 0,
                1 => len - 1,
                _ => rng.below(len as u64) as usize,
            };
            let v: i64 = if sum { rng.range(-1000, 1000) } else { rng.range(0, 1000) };
            let r = log.call("set", json!({"i": i, "v": v}), || {
                if sum {
                    st.as_mut().unwrap().set(i, v);
                } else {
                    mt.as_mut().unwrap().set(i, v as u32);
                }
                json!({})
            });
            if r["st"] != "ok" {
                break;
            }
            // query every index when small, else a boundary sample
            let qs: Vec<usize> = if len <= 12 {
                (0..len).collect()
            } else {
                vec![0, i.saturating_sub(1), i, (i + 1).min(len - 1), len - 1, rng.below(len as u64) as usize]
            };
            for q in qs {
                log.call("get", json!({"i": q}), || {
                    let v: i64 = if sum {
                        st.as_ref().unwrap().get(q)
                    } else {
                        mt.as_ref().unwrap().get(q) as i64
                    };
                    json!({"v": v})
                });
            }
        }
        if len.is_power_of_two() {
            log.oblige("len_power_of_two");
        }
    }
}

fn main() {
    bio_verif_harness::run(drive)
}
