//! C18 — Fenwick trees of more than 2^32 slots (SumBitTree<u8>, zeroed and therefore lazily committed:
//! only the pages on the low-bit walks are ever touched). Positions are logged as [i >> 20, i & (2^20 - 1)]
//! (the trace holds 31-bit integers); the specification compares them lexicographically.
//! The walks of set/get pass through slots whose index is a multiple of 2^32, 2^33: an index helper that
//! computes in 32 bits stops advancing there. One run = one tree; the class is skipped when the allocator
//! refuses the reservation up front (try_reserve), so a small machine gives no verdict instead of a wrong one.
use bio::data_structures::bit_tree::SumBitTree;
use bio_verif_harness::{Log, Rng};
use serde_json::json;

fn pos(i: usize) -> serde_json::Value {
    json!([(i >> 20) as u64, (i & ((1 << 20) - 1)) as u64])
}

pub fn drive(log: &mut Log) {
    let seed = log.opts.seed;
    let nruns = log.opts.n(4, 16);
    for case in 1..=nruns {
        if !log.mine(case) {
            continue;
        }
        let mut rng = Rng::new(seed, 23, case);
        let b32: usize = 1 << 32;
        let len: usize = match case % 4 {
            0 => b32 + (1 << 20),
            1 => b32 + 1 + rng.below(1 << 22) as usize,
            2 => 2 * b32 + 2 + rng.below(1 << 12) as usize,
            _ => b32 + (1 << 12) + 1,
        };
        // can the address space be had at all? (nothing is touched, nothing is kept)
        {
            let mut probe: Vec<u8> = Vec::new();
            if probe.try_reserve_exact(len + 1).is_err() {
                continue;
            }
        }
        if !log.begin("fwb", json!({"op": "sum", "n": pos(len), "big": 1})) {
            continue;
        }
        log.oblige("fenwick_more_than_2p32_slots");
        let mut t: Option<SumBitTree<u8>> = None;
        let r = log.call("new", json!({}), || {
            t = Some(SumBitTree::new(len));
            json!({})
        });
        if r["st"] != "ok" {
            continue;
        }
        let mut t = t.unwrap();
        let mut touched: Vec<usize> = vec![];
        for step in 0..rng.range(3, 6) {
            let i = match (step + case as i64) % 5 {
                0 => b32 + rng.below(64) as usize,                       // just above 2^32
                1 => rng.below(64) as usize,                             // small: the walk up passes 2^32 (and 2^33)
                2 => b32 - 1 - rng.below(3) as usize,                    // slot 2^32 itself / just below
                3 => (len - 1) - rng.below(8.min(len as u64 - 1)) as usize,
                _ => rng.below(len as u64) as usize,
            };
            let v = rng.range(1, 9) as u8;
            let r = log.call("set", json!({"i": pos(i), "v": v}), || {
                t.set(i, v);
                json!({})
            });
            if r["st"] != "ok" {
                break;
            }
            touched.push(i);
            let mut qs: Vec<usize> = vec![0, b32 - 2, b32 - 1, b32, b32 + (1 << 12) - 1, len - 1, rng.below(len as u64) as usize];
            for &p in &touched {
                qs.push(p);
                if p > 0 {
                    qs.push(p - 1);
                }
            }
            if len > 2 * b32 {
                qs.push(2 * b32 - 1);
                qs.push(2 * b32);
            }
            qs.retain(|&q| q < len);
            qs.sort();
            qs.dedup();
            for q in qs {
                let r = log.call("get", json!({"i": pos(q)}), || json!({"v": t.get(q) as i64}));
                if r["st"] != "ok" {
                    break;
                }
            }
        }
    }
}

fn main() {
    // 2 * 2^32 + slack of address space, lazily committed
    bio_verif_harness::run_with_mem(drive, 16 << 30)
}
