//! C05 — FM-index backward search. One run = one index object (text, alphabet, Occ rate k,
//! suffix array raw or sampled with rate s, components borrowed / owned / Arc); events:
//! `new`, then `search` for many patterns on the same object. The result is recorded as
//! (kind, lower, upper, len, Interval::occ(sa)). No expected value is computed here.
use bio::alphabets::Alphabet;
use bio::data_structures::bwt::{bwt, less, Less, Occ, BWT};
use bio::data_structures::fmindex::{BackwardSearchResult, FMIndex, FMIndexable, Interval};
use bio::data_structures::suffix_array::{suffix_array, SampledSuffixArray, SuffixArray};
use bio_verif_harness::{bytes, usizes, Log, Rng};
use serde_json::json;
use std::sync::Arc;

/// `backward_search` takes any double-ended iterator over &u8: the same pattern is handed over through
/// iterators of different kinds (several of them report an inexact size hint). `it0` rotates the kind.
fn searches<I: FMIndexable>(log: &mut Log, fm: &I, resolve: &dyn Fn(&Interval) -> Vec<usize>, pats: &[Vec<u8>], it0: usize) {
    for (pi, p) in pats.iter().enumerate() {
        let it = (it0 + pi) % 7;
        log.call("search", json!({"p": bytes(p), "it": it}), || {
            let res = match it {
                0 => fm.backward_search(p.iter()),
                1 => fm.backward_search(p.iter().filter(|_| true)),
                2 => fm.backward_search(p.chunks(2).flatten()),
                3 => fm.backward_search(p.iter().rev().rev()),
                4 => fm.backward_search(p.iter().filter_map(|c| Some(c))),
                5 => fm.backward_search(p.iter().flat_map(|c| std::iter::once(c))),
                _ => fm.backward_search(p[..p.len() / 2].iter().chain(p[p.len() / 2..].iter())),
            };
            let (kind, iv, len) = match res {
                BackwardSearchResult::Complete(iv) => (2, iv, p.len()),
                BackwardSearchResult::Partial(iv, l) => (1, iv, l),
                BackwardSearchResult::Absent => (0, Interval { lower: 0, upper: 0 }, 0),
            };
            let pos = if kind == 0 { vec![] } else { resolve(&iv) };
            json!({"kind": kind, "lower": iv.lower, "upper": iv.upper, "len": len, "pos": usizes(&pos)})
        });
        if [1, 2, 4, 5].contains(&it) {
            log.oblige("pattern_iterator_inexact_size_hint");
        }
    }
}

fn run_one(log: &mut Log, tag: &str, text: &[u8], alpha: &[u8], k: u32, s: usize, own: u8, pats: &[Vec<u8>]) {
    if !log.begin(tag, json!({"text": bytes(text), "alpha": bytes(alpha), "k": k, "s": s, "own": own})) {
        return;
    }
    let alphabet = Alphabet::new(alpha);
    let mut parts: Option<(Vec<usize>, BWT, Less, Occ)> = None;
    let r = log.call("new", json!({}), || {
        let sa = suffix_array(text);
        let b = bwt(text, &sa);
        let l = less(&b, &alphabet);
        let o = Occ::new(&b, k, &alphabet);
        let n = b.len();
        let saj = if n <= 5000 { usizes(&sa) } else { usizes(&[]) };
        parts = Some((sa, b, l, o));
        json!({ "n": n, "sa": saj })
    });
    if r["st"] != "ok" {
        return;
    }
    let (sa, b, l, o) = parts.unwrap();
    // position resolver: raw suffix array or a sampled one (built on its own copies)
    let sampled = if s > 0 { Some(sa.sample(text, b.clone(), l.clone(), o.clone(), s)) } else { None };
    let resolve = |iv: &Interval| -> Vec<usize> {
        match &sampled {
            Some(ssa) => iv.occ(ssa),
            None => iv.occ(&sa),
        }
    };
    let it0 = text.len() + k as usize + s;
    let n = text.len();
    if n == 1 {
        log.oblige("text_len_1");
    }
    if n == 2 {
        log.oblige("text_len_2");
    }
    if k == 1 {
        log.oblige("occ_rate_1");
    }
    let third = pats.len() / 3;
    match own {
        0 => {
            // borrowed components; after a third of the searches the index is cloned, copy and original
            // take turns afterwards
            let fm = FMIndex::new(&b, &l, &o);
            searches(log, &fm, &resolve, &pats[..third], it0);
            let copy = fm.clone();
            for (i, ch) in pats[third..].chunks(2).enumerate() {
                if i % 2 == 0 {
                    searches(log, &copy, &resolve, ch, it0 + i);
                } else {
                    searches(log, &fm, &resolve, ch, it0 + i);
                }
            }
            log.oblige("clone_fmindex_both_continue");
            again(log, &fm, &resolve, pats, it0);
        }
        1 => {
            // owned components; after a third of the searches the index (and the sampled suffix array used
            // to resolve positions) goes through a Serialize/Deserialize round trip; after another third the
            // result is clone_from()-ed into an index that was built for ANOTHER text and has answered
            // already; copy and original take turns afterwards
            let fm = FMIndex::new(b.clone(), l.clone(), o.clone());
            searches(log, &fm, &resolve, &pats[..third], it0);
            let mut back: Option<(FMIndex<BWT, Less, Occ>, Option<SampledSuffixArray<BWT, Less, Occ>>)> = None;
            let r = log.call("serde", json!({}), || {
                let fm2: FMIndex<BWT, Less, Occ> = serde_json::from_str(&serde_json::to_string(&fm).unwrap()).unwrap();
                let ssa2 = sampled.as_ref().map(|x| {
                    serde_json::from_str::<SampledSuffixArray<BWT, Less, Occ>>(&serde_json::to_string(x).unwrap()).unwrap()
                });
                back = Some((fm2, ssa2));
                json!({})
            });
            if r["st"] == "ok" {
                let (fm2, ssa2) = back.unwrap();
                let resolve2 = |iv: &Interval| -> Vec<usize> {
                    match &ssa2 {
                        Some(ssa) => iv.occ(ssa),
                        None => iv.occ(&sa),
                    }
                };
                searches(log, &fm2, &resolve2, &pats[third..2 * third], it0 + third);
                log.oblige("serde_roundtrip_fmindex");
                if s > 1 {
                    log.oblige("serde_roundtrip_sampled_sa");
                }
                let mut used: Option<FMIndex<BWT, Less, Occ>> = None;
                let r = log.call("clone_from", json!({}), || {
                    let mut other_text: Vec<u8> = text[..n - 1].iter().rev().cloned().collect();
                    other_text.push(text[0]);
                    other_text.push(text[n - 1]);
                    let osa = suffix_array(&other_text);
                    let ob = bwt(&other_text, &osa);
                    let ol = less(&ob, &alphabet);
                    let mut oo = Occ::new(&ob, k + 1, &alphabet);
                    let _ = oo.get(&ob, 0, text[n - 1]);
                    let mut u = FMIndex::new(ob.clone(), ol, oo.clone());
                    let _ = u.backward_search(text[..1].iter()); // the other index has answered
                    oo.clone_from(&o); // the Occ of this text cloned into the used Occ of the other text
                    let src = FMIndex::new(b.clone(), l.clone(), oo);
                    u.clone_from(&src);
                    used = Some(u);
                    json!({})
                });
                if r["st"] == "ok" {
                    let copy = used.unwrap();
                    for (i, ch) in pats[2 * third..].chunks(2).enumerate() {
                        if i % 2 == 0 {
                            searches(log, &copy, &resolve2, ch, it0 + i);
                        } else {
                            searches(log, &fm2, &resolve2, ch, it0 + i);
                        }
                    }
                    log.oblige("clone_from_fmindex_other_text_both_continue");
                }
                again(log, &fm, &resolve, pats, it0);
            }
        }
        _ => {
            let fm = FMIndex::new(Arc::new(b.clone()), Arc::new(l.clone()), Arc::new(o.clone()));
            let fm2 = fm.clone(); // shared components
            let half = pats.len() / 2;
            searches(log, &fm, &resolve, &pats[..half], it0);
            searches(log, &fm2, &resolve, &pats[half..], it0 + half);
            again(log, &fm2, &resolve, pats, it0);
        }
    }
}

/// Order independence and the empty pattern: a few of the earlier patterns once more, in reverse
/// order, on an object that has answered everything else in between; then the empty pattern.
fn again<I: FMIndexable>(log: &mut Log, fm: &I, resolve: &dyn Fn(&Interval) -> Vec<usize>, pats: &[Vec<u8>], it0: usize) {
    let mut back: Vec<Vec<u8>> = pats.iter().take(4).cloned().collect();
    back.reverse();
    searches(log, fm, resolve, &back, it0 + 3);
    if !back.is_empty() {
        log.oblige("searches_repeated_in_reverse_order");
    }
    if it0 % 2 == 0 {
        searches(log, fm, resolve, &[vec![]], 0);
        log.oblige("empty_pattern");
    }
}

/// Closed-form family: the unary text A^(n-1)$ too long to log (n > 2^24). Its suffix array n-1, ..., 0
/// is built without running SA-IS; BWT, less, Occ, the sampled suffix array and the FM index are the
/// real code. Patterns A^m; the interval is resolved through the sampled array on selected rows only.
fn run_unary(log: &mut Log, tag: &str, n: usize, k: u32, s: usize, ms: &[usize]) {
    if !log.begin(tag, json!({"kind": "unary", "n": n, "a": b'A', "sent": b'$', "k": k, "s": s})) {
        return;
    }
    let mut text = vec![b'A'; n];
    text[n - 1] = b'$';
    let sa: Vec<usize> = (0..n).rev().collect();
    let alphabet = Alphabet::new(b"$A");
    let mut built = None;
    let r = log.call("new_unary", json!({}), || {
        let b = bwt(&text, &sa);
        let l = less(&b, &alphabet);
        let o = Occ::new(&b, k, &alphabet);
        let ssa = sa.sample(&text, b.clone(), l.clone(), o.clone(), s);
        let len = ssa.len();
        built = Some((b, l, o, ssa));
        json!({ "n": len })
    });
    if r["st"] != "ok" {
        return;
    }
    let (b, l, o, ssa) = built.unwrap();
    let fm = FMIndex::new(&b, &l, &o);
    for &m in ms {
        let p = vec![b'A'; m];
        log.call("search_unary", json!({ "m": m }), || {
            let (kind, iv, len) = match fm.backward_search(p.iter()) {
                BackwardSearchResult::Complete(iv) => (2, iv, p.len()),
                BackwardSearchResult::Partial(iv, l) => (1, iv, l),
                BackwardSearchResult::Absent => (0, Interval { lower: 0, upper: 0 }, 0),
            };
            // rows of the interval to resolve: both ends, around 2^24, a stride through the rest
            let mut rows: Vec<usize> = vec![];
            if kind != 0 && iv.upper <= n && iv.lower < iv.upper {
                let (lo, up) = (iv.lower, iv.upper);
                rows.extend(lo..(lo + 60).min(up));
                rows.extend(up.saturating_sub(60).max(lo)..up);
                let mid = 1usize << 24;
                rows.extend((mid.saturating_sub(40)).max(lo)..(mid + 40).min(up));
                rows.extend((lo..up).step_by(209_459));
            }
            let vals: Vec<usize> = rows.iter().map(|&r| Interval { lower: r, upper: r + 1 }.occ(&ssa)[0]).collect();
            json!({"kind": kind, "lower": iv.lower, "upper": iv.upper, "len": len,
                   "rows": usizes(&rows), "vals": usizes(&vals)})
        });
    }
}

fn all_strings_upto(alpha: &[u8], minlen: usize, maxlen: usize) -> Vec<Vec<u8>> {
    let mut out = vec![];
    let mut cur: Vec<Vec<u8>> = vec![vec![]];
    if minlen == 0 {
        out.push(vec![]);
    }
    for l in 1..=maxlen {
        let mut nxt = vec![];
        for s in &cur {
            for &c in alpha {
                let mut t = s.clone();
                t.push(c);
                nxt.push(t);
            }
        }
        if l >= minlen {
            out.extend(nxt.iter().cloned());
        }
        cur = nxt;
    }
    out
}

pub fn drive(log: &mut Log) {
    let seed = log.opts.seed;
    let th = log.opts.thorough();
    let mut case: u64 = 0;

    // (a) exhaustive as the MC run, on the real index: texts over {A,C,$} (<= 3 sentinels), all patterns
    let (tl, pl) = if th { (6, 6) } else { (5, 5) };
    let pats = all_strings_upto(b"AC", 1, pl);
    for body in all_strings_upto(b"AC$", 0, tl) {
        if body.iter().filter(|&&c| c == b'$').count() > 2 {
            continue;
        }
        case += 1;
        if !log.mine(case) {
            continue;
        }
        // sentinel '$', '#' or byte 0 (always the smallest symbol of the alphabet)
        let sent = [b'$', b'#', 0u8][(case % 3) as usize];
        let mut text: Vec<u8> = body.iter().map(|&c| if c == b'$' { sent } else { c }).collect();
        text.push(sent);
        let k = [1u32, 2, 3, 5][(case % 4) as usize];
        let s = [0usize, 2, 3, 4, 5, 6, 7, 8, 1][((case / 3) % 9) as usize];
        let own = ((case / 16) % 3) as u8;
        let alpha: Vec<u8> = match sent {
            b'$' => if case % 5 == 0 { b"$ACGT".to_vec() } else { b"AC".to_vec() }, // '$' implicit in Occ::new
            b'#' => if case % 5 == 0 { b"#ACGT".to_vec() } else { b"#AC".to_vec() },
            _ => vec![0, b'A', b'C'],
        };
        if sent != b'$' && s >= 2 {
            log.oblige("sentinel_not_dollar_sampled_sa");
        }
        run_one(log, "ex", &text, &alpha, k, s, own, &pats);
    }
    log.oblige("exhaustive_small");

    // (b) random texts: Occ rate x SA sampling x ownership
    let combos: Vec<(u32, usize, u8)> = {
        let mut v = vec![];
        for &k in &[1u32, 3, 65, 130] {
            for &s in &[0usize, 2, 5] {
                for own in 0..3u8 {
                    v.push((k, s, own));
                }
            }
        }
        v
    };
    let reps = log.opts.n(2, 8);
    for rep in 0..reps {
        for (ci, &(k, s, own)) in combos.iter().enumerate() {
            case += 1;
            if !log.mine(case) {
                continue;
            }
            let mut rng = Rng::new(seed, 11, case);
            let shape = (rep + ci as u64) % 6;
            let (body_alpha, absent): (Vec<u8>, u8) = match shape {
                0 => (b"ACGT".to_vec(), b'N'),
                1 => (b"AC".to_vec(), b'G'),
                2 => (b"ACDEFGHIKLMNPQRSTVWY".to_vec(), b'X'),
                3 => (b"A".to_vec(), b'C'),
                4 => (b"ACGTN".to_vec(), b'a'),
                _ => (vec![b'%', 200, 255], 100),
            };
            let sent = if shape == 5 { b'$' } else { [b'$', b'#', 0u8][((rep + ci as u64) % 3) as usize] };
            let n = if k > 64 { rng.range(140, 500) } else { rng.range(2, 400) } as usize;
            let mut text = match shape {
                1 => {
                    let per = rng.range(1, 6) as usize;
                    let unit = rng.seq(per, &body_alpha);
                    (0..n - 1).map(|i| unit[i % per]).collect::<Vec<u8>>()
                }
                _ => rng.seq(n - 1, &body_alpha),
            };
            let multi = (rep + ci as u64) % 3 == 0 && n > 4;
            if multi {
                for _ in 0..rng.range(1, 6) {
                    let p = rng.below((n - 1) as u64) as usize;
                    text[p] = sent;
                }
            }
            text.push(sent);
            let mut alpha = body_alpha.clone();
            alpha.push(absent);
            if sent != b'$' || rng.coin() {
                alpha.push(sent); // ('$' may stay implicit: Occ::new adds it)
            }
            // patterns
            let mut pats: Vec<Vec<u8>> = vec![];
            let sub = move |rng: &mut Rng, text: &[u8]| -> Vec<u8> {
                // a sentinel-free substring of the text (possibly empty if the text has none)
                for _ in 0..20 {
                    let a = rng.below(text.len() as u64) as usize;
                    let len = rng.range(1, 30) as usize;
                    let b = (a + len).min(text.len());
                    let w = &text[a..b];
                    if !w.is_empty() && !w.contains(&sent) {
                        return w.to_vec();
                    }
                }
                vec![]
            };
            for _ in 0..log.opts.n(5, 8) {
                let w = sub(&mut rng, &text);
                if w.is_empty() {
                    continue;
                }
                // occurs by construction
                pats.push(w.clone());
                log.oblige("complete_by_construction");
                // absent symbol in front: proper suffix occurs, whole pattern does not
                let mut q = vec![absent];
                q.extend_from_slice(&w);
                pats.push(q);
                log.oblige("partial_by_construction");
                // absent symbol at the end: nothing matches
                let mut q = w.clone();
                q.push(absent);
                pats.push(q);
                log.oblige("absent_by_construction");
                // one substitution somewhere
                let mut q = w.clone();
                let i = rng.below(q.len() as u64) as usize;
                q[i] = *rng.pick(&body_alpha);
                pats.push(q);
                // two substrings glued
                let mut q = w.clone();
                q.extend(sub(&mut rng, &text));
                pats.push(q);
            }
            // random patterns, single symbols, pattern longer than the text, the whole body
            for _ in 0..3 {
                let l = rng.range(1, 12) as usize;
                pats.push(rng.seq(l, &body_alpha));
            }
            for &c in &body_alpha {
                pats.push(vec![c]);
            }
            pats.push(vec![absent]);
            if n <= 120 {
                let l = n + rng.range(0, 6) as usize;
                pats.push(rng.seq(l, &body_alpha));
                log.oblige("longer_than_text");
                if !multi {
                    pats.push(text[..n - 1].to_vec()); // the whole sequence
                    let mut q = vec![*rng.pick(&body_alpha)];
                    q.extend_from_slice(&text[..n - 1]);
                    pats.push(q); // one symbol more than the text has
                    log.oblige("whole_text_pattern");
                }
            }
            run_one(log, "rnd", &text, &alpha, k, s, own, &pats);
            if multi {
                log.oblige("multi_sentinel");
            }
            if s > 0 {
                log.oblige("sampled_sa");
                if sent != b'$' {
                    log.oblige("sentinel_not_dollar_sampled_sa");
                }
            }
            if k > 64 && (n - 1) / (k as usize) >= 1 {
                log.oblige("occ_rate_gt64");
            }
            match own {
                0 => log.oblige("own_borrowed"),
                1 => log.oblige("own_owned"),
                _ => log.oblige("own_arc"),
            }
        }
    }

    // (c) small texts: every sentinel x every SA sampling rate 2..=8 (rows whose LF walk has to cross
    //     the row of suffix 0 -- the BWT symbol there is the sentinel -- before it meets a sampled row)
    for rep in 0..log.opts.n(2, 6) {
        for &sent in &[b'$', b'#', 0u8] {
            for s in 2..=8usize {
                case += 1;
                if !log.mine(case) {
                    continue;
                }
                let mut rng = Rng::new(seed, 14, case);
                let n = rng.range(2, 40) as usize;
                let body_alpha: &[u8] = if rep % 2 == 0 { b"ACGT" } else { b"AC" };
                let mut text = rng.seq(n - 1, body_alpha);
                if rep % 3 == 2 && n > 4 {
                    let p = rng.below((n - 1) as u64) as usize;
                    text[p] = sent;
                }
                text.push(sent);
                let mut alpha = body_alpha.to_vec();
                alpha.push(sent);
                let mut pats: Vec<Vec<u8>> = body_alpha.iter().map(|&c| vec![c]).collect();
                for _ in 0..6 {
                    let a = rng.below(n as u64) as usize;
                    let l = rng.range(1, 6) as usize;
                    let w: Vec<u8> = text[a..].iter().take(l).take_while(|&&c| c != sent).cloned().collect();
                    if !w.is_empty() {
                        pats.push(w);
                    }
                }
                let k = [1u32, 3, 2][(case % 3) as usize];
                run_one(log, "sm", &text, &alpha, k, s, (case % 3) as u8, &pats);
                if sent != b'$' {
                    log.oblige("sentinel_not_dollar_sampled_sa");
                }
            }
        }
    }

    // (d) unary / periodic texts of 1000..3000 symbols under Occ rates beyond 256: the BWT has runs of
    //     hundreds of equal symbols, so every stretch counted by Occ::get can hold 256 and more hits
    let shapes: Vec<(usize, usize, u32, usize)> = if th {
        vec![(0, 2000, 1024, 0), (1, 2400, 512, 0), (2, 1800, 600, 5), (3, 2000, 257, 2), (0, 3000, 1100, 3),
             (1, 1200, 300, 0), (4, 2600, 700, 0), (2, 1000, 514, 0), (3, 1500, 1024, 0), (0, 1300, 257, 4)]
    } else {
        vec![(0, 2000, 1024, 0), (1, 2400, 512, 0), (2, 1800, 600, 5), (3, 2000, 257, 2), (4, 1500, 1100, 0)]
    };
    for &(shape, n, k, sr) in &shapes {
        case += 1;
        if !log.mine(case) {
            continue;
        }
        let mut rng = Rng::new(seed, 21, case);
        let unit: &[u8] = match shape {
            0 => b"A",
            1 => b"ACGT",
            2 => b"AC",
            3 => b"AAC",
            _ => b"A",
        };
        let mut text: Vec<u8> = (0..n - 1).map(|i| unit[i % unit.len()]).collect();
        if shape == 4 {
            for i in (n - 1) / 2..n - 1 {
                text[i] = b'C'; // A^m C^m
            }
        }
        text.push(b'$');
        let mut pats: Vec<Vec<u8>> = vec![vec![b'A'], vec![b'C'], vec![b'G'], b"AA".to_vec(), b"CA".to_vec(), b"GTAC".to_vec(),
                                          b"AC".to_vec(), b"CC".to_vec()];
        for _ in 0..4 {
            let a = rng.below((n - 1) as u64) as usize;
            let l = rng.range(2, 40) as usize;
            pats.push(text[a..(a + l).min(n - 1)].to_vec());
        }
        let mut q = vec![b'T'];
        q.extend_from_slice(&text[5..15]);
        pats.push(q);
        pats.retain(|p| !p.is_empty());
        run_one(log, "long", &text, b"$ACGT", k, sr, (case % 3) as u8, &pats);
        log.oblige("bwt_run_ge_256_occ_rate_gt_256");
    }

    // (g) hidden process-wide state: consecutive indexes in one process over alphabets of equal size and
    //     equal largest symbol but different members, in both orders
    for g in 0..log.opts.n(4, 12) {
        case += 1;
        if !log.mine(case) {
            continue;
        }
        let mut rng = Rng::new(seed, 28, case);
        let mut group: Vec<&[u8]> = vec![b"$ACGT", b"$ACNT", b"$AGNT", b"$CGNT"];
        if g % 2 == 1 {
            group.reverse();
        }
        for al in group {
            let letters: Vec<u8> = al.iter().cloned().filter(|&c| c != b'$').collect();
            let n = rng.range(3, 90) as usize;
            let mut text = rng.seq(n - 1, &letters);
            text.push(b'$');
            let mut pats: Vec<Vec<u8>> = letters.iter().map(|&c| vec![c]).collect();
            for _ in 0..4 {
                let a = rng.below((n - 1) as u64) as usize;
                let l = rng.range(1, 6) as usize;
                pats.push(text[a..(a + l).min(n - 1)].to_vec());
            }
            pats.retain(|p| !p.is_empty());
            run_one(log, "glob", &text, al, [1u32, 3][(g % 2) as usize], [0usize, 2][(g % 2) as usize], (g % 3) as u8, &pats);
        }
        log.oblige("same_size_same_max_different_alphabets_in_one_process");
    }

    // (h) an FM index over a collection of more than 65,535 sentinel-terminated reads (32 bit ranks in
    //     suffix_array's width dispatch); the suffix array is too long to log, searches are judged
    {
        case += 1;
        if log.mine(case) {
            let mut rng = Rng::new(seed, 29, case);
            let reads = 65_600usize;
            let mut text: Vec<u8> = Vec::with_capacity(reads * 3);
            for _ in 0..reads {
                text.push(*rng.pick(b"ACGT"));
                text.push(*rng.pick(b"ACGT"));
                text.push(b'$');
            }
            let pats: Vec<Vec<u8>> = vec![b"AC".to_vec(), b"T".to_vec(), b"GAC".to_vec(), b"N".to_vec(), b"GG".to_vec(), b"NCA".to_vec()];
            run_one(log, "coll", &text, b"$ACGTN", 3, 0, 0, &pats);
            log.oblige("fm_over_more_than_65535_reads");
        }
    }

    // (e) closed-form unary family beyond 2^24 rows, positions through the sampled suffix array
    let un: &[(usize, u32, usize)] = if th {
        &[((1 << 24) + 1, 128, 32), ((1 << 24) + 1, 3, 64), ((1 << 24) + 1, 65, 2), ((1 << 24) + 2, 128, 3), ((1 << 24) + 1, 128, 3),
          ((1 << 24) + 1, 128, 5), ((1 << 24) + 1, 128, 7)]
    } else {
        &[((1 << 24) + 1, 128, 32), ((1 << 24) + 1, 128, 2)]
    };
    for &(n, k, s) in un {
        case += 1;
        if !log.mine(case) {
            continue;
        }
        run_unary(log, "unary", n, k, s, &[1, 2, 1000, n - 1, n]);
        log.oblige("text_longer_than_2p24_sampled_sa");
    }
    case += 1;
    if log.mine(case) {
        run_unary(log, "unary", 500, 3, 4, &[1, 7, 499, 500, 600]);
    }

    // (f) alphabets whose largest symbol is 33..=38 (around '$' = 36), with and without '$' in the
    //     alphabet: rank-transformed texts over 0..=max with sentinel 0 -- all symbols used (34..39
    //     distinct symbols) or only a few
    for mx in 33..=38u8 {
        for with_dollar in [false, true] {
            if with_dollar && mx < 36 {
                continue;
            }
            for variant in 0..log.opts.n(2, 4) {
                case += 1;
                if !log.mine(case) {
                    continue;
                }
                let mut rng = Rng::new(seed, 23, case);
                let mut alpha: Vec<u8> = (0..=mx).collect();
                if !with_dollar {
                    alpha.retain(|&c| c != b'$');
                }
                let letters: Vec<u8> = alpha.iter().cloned().filter(|&c| c != 0).collect();
                let extra = rng.range(0, 60) as usize;
                let mut text: Vec<u8> = if variant % 2 == 0 {
                    let mut t = letters.clone(); // every symbol occurs: max + 1 (or max) distinct symbols
                    t.extend(rng.seq(extra, &letters));
                    for i in (1..t.len()).rev() {
                        let j = rng.below(i as u64 + 1) as usize;
                        t.swap(i, j);
                    }
                    t
                } else {
                    let few = vec![letters[0], *rng.pick(&letters), *letters.last().unwrap()];
                    rng.seq(extra + 5, &few)
                };
                text.push(0);
                let n = text.len();
                let mut pats: Vec<Vec<u8>> = vec![vec![letters[0]], vec![*letters.last().unwrap()], vec![letters[letters.len() / 2]]];
                for _ in 0..6 {
                    let a = rng.below((n - 1) as u64) as usize;
                    let l = rng.range(1, 6) as usize;
                    pats.push(text[a..(a + l).min(n - 1)].to_vec());
                }
                let mut q = vec![*rng.pick(&letters)];
                q.extend_from_slice(&text[0..3.min(n - 1)]);
                pats.push(q);
                pats.retain(|p| !p.is_empty());
                run_one(log, "alsw", &text, &alpha, [1u32, 3][(case % 2) as usize], [0usize, 2, 3][(case % 3) as usize], (case % 3) as u8, &pats);
                log.oblige("alphabet_max_symbol_sweep_around_dollar");
            }
        }
    }
}

fn main() {
    bio_verif_harness::run(drive)
}
