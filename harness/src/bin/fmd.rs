//! C06 — FMD index. One run = one index over text = concat(s $ revcomp(s) $) with Occ rate k;
//! events: `build`, `smems` (one event per (pattern, l): the answers for every position i),
//! `all_smems`, `ext_path` (chains of backward_ext / forward_ext from init_interval() or
//! init_interval_with(c)). Intervals are resolved through the suffix array by Interval::occ.
//! No expected value is computed here.
use bio::alphabets::{dna, Alphabet};
use bio::data_structures::bwt::{bwt, less, Less, Occ, BWT};
use bio::data_structures::fmindex::{BackwardSearchResult, BiInterval, FMDIndex, FMIndex, FMIndexable, Interval};
use std::borrow::Borrow;
use bio::data_structures::suffix_array::suffix_array;
use bio_verif_harness::{bytes, usizes, Log, Rng};
use serde_json::{json, Value};

const DNA: &[u8] = b"ACGTNacgtn";

fn iv_json(bi: &BiInterval, sa: &Vec<usize>) -> Value {
    let f = bi.forward();
    let r = bi.revcomp();
    let (fp, rp) = if f.upper > f.lower { (f.occ(sa), r.occ(sa)) } else { (vec![], vec![]) };
    // the private fields (lower, lower_rev, size, match_size) as the Serialize impl shows them
    let ser = serde_json::to_value(bi).unwrap_or(json!({}));
    let g = |k: &str| ser.get(k).and_then(|x| x.as_u64()).map(|x| x as i64).unwrap_or(-1);
    json!({"f": [f.lower, f.upper], "r": [r.lower, r.upper], "fp": usizes(&fp), "rp": usizes(&rp),
           "ser": [g("lower"), g("lower_rev"), g("size"), g("match_size")]})
}

fn match_json(m: &(BiInterval, usize, usize), sa: &Vec<usize>) -> Value {
    let mut v = iv_json(&m.0, sa);
    v["a"] = json!(m.1);
    v["n"] = json!(m.2);
    v
}

struct Job {
    smems: Vec<(Vec<u8>, usize)>,
    all: Vec<(Vec<u8>, usize)>,
    paths: Vec<(i32, Vec<(u8, u8)>)>,
}

fn run_one(log: &mut Log, tag: &str, seqs: &[Vec<u8>], k: u32, job: &Job) {
    let sj: Vec<Value> = seqs.iter().map(|s| bytes(s)).collect();
    // less/Occ tables: 0 = dna::n_alphabet() (as in the docs), 1 = Alphabet "$ACGTN", 2 = "ACGTN" ('$' added
    // by Occ::new itself). The reduced alphabets are legal ("alphabet must match the alphabet of the
    // text") when sequences, patterns and extension symbols are upper case: backward_ext consults Occ
    // for the symbols of "$TGCNA" up to the one it extends by.
    let upper = |w: &[u8]| w.iter().all(|c| b"ACGTN".contains(c));
    let upper_only = seqs.iter().all(|x| upper(x))
        && job.smems.iter().all(|(p, _)| upper(p))
        && job.all.iter().all(|(p, _)| upper(p))
        && job.paths.iter().all(|(st, ops)| (*st < 0 || upper(&[*st as u8])) && ops.iter().all(|&(_, c)| upper(&[c])));
    let tab: u8 = if upper_only { ((seqs.iter().map(|x| x.len()).sum::<usize>() + k as usize + job.smems.len()) % 3) as u8 } else { 0 };
    if !log.begin(tag, json!({"seqs": sj, "k": k, "tab": tab})) {
        return;
    }
    if tab != 0 {
        log.oblige("tables_from_reduced_alphabet");
    }
    let mut parts: Option<(Vec<usize>, BWT, Less, Occ)> = None;
    let r = log.call("build", json!({}), || {
        let mut text: Vec<u8> = vec![];
        for s in seqs {
            text.extend_from_slice(s);
            text.push(b'$');
            text.extend(dna::revcomp(s));
            text.push(b'$');
        }
        let alphabet = match tab {
            0 => dna::n_alphabet(),
            1 => Alphabet::new(b"$ACGTN"),
            _ => Alphabet::new(b"ACGTN"),
        };
        let sa = suffix_array(&text);
        let b = bwt(&text, &sa);
        let l = less(&b, &alphabet);
        let o = Occ::new(&b, k, &alphabet);
        parts = Some((sa, b, l, o));
        json!({"text": bytes(&text)})
    });
    if r["st"] != "ok" {
        return;
    }
    let (sa, b, l, o) = parts.unwrap();
    // construction: FMDIndex::from (checks the alphabet) or the unchecked constructor on the same legal input
    let hsh = seqs.len() + seqs[0].len() + job.smems.len() + k as usize;
    let fmd = if hsh % 4 == 1 {
        log.oblige("fmd_unchecked_constructor");
        unsafe { FMDIndex::from_fmindex_unchecked(FMIndex::new(&b, &l, &o)) }
    } else {
        FMDIndex::from(FMIndex::new(&b, &l, &o))
    };
    // mid-history, after the smems events (hsh % 3): 0 = the owned index goes through a serde round trip and
    // the copy answers the rest; 1 = it is clone()d resp. clone_from()-ed into an index built for OTHER
    // sequences that has answered already, and copy AND original answer the rest; 2 = nothing
    events(log, &fmd, &sa, job, 1);
    match hsh % 3 {
        0 => {
            let mut back: Option<FMDIndex<BWT, Less, Occ>> = None;
            let r = log.call("serde", json!({}), || {
                let owned = FMDIndex::from(FMIndex::new(b.clone(), l.clone(), o.clone()));
                back = Some(serde_json::from_str(&serde_json::to_string(&owned).unwrap()).unwrap());
                json!({})
            });
            if r["st"] == "ok" {
                events(log, &back.unwrap(), &sa, job, 2);
                log.oblige("serde_roundtrip_fmdindex");
            }
        }
        1 => {
            let mut back: Option<(FMDIndex<BWT, Less, Occ>, FMDIndex<BWT, Less, Occ>)> = None;
            let from = hsh % 2 == 0;
            let r = log.call("clone", json!({"from": from as u8}), || {
                let owned = FMDIndex::from(FMIndex::new(b.clone(), l.clone(), o.clone()));
                let copy = if from {
                    let mut ot: Vec<u8> = b"GATTACA$TGTAATC$".to_vec();
                    ot.extend_from_slice(b"AC$GT$");
                    let osa = suffix_array(&ot);
                    let ob = bwt(&ot, &osa);
                    let al = dna::n_alphabet();
                    let ol = less(&ob, &al);
                    let oo = Occ::new(&ob, k + 2, &al);
                    let mut used = FMDIndex::from(FMIndex::new(ob, ol, oo));
                    let _ = used.smems(b"TTA", 1, 1);
                    used.clone_from(&owned);
                    used
                } else {
                    owned.clone()
                };
                back = Some((copy, owned));
                json!({})
            });
            if r["st"] == "ok" {
                let (copy, owned) = back.unwrap();
                events(log, &copy, &sa, job, 2);
                events(log, &owned, &sa, job, 2);
                log.oblige(if from { "clone_from_fmdindex_other_text_both_continue" } else { "clone_fmdindex_both_continue" });
            }
        }
        _ => events(log, &fmd, &sa, job, 2),
    }
}

/// part 1: smems; part 2: all_smems, extension chains, backward_search (the FMIndexable method of the
/// FMD index) with the pattern handed over through iterators of different kinds
fn events<B: Borrow<BWT>, L: Borrow<Less>, O: Borrow<Occ>>(
    log: &mut Log,
    fmd: &FMDIndex<B, L, O>,
    sa: &Vec<usize>,
    job: &Job,
    part: u8,
) {
    if part == 1 {
        for (p, lmin) in &job.smems {
            log.call("smems", json!({"p": bytes(p), "l": lmin}), || {
                let res: Vec<Value> = (0..p.len())
                    .map(|i| Value::Array(fmd.smems(p, i, *lmin).iter().map(|m| match_json(m, sa)).collect()))
                    .collect();
                json!({ "res": res })
            });
        }
        return;
    }
    for (p, lmin) in &job.all {
        log.call("all_smems", json!({"p": bytes(p), "l": lmin}), || {
            let ms: Vec<Value> = fmd.all_smems(p, *lmin).iter().map(|m| match_json(m, sa)).collect();
            json!({ "ms": ms })
        });
    }
    for (start, ops) in &job.paths {
        let oj: Vec<Value> = ops.iter().map(|&(d, c)| json!([d, c])).collect();
        log.call("ext_path", json!({"start": start, "ops": oj}), || {
            let mut ivs: Vec<Value> = vec![];
            let mut cur = if *start < 0 {
                fmd.init_interval()
            } else {
                let iv = fmd.init_interval_with(*start as u8);
                ivs.push(iv_json(&iv, sa));
                iv
            };
            // the chain goes on past empty intervals: extending the (empty) bi-interval of a string
            // that does not occur gives the empty bi-interval of the extended string
            for &(d, c) in ops {
                cur = if d == 0 { fmd.backward_ext(&cur, c) } else { fmd.forward_ext(&cur, c) };
                ivs.push(iv_json(&cur, sa));
            }
            json!({ "ivs": ivs })
        });
    }
    // minimum lengths at and beyond 2^32 (legal usize values): no match can be that long. The value does
    // not fit the checker's integers and is logged as a decimal string.
    const HUGE: [usize; 8] = [(1 << 32) - 1, 1 << 32, (1 << 32) + 1, (1 << 32) + 3, 1 << 33, 1 << 40, usize::MAX, isize::MAX as usize];
    for (pi, (p, _)) in job.smems.iter().take(2).enumerate() {
        let big = HUGE[(pi * 3 + p.len() + job.paths.len()) % 8];
        log.call("smems_big", json!({"p": bytes(p), "l_str": big.to_string()}), || {
            let res: Vec<Value> = (0..p.len())
                .map(|i| Value::Array(fmd.smems(p, i, big).iter().map(|m| match_json(m, sa)).collect()))
                .collect();
            let all: Vec<Value> = fmd.all_smems(p, big).iter().map(|m| match_json(m, sa)).collect();
            json!({ "res": res, "all": all })
        });
        log.oblige("min_len_ge_2p32");
    }
    for (pi, (p, _)) in job.smems.iter().take(3).enumerate() {
        let it = (pi + p.len()) % 4;
        log.call("bsearch", json!({"p": bytes(p), "it": it}), || {
            let res = match it {
                0 => fmd.backward_search(p.iter()),
                1 => fmd.backward_search(p.iter().filter(|_| true)),
                2 => fmd.backward_search(p.chunks(2).flatten()),
                _ => fmd.backward_search(p.iter().flat_map(|c| std::iter::once(c))),
            };
            let (kind, iv, len) = match res {
                BackwardSearchResult::Complete(iv) => (2, iv, p.len()),
                BackwardSearchResult::Partial(iv, l) => (1, iv, l),
                BackwardSearchResult::Absent => (0, Interval { lower: 0, upper: 0 }, 0),
            };
            let pos = if kind == 0 { vec![] } else { iv.occ(sa) };
            json!({"kind": kind, "lower": iv.lower, "upper": iv.upper, "len": len, "pos": usizes(&pos)})
        });
        log.oblige("fmd_backward_search_iterator_kinds");
    }
}

fn all_strings_upto(alpha: &[u8], minlen: usize, maxlen: usize) -> Vec<Vec<u8>> {
    let mut out = vec![];
    let mut cur: Vec<Vec<u8>> = vec![vec![]];
    for l in 1..=maxlen {
        let mut nxt = vec![];
        for s in &cur {
            for &c in alpha {
                let mut t = s.clone();
                t.push(c);
                nxt.push(t);
            }
        }
        if l >= minlen {
            out.extend(nxt.iter().cloned());
        }
        cur = nxt;
    }
    out
}

/// a path that spells `w` (if every step succeeds): start symbol at `mid`, then extend left/right
fn spell_path(rng: &mut Rng, w: &[u8], from_whole: bool) -> (i32, Vec<(u8, u8)>) {
    let mut ops = vec![];
    if w.is_empty() {
        return (-1, ops);
    }
    let mid = rng.below(w.len() as u64) as usize;
    let (mut lo, mut hi) = (mid, mid + 1);
    let start = if from_whole {
        ops.push((rng.below(2) as u8, w[mid]));
        -1
    } else {
        w[mid] as i32
    };
    while lo > 0 || hi < w.len() {
        let left = if lo == 0 {
            false
        } else if hi == w.len() {
            true
        } else {
            rng.coin()
        };
        if left {
            lo -= 1;
            ops.push((0, w[lo]));
        } else {
            ops.push((1, w[hi]));
            hi += 1;
        }
    }
    (start, ops)
}

pub fn drive(log: &mut Log) {
    let seed = log.opts.seed;
    let th = log.opts.thorough();
    let mut case: u64 = 0;

    // (a) exhaustive small sets: 1 sequence of length <= 4, 2 sequences of length <= 2, over {A,C,G,T}
    let pats3 = all_strings_upto(b"ACGT", 1, 3);
    let singles = all_strings_upto(b"ACGT", 1, if th { 5 } else { 4 });
    let shorts = all_strings_upto(b"ACGT", 1, 2);
    let mut sets: Vec<Vec<Vec<u8>>> = singles.iter().map(|s| vec![s.clone()]).collect();
    for a in &shorts {
        for b in &shorts {
            sets.push(vec![a.clone(), b.clone()]);
        }
    }
    for seqs in &sets {
        case += 1;
        if !log.mine(case) {
            continue;
        }
        let mut rng = Rng::new(seed, 12, case);
        let stride = if th { 3 } else { 7 };
        let mut pats: Vec<Vec<u8>> =
            pats3.iter().enumerate().filter(|(i, _)| (*i as u64 + case) % stride == 0).map(|(_, p)| p.clone()).collect();
        pats.push(seqs[0].clone());
        pats.push(dna::revcomp(&seqs[0]));
        let mut job = Job { smems: vec![], all: vec![], paths: vec![] };
        for (pi, p) in pats.iter().enumerate() {
            let l = 1 + (pi + case as usize) % 2;
            job.smems.push((p.clone(), l));
            if pi % 3 == 0 {
                job.all.push((p.clone(), 1 + (pi / 3) % 2));
            }
        }
        // every symbol in both directions from the whole interval and from each single symbol
        for &c in b"ACGT" {
            job.paths.push((-1, vec![(0, c), (rng.below(2) as u8, *rng.pick(b"ACGT")), (rng.below(2) as u8, *rng.pick(b"ACGT"))]));
            job.paths.push((c as i32, vec![(1, *rng.pick(b"ACGT")), (0, *rng.pick(b"ACGT"))]));
        }
        let w = seqs[seqs.len() - 1].clone();
        job.paths.push(spell_path(&mut rng, &w, case % 2 == 0));
        run_one(log, "ex", seqs, [1u32, 2, 3][(case % 3) as usize], &job);
    }
    log.oblige("exhaustive_small");

    // (b) random sets with N, lower case, repeats, palindromes; patterns from either strand with mutations
    let nsets = log.opts.n(60, 300);
    for v in 0..nsets {
        case += 1;
        if !log.mine(case) {
            continue;
        }
        let mut rng = Rng::new(seed, 13, case);
        let alpha: &[u8] = match v % 5 {
            0 => b"ACGT",
            1 => b"ACGTN",
            2 => b"ACGTNacgtn",
            3 => b"AT",
            _ => b"ACGTacgt",
        };
        let nseq = 1 + (v % 3) as usize;
        let mut seqs: Vec<Vec<u8>> = vec![];
        let mut budget = if v % 4 == 3 { 60usize } else { 36 };
        for si in 0..nseq {
            let len = (rng.range(1, (budget / (nseq - si)).max(1) as i64) as usize).max(1);
            budget -= len.min(budget);
            let s: Vec<u8> = match (v + si as u64) % 6 {
                0 => {
                    // palindromic (revcomp-equal): w revcomp(w)
                    let w = rng.seq((len / 2).max(1), alpha);
                    let mut s = w.clone();
                    s.extend(dna::revcomp(&w));
                    log.oblige("palindromic_sequence");
                    s
                }
                1 => {
                    let per = rng.range(1, 4) as usize;
                    let unit = rng.seq(per, alpha);
                    log.oblige("periodic_sequence");
                    (0..len).map(|i| unit[i % per]).collect()
                }
                2 if si > 0 => {
                    // a copy of (part of) an earlier sequence or of its reverse complement
                    let src = if rng.coin() { seqs[0].clone() } else { dna::revcomp(&seqs[0]) };
                    let a = rng.below(src.len() as u64) as usize;
                    log.oblige("repeated_between_sequences");
                    src[a..].to_vec()
                }
                _ => rng.seq(len, alpha),
            };
            seqs.push(s);
        }
        let mut text: Vec<u8> = vec![];
        for s in &seqs {
            text.extend_from_slice(s);
            text.push(b'$');
            text.extend(seqs_rev(s));
            text.push(b'$');
        }
        let k = [1u32, 3, 65, 2, 64][(v % 5) as usize];
        if k > 64 && text.len() > 66 {
            log.oblige("occ_rate_gt64_second_checkpoint");
        }
        if alpha.contains(&b'N') {
            log.oblige("with_n");
        }
        if alpha.contains(&b'a') {
            log.oblige("with_lower_case");
        }
        let mut job = Job { smems: vec![], all: vec![], paths: vec![] };
        let npat = log.opts.n(4, 6);
        for pi in 0..npat {
            // pattern: pieces of the text (either strand, sentinel-free) glued with mutations
            let mut p: Vec<u8> = vec![];
            let want = rng.range(1, 15) as usize;
            while p.len() < want {
                let a = rng.below(text.len() as u64) as usize;
                let len = rng.range(1, 8) as usize;
                for &c in text[a..].iter().take(len) {
                    if c != b'$' && p.len() < want {
                        p.push(c);
                    }
                }
                if rng.chance(1, 3) && p.len() < want {
                    p.push(*rng.pick(DNA));
                }
            }
            if rng.chance(1, 4) {
                let i = rng.below(p.len() as u64) as usize;
                p[i] = *rng.pick(alpha);
            }
            let ls: Vec<usize> = vec![1, 2, 3, p.len()];
            let l = ls[(pi as usize + v as usize) % 4];
            job.smems.push((p.clone(), l));
            if l != 1 && pi % 2 == 0 {
                job.smems.push((p.clone(), 1));
            }
            job.all.push((p.clone(), ls[(pi as usize + 1) % 4]));
            if l == p.len() {
                log.oblige("min_len_eq_pattern_len");
            }
        }
        // the sequences themselves and their reverse complements are patterns too
        if seqs[0].len() <= 15 {
            job.smems.push((seqs[0].clone(), 1));
            job.all.push((dna::revcomp(&seqs[0]), 2));
        }
        // extension chains: spell occurring strings in random direction orders, then one more symbol
        for _ in 0..log.opts.n(3, 5) {
            let a = rng.below(text.len() as u64) as usize;
            let w: Vec<u8> = text[a..].iter().take(rng.range(1, 10) as usize).take_while(|&&c| c != b'$').cloned().collect();
            if w.is_empty() {
                continue;
            }
            let whole = rng.coin();
            let (start, mut ops) = spell_path(&mut rng, &w, whole);
            ops.push((rng.below(2) as u8, *rng.pick(DNA)));
            ops.push((rng.below(2) as u8, *rng.pick(alpha)));
            job.paths.push((start, ops));
            log.oblige("ext_spelled_occurring");
        }
        // every symbol of the DNA alphabet from the whole interval, both directions, and as start symbol
        for (ci, &c) in DNA.iter().enumerate() {
            if (ci as u64 + v) % 2 == 0 {
                job.paths.push((-1, vec![((ci % 2) as u8, c), (rng.below(2) as u8, *rng.pick(alpha))]));
            } else {
                job.paths.push((c as i32, vec![(rng.below(2) as u8, *rng.pick(alpha)), (rng.below(2) as u8, *rng.pick(DNA))]));
            }
        }
        log.oblige("ext_every_symbol");
        // one occurring string spelled forwards only, backwards only, and from the middle: the same
        // bi-interval must come out whatever the order of the extensions
        {
            let a = rng.below(text.len() as u64) as usize;
            let w: Vec<u8> = text[a..].iter().take(6).take_while(|&&c| c != b'$').cloned().collect();
            if w.len() >= 2 {
                let fwd: Vec<(u8, u8)> = w[1..].iter().map(|&c| (1u8, c)).collect();
                let bwd: Vec<(u8, u8)> = w[..w.len() - 1].iter().rev().map(|&c| (0u8, c)).collect();
                job.paths.push((w[0] as i32, fwd));
                job.paths.push((w[w.len() - 1] as i32, bwd));
                let all_f: Vec<(u8, u8)> = w.iter().map(|&c| (1u8, c)).collect();
                let all_b: Vec<(u8, u8)> = w.iter().rev().map(|&c| (0u8, c)).collect();
                job.paths.push((-1, all_f));
                job.paths.push((-1, all_b));
                log.oblige("ext_same_string_both_orders");
            }
        }
        // walks that run into an empty interval early (a symbol absent from the whole index when there
        // is one) and go on in both directions
        {
            let absent: Vec<u8> = DNA.iter().cloned().filter(|c| !text.contains(c)).collect();
            let pool: &[u8] = if alpha.iter().all(|c| b"ACGTN".contains(c)) { b"ACGTN" } else { DNA };
            for w in 0..3u64 {
                let x = if !absent.is_empty() && absent.iter().any(|c| pool.contains(c)) {
                    *absent.iter().find(|c| pool.contains(c)).unwrap()
                } else {
                    *rng.pick(pool)
                };
                let mut ops: Vec<(u8, u8)> = vec![];
                for _ in 0..rng.range(0, 2) {
                    ops.push((rng.below(2) as u8, *rng.pick(alpha)));
                }
                ops.push(((w % 2) as u8, x));
                for _ in 0..rng.range(1, 4) {
                    ops.push((rng.below(2) as u8, *rng.pick(pool)));
                }
                if w == 2 {
                    job.paths.push((x as i32, ops));
                } else {
                    job.paths.push((-1, ops));
                }
                if !absent.is_empty() {
                    log.oblige("ext_past_empty_absent_symbol");
                }
            }
            log.oblige("ext_past_empty");
        }
        run_one(log, "rnd", &seqs, k, &job);
        if nseq > 1 {
            log.oblige("several_sequences");
        }
    }

    // (c) reads with homopolymers / tandem repeats / N runs longer than two Occ blocks: the BWT then has
    //     a run of one symbol covering a whole checkpoint-aligned block (Occ rates 65, 70, 128)
    for rep in 0..log.opts.n(2, 6) {
        for &k in &[65u32, 70, 128] {
            case += 1;
            if !log.mine(case) {
                continue;
            }
            let mut rng = Rng::new(seed, 18, case);
            let kind = (rep + k as u64) % 5;
            let unit: Vec<u8> = match kind {
                0 => b"A".to_vec(),
                1 => b"c".to_vec(),
                2 => b"N".to_vec(),
                3 => b"AC".to_vec(),
                _ => b"gat".to_vec(),
            };
            // every symbol of the unit occurs 2k + 6 .. times in a row of the sorted suffixes
            let copies = 2 * k as usize + 6 + rng.range(0, 20) as usize;
            let (ll, rl) = (rng.range(1, 8) as usize, rng.range(1, 6) as usize);
            let left = rng.seq(ll, b"ACGT");
            let right = rng.seq(rl, b"ACGT");
            let mut read = left.clone();
            for _ in 0..copies {
                read.extend_from_slice(&unit);
            }
            read.extend_from_slice(&right);
            let mut seqs = vec![read.clone()];
            if rep % 2 == 1 {
                let xl = rng.range(3, 12) as usize;
                seqs.push(rng.seq(xl, b"ACGTN"));
            }
            let run_of = |m: usize| -> Vec<u8> { (0..m * unit.len()).map(|i| unit[i % unit.len()]).collect() };
            let mut job = Job { smems: vec![], all: vec![], paths: vec![] };
            // patterns: pieces of the run with and without the flanks, on either strand
            for pi in 0..log.opts.n(4, 6) {
                let m = rng.range(3, 30) as usize / unit.len().max(1) + 1;
                let mut p: Vec<u8> = vec![];
                match pi % 4 {
                    0 => {
                        p.extend(run_of(m));
                        p.extend_from_slice(&right[..right.len().min(3)]);
                    }
                    1 => {
                        p.extend_from_slice(&left[left.len().saturating_sub(3)..]);
                        p.extend(run_of(m));
                    }
                    2 => p.extend(run_of(m)),
                    _ => {
                        p.extend(run_of(m));
                        p.push(*rng.pick(b"ACGTN"));
                        p.extend(run_of(2));
                    }
                }
                if pi % 2 == 1 {
                    p = dna::revcomp(&p);
                }
                let l = [1usize, 2, 3][pi as usize % 3];
                job.smems.push((p.clone(), l));
                if pi % 3 == 0 {
                    job.all.push((p, 2));
                }
            }
            // the demo's pattern shape: 40 run symbols followed by the right flank
            let mut p = run_of(40 / unit.len());
            p.extend_from_slice(&right[..right.len().min(3)]);
            job.smems.push((p, 1));
            // chains extending by the run symbol(s) 1..60 times, backwards and forwards
            for &dir in &[0u8, 1u8] {
                let steps = rng.range(20, 60) as usize;
                let ops: Vec<(u8, u8)> = (0..steps)
                    .map(|i| {
                        let j = if dir == 0 { unit.len() - 1 - (i % unit.len()) } else { i % unit.len() };
                        (dir, unit[j])
                    })
                    .collect();
                job.paths.push((-1, ops.clone()));
                let c0 = if dir == 0 { unit[unit.len() - 1] } else { unit[0] };
                job.paths.push((c0 as i32, ops[1..].to_vec()));
            }
            run_one(log, "run", &seqs, k, &job);
            log.oblige("bwt_run_longer_than_occ_rate");
        }
    }

    // (e) all_smems (and smems) with every minimum length l in 1..=6 on small sets: two overlapping
    //     sequences and patterns glued from their pieces (SMEMs that overlap near the pattern end)
    for v in 0..log.opts.n(40, 200) {
        case += 1;
        if !log.mine(case) {
            continue;
        }
        let mut rng = Rng::new(seed, 24, case);
        let alpha: &[u8] = if v % 3 == 0 { b"AC" } else { b"ACGT" };
        let (la, lb) = (rng.range(3, 6) as usize, rng.range(3, 6) as usize);
        let a = rng.seq(la, alpha);
        // second sequence: starts with a suffix of the first one
        let ov = rng.range(1, (la - 1) as i64) as usize;
        let mut b2 = a[la - ov..].to_vec();
        b2.extend(rng.seq(lb, alpha));
        let seqs = vec![a.clone(), b2.clone()];
        let mut job = Job { smems: vec![], all: vec![], paths: vec![] };
        let mut pats: Vec<Vec<u8>> = vec![];
        let mut glued = a.clone();
        glued.extend_from_slice(&b2[ov..]); // a and b2 overlap in `glued`
        pats.push(glued.clone());
        pats.push(dna::revcomp(&glued));
        let mut q = glued.clone();
        let qi = rng.below(q.len() as u64) as usize;
        q[qi] = *rng.pick(alpha);
        pats.push(q);
        for p in &pats {
            for l in 1..=6usize {
                job.all.push((p.clone(), l));
            }
            job.smems.push((p.clone(), 1 + (v as usize % 6)));
        }
        run_one(log, "alll", &seqs, [1u32, 2, 3][(v % 3) as usize], &job);
        log.oblige("all_smems_min_len_1_to_6");
    }

    // (f) periodic reads with exactly 255 / 256 / 257 repeats: bi-intervals of exactly 255..257 rows whose
    //     suffixes are all preceded by the same symbol
    for &copies in &[255usize, 256, 257] {
        for (ui, unit) in [&b"AC"[..], &b"A"[..]].iter().enumerate() {
            if !th && ui == 1 && copies != 256 {
                continue;
            }
            case += 1;
            if !log.mine(case) {
                continue;
            }
            let mut rng = Rng::new(seed, 25, case);
            let mut read: Vec<u8> = vec![];
            for _ in 0..copies {
                read.extend_from_slice(unit);
            }
            let run_of = |m: usize| -> Vec<u8> { (0..m * unit.len()).map(|i| unit[i % unit.len()]).collect() };
            let mut job = Job { smems: vec![], all: vec![], paths: vec![] };
            job.smems.push((run_of(3), 1));
            let mut p = run_of(4);
            p.push(b'G');
            job.smems.push((p.clone(), 2));
            job.all.push((p, 1));
            // chains: single symbols of the unit from the whole interval (intervals of `copies` rows), then on
            for &dir in &[0u8, 1u8] {
                let steps = rng.range(4, 12) as usize;
                let ops: Vec<(u8, u8)> = (0..steps)
                    .map(|i| {
                        let j = if dir == 0 { unit.len() - 1 - (i % unit.len()) } else { i % unit.len() };
                        (dir, unit[j])
                    })
                    .collect();
                job.paths.push((-1, ops.clone()));
                let c0 = if dir == 0 { unit[unit.len() - 1] } else { unit[0] };
                job.paths.push((c0 as i32, ops[1..].to_vec()));
            }
            run_one(log, "per", &vec![read], [3u32, 65][(copies % 2) as usize], &job);
            log.oblige("interval_of_255_256_257_rows_one_preceding_symbol");
        }
    }

    // (d) one index over ~126 short reads: 2 x reads sentinels + {$,A,C,G,T,N} = 256 / 258 / 260 symbol
    //     classes in suffix_array's width dispatch
    for &reads in &[125usize, 126, 127] {
        case += 1;
        if !log.mine(case) {
            continue;
        }
        let mut rng = Rng::new(seed, 19, case);
        let mut seqs: Vec<Vec<u8>> = vec![];
        for r in 0..reads {
            let mut s = vec![b"ACGTN"[r % 5]];
            for _ in 0..rng.range(0, 2) {
                s.push(*rng.pick(b"ACGTN"));
            }
            seqs.push(s);
        }
        let mut job = Job { smems: vec![], all: vec![], paths: vec![] };
        for pi in 0..5usize {
            let (i1, i2) = (rng.below(reads as u64) as usize, rng.below(reads as u64) as usize);
            let mut p = seqs[i1].clone();
            p.extend_from_slice(&seqs[i2]);
            job.smems.push((p.clone(), 1 + pi % 2));
            job.all.push((dna::revcomp(&p), 1));
        }
        job.paths.push((-1, vec![(0, b'A'), (1, b'C'), (0, b'N')]));
        run_one(log, "many", &seqs, 3, &job);
        log.oblige("fmd_over_120_sequences");
    }
}

// (plain helper: the text is only needed here to draw patterns from both strands)
fn seqs_rev(s: &[u8]) -> Vec<u8> {
    dna::revcomp(s)
}

fn main() {
    bio_verif_harness::run(drive)
}
