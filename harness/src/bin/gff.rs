//! C13 (GFF3 / GFF2 / GTF2). One run = one file in one dialect:
//!   write(recs) -> bytes          real gff::Writer on a list of records
//!   read(bytes, mode) -> items    real gff::Reader; every item Ok(fields) / Err
//! modes: "exact" (the bytes just written), "safe" (corrupted / hand-made inside the
//! modelled alphabet), "wild" (arbitrary bytes: totality only).
//! The harness converts Strings <-> byte arrays and u64 <-> decimal digits; nothing else.
#[path = "../tabcommon.rs"]
mod tabcommon;

use bio::io::gff::{GffType, Phase, Reader, Record, Writer};
use bio_verif_harness::{bytes, Log, Rng};
use serde_json::{json, Value};
use std::convert::TryInto;
use tabcommon::*;

#[derive(Clone)]
struct Rec {
    seqname: Vec<u8>,
    source: Vec<u8>,
    ftype: Vec<u8>,
    start: u64,
    end: u64,
    score: Vec<u8>,
    strand: Vec<u8>,
    phase: i64,
    attrs: Vec<(Vec<u8>, Vec<Vec<u8>>)>,
}

fn rec_json(r: &Rec) -> Value {
    json!({"seqname": bytes(&r.seqname), "source": bytes(&r.source), "ftype": bytes(&r.ftype),
        "start": dec(r.start), "end": dec(r.end), "score": bytes(&r.score), "strand": bytes(&r.strand),
        "phase": r.phase,
        "attrs": Value::Array(r.attrs.iter().map(|(k, vs)| json!([bytes(k), Value::Array(vs.iter().map(|v| bytes(v)).collect())])).collect())})
}

fn to_record(r: &Rec) -> Record {
    let mut x = Record::new();
    *x.seqname_mut() = s(&r.seqname);
    *x.source_mut() = s(&r.source);
    *x.feature_type_mut() = s(&r.ftype);
    *x.start_mut() = r.start;
    *x.end_mut() = r.end;
    *x.score_mut() = s(&r.score);
    *x.strand_mut() = s(&r.strand);
    *x.phase_mut() = if r.phase < 0 { Phase::from(None) } else { Phase::from(r.phase as u8) };
    for (k, vs) in &r.attrs {
        for v in vs {
            x.attributes_mut().insert(s(k), s(v));
        }
    }
    x
}

fn gtype(d: &str) -> GffType {
    match d {
        "gff3" => GffType::GFF3,
        "gff2" => GffType::GFF2,
        _ => GffType::GTF2,
    }
}

fn do_write(log: &mut Log, d: &str, recs: &[Rec], quoted: bool) -> Option<Vec<u8>> {
    let mut out: Option<Vec<u8>> = None;
    log.call("write", json!({"recs": Value::Array(recs.iter().map(rec_json).collect()), "q": quoted as u8}), || {
        let mut buf: Vec<u8> = vec![];
        let mut errs = 0;
        {
            let mut w = Writer::new(&mut buf, gtype(d));
            for r in recs {
                if w.write(&to_record(r)).is_err() {
                    errs += 1;
                }
            }
        }
        out = Some(buf.clone());
        json!({"bytes": bytes(&buf), "errs": errs})
    });
    out
}

fn items_of<E, I: Iterator<Item = Result<Record, E>>>(it: I) -> Vec<Value> {
    let mut items = vec![];
    for res in it {
        match res {
            Ok(rec) => {
                let ph: Option<u8> = rec.phase().clone().try_into().unwrap();
                let attrs: Vec<Value> = rec
                    .attributes()
                    .iter_all()
                    .map(|(k, vs)| json!([bytes(k.as_bytes()), Value::Array(vs.iter().map(|v| bytes(v.as_bytes())).collect())]))
                    .collect();
                items.push(json!({"ok": 1,
                    "seqname": bytes(rec.seqname().as_bytes()), "source": bytes(rec.source().as_bytes()),
                    "ftype": bytes(rec.feature_type().as_bytes()),
                    "start": dec(*rec.start()), "end": dec(*rec.end()),
                    "score": bytes(rec_score(&rec).as_bytes()), "strand": bytes(rec_strand(&rec).as_bytes()),
                    "phase": ph.map(|p| p as i64).unwrap_or(-1),
                    "attrs": Value::Array(attrs)}));
            }
            Err(_) => items.push(json!({"ok": 0})),
        }
    }
    items
}

fn read_items<R: std::io::Read>(rd: &mut Reader<R>) -> Vec<Value> {
    items_of(rd.records())
}

fn do_read(log: &mut Log, d: &str, data: &[u8], mode: &str, fault: &str) {
    log.call("read", mode_json(mode, data, fault), || {
        let mut rd = Reader::new(data, gtype(d));
        json!({"recs": Value::Array(read_items(&mut rd))})
    });
}

// the raw score / strand strings are only reachable through the `_mut` accessors
fn rec_score(r: &Record) -> String {
    let mut c = r.clone();
    c.score_mut().clone()
}
fn rec_strand(r: &Record) -> String {
    let mut c = r.clone();
    c.strand_mut().clone()
}

/// key / value atoms valid for the dialect: non-empty, none of the dialect's delimiter
/// bytes, no tab, no leading space, no quote at either end
fn atom(rng: &mut Rng, d: &str, maxlen: usize) -> Vec<u8> {
    let alpha: &[u8] = if d == "gff3" { b"abcXYZ0189 :_-.|'+/%#" } else { b"abcXYZ0189:_-.|'+/%#=," };
    let mut a = tok(rng, 1, maxlen, alpha);
    let n = a.len();
    if a[0] == b' ' || a[0] == b'\'' {
        a[0] = b'k';
    }
    if a[n - 1] == b'\'' {
        a[n - 1] = b'e';
    }
    a
}

fn rand_rec(rng: &mut Rng, d: &str, log: &mut Log) -> Rec {
    let score: Vec<u8> = match rng.below(6) {
        0 | 1 => b".".to_vec(),
        2 => rng.below(1000).to_string().into_bytes(),
        3 => b"0.5".to_vec(),
        4 => vec![],
        _ => tok(rng, 1, 5, FIELD),
    };
    let strand: Vec<u8> = match rng.below(6) {
        0 | 1 => b".".to_vec(),
        2 => b"+".to_vec(),
        3 => b"-".to_vec(),
        4 => b"?".to_vec(),
        _ => tok(rng, 0, 2, FIELD),
    };
    let phase = rng.range(-1, 2);
    if score == b"." {
        log.oblige("score_dot");
    }
    if strand == b"." {
        log.oblige("strand_dot");
    }
    if phase < 0 {
        log.oblige("phase_dot");
    } else {
        log.oblige("phase_num");
    }
    let nk = match rng.below(8) {
        0 => 0,
        1 | 2 => 1,
        _ => rng.range(2, 5) as usize,
    };
    let mut attrs: Vec<(Vec<u8>, Vec<Vec<u8>>)> = vec![];
    while attrs.len() < nk {
        let k = atom(rng, d, 5);
        if attrs.iter().any(|(k2, _)| *k2 == k) {
            continue;
        }
        let nv = match rng.below(4) {
            0 | 1 => 1,
            _ => rng.range(2, 4) as usize,
        };
        let mut vs: Vec<Vec<u8>> = (0..nv).map(|_| atom(rng, d, 6)).collect();
        if rng.chance(1, 6) {
            // values that look like URL escapes must come back verbatim (the writer does not encode)
            let esc: &[&[u8]] = &[b"%3B", b"%2C", b"%25", b"%41", b"a%3Db", b"%09x", b"100%", b"%zz", b"%2"];
            let i = rng.below(nv as u64) as usize;
            vs[i] = rng.pick(esc).to_vec();
            log.oblige("gff_percent_escape_like_value");
        }
        if nv > 1 {
            log.oblige("multi_valued");
            if vs.iter().any(|v| vs.iter().filter(|w| *w == v).count() > 1) {
                log.oblige("repeated_value");
            }
        }
        attrs.push((k, vs));
    }
    if rng.chance(1, 5) {
        // keys that differ in letter case only (and, for GFF3, by a trailing space): distinct keys
        let fam: &[&[u8]] = match rng.below(3) {
            0 => &[b"Note", b"note", b"NOTE"],
            1 => &[b"ID", b"Id", b"id"],
            _ => &[b"Parent", b"parent", b"pArent"],
        };
        let cnt = rng.range(2, 3) as usize;
        for k in fam.iter().take(cnt) {
            if !attrs.iter().any(|(k2, _)| k2 == k) {
                let nv = rng.range(1, 3) as usize;
                attrs.push((k.to_vec(), (0..nv).map(|_| atom(rng, d, 5)).collect()));
            }
        }
        if d == "gff3" && rng.coin() {
            let mut k = fam[0].to_vec();
            k.push(b' ');
            if !attrs.iter().any(|(k2, _)| *k2 == k) {
                attrs.push((k, vec![atom(rng, d, 4)]));
            }
        }
        log.oblige("gff_attribute_keys_differing_in_case_only");
    }
    if attrs.is_empty() {
        log.oblige("attrs_empty");
    }
    let (start, end) = (coord(rng), coord(rng));
    if start == u64::MAX || end == u64::MAX {
        log.oblige("u64_max");
    }
    Rec { seqname: first_tok(rng), source: tok(rng, 0, 5, FIELD), ftype: tok(rng, 0, 8, FIELD), start, end, score, strand, phase, attrs }
}

const DIALECTS: [&str; 3] = ["gff3", "gff2", "gtf2"];

pub fn drive(log: &mut Log) {
    let seed = log.opts.seed;
    let mut case: u64 = 0;

    // (a) round trips and faults on written files
    for _ in 0..log.opts.n(900, 8000) {
        case += 1;
        if !log.mine(case) {
            continue;
        }
        let mut rng = Rng::new(seed, 13, case);
        let d = DIALECTS[(case % 3) as usize];
        if !log.begin("rt", json!({"dialect": d})) {
            continue;
        }
        log.oblige(d);
        let n = rng.range(1, 5) as usize;
        let recs: Vec<Rec> = (0..n).map(|_| rand_rec(&mut rng, d, log)).collect();
        let data = match do_write(log, d, &recs, false) {
            Some(x) => x,
            None => continue,
        };
        do_read(log, d, &data, "exact", "none");
        for _ in 0..2 {
            let (kind, bad) = safe_fault(&mut rng, &data, &[3, 4], 7);
            log.oblige(kind);
            do_read(log, d, &bad, "safe", kind);
        }
        let bad = wild_fault(&mut rng, &data);
        log.oblige("wild");
        do_read(log, d, &bad, "wild", "wild");
    }

    // (a2) plain columns (seqname, source, type, score, strand) containing double quotes: quoted
    // and unquoted by the csv layer; only parsed == written is judged (attribute keys / values stay
    // without quotes: the reader strips quotes from them by design)
    for _ in 0..log.opts.n(150, 1500) {
        case += 1;
        if !log.mine(case) {
            continue;
        }
        let mut rng = Rng::new(seed, 131, case);
        let d = DIALECTS[(case % 3) as usize];
        if !log.begin("quote", json!({"dialect": d})) {
            continue;
        }
        let n = rng.range(1, 3) as usize;
        let mut recs: Vec<Rec> = vec![];
        for _ in 0..n {
            let mut r = rand_rec(&mut rng, d, log);
            match rng.below(5) {
                0 => r.seqname = qtok(&mut rng),
                1 => r.source = qtok(&mut rng),
                2 => r.ftype = qtok(&mut rng),
                3 => r.score = qtok(&mut rng),
                _ => r.strand = qtok(&mut rng),
            }
            if rng.coin() {
                r.ftype = qtok(&mut rng);
            }
            recs.push(r);
        }
        log.oblige("gff_quote_columns");
        let data = match do_write(log, d, &recs, true) {
            Some(x) => x,
            None => continue,
        };
        do_read(log, d, &data, "rt", "none");
    }

    // (a6) the Record API: records built through the `_mut` accessors assigned twice (last wins),
    // attribute insertion order, copied mid-history (clone, clone_from into a used record, Default);
    // every accessor is judged (score() / strand() / phase / attributes with value ORDER and
    // get() = first value); then written, and records() consumed through count / last / nth / skip
    for _ in 0..log.opts.n(120, 1200) {
        case += 1;
        if !log.mine(case) {
            continue;
        }
        let mut rng = Rng::new(seed, 135, case);
        let d = DIALECTS[(case % 3) as usize];
        if !log.begin("api", json!({"dialect": d})) {
            continue;
        }
        let n = rng.range(2, 4) as usize;
        let mut recs: Vec<Rec> = (0..n).map(|_| rand_rec(&mut rng, d, log)).collect();
        // numeric scores in several spellings: score() is the number
        for r in recs.iter_mut() {
            if rng.chance(1, 3) {
                r.score = rng.pick(&[&b"50"[..], b"007", b"+5", b"0", b"18446744073709551615", b"18446744073709551616", b"1e3", b"-1"]).to_vec();
                log.oblige("gff_score_accessor_numeric");
            }
        }
        let mut built: Vec<Record> = vec![];
        for r in recs.iter() {
            let how = *rng.pick(&["twice", "clone", "clone_from", "default"]);
            let junk = rand_rec(&mut rng, d, log);
            let mut x = Record::new();
            log.call("accessors", json!({"rec": rec_json(r), "how": how}), || {
                x = match how {
                    "twice" => {
                        let mut y = to_record(&junk);
                        *y.seqname_mut() = s(&r.seqname);
                        *y.source_mut() = s(&r.source);
                        *y.feature_type_mut() = s(&r.ftype);
                        *y.start_mut() = r.start;
                        *y.end_mut() = r.end;
                        *y.score_mut() = s(&r.score);
                        *y.strand_mut() = s(&r.strand);
                        *y.phase_mut() = if r.phase < 0 { Phase::from(None) } else { Phase::from(Some(r.phase as u8)) };
                        y.attributes_mut().clear();
                        for (k, vs) in &r.attrs {
                            for v in vs {
                                y.attributes_mut().insert(s(k), s(v));
                            }
                        }
                        y
                    }
                    "clone" => {
                        // copy after the first value of every key, finish the copy, spoil the original
                        let mut y = to_record(r);
                        y.attributes_mut().clear();
                        for (k, vs) in &r.attrs {
                            y.attributes_mut().insert(s(k), s(&vs[0]));
                        }
                        let mut c = y.clone();
                        y.attributes_mut().insert("spoiled".to_owned(), "x".to_owned());
                        *y.end_mut() = 1;
                        for (k, vs) in &r.attrs {
                            for v in vs[1..].iter() {
                                c.attributes_mut().insert(s(k), s(v));
                            }
                        }
                        c
                    }
                    "clone_from" => {
                        let mut used = to_record(&junk);
                        used.attributes_mut().insert("longer".to_owned(), "x".to_owned());
                        used.clone_from(&to_record(r));
                        used
                    }
                    _ => {
                        let mut y = Record::default();
                        *y.seqname_mut() = s(&r.seqname);
                        *y.source_mut() = s(&r.source);
                        *y.feature_type_mut() = s(&r.ftype);
                        *y.start_mut() = r.start;
                        *y.end_mut() = r.end;
                        *y.score_mut() = s(&r.score);
                        *y.strand_mut() = s(&r.strand);
                        *y.phase_mut() = if r.phase < 0 { Phase::from(None) } else { Phase::from(r.phase as u8) };
                        for (k, vs) in &r.attrs {
                            y.attributes_mut().insert_many(s(k), vs.iter().map(|v| s(v)).collect::<Vec<String>>());
                        }
                        y
                    }
                };
                let ph: Option<u8> = x.phase().clone().try_into().unwrap();
                let attrs: Vec<Value> = x
                    .attributes()
                    .iter_all()
                    .map(|(k, vs)| json!([bytes(k.as_bytes()), Value::Array(vs.iter().map(|v| bytes(v.as_bytes())).collect())]))
                    .collect();
                let first: Vec<Value> = x
                    .attributes()
                    .keys()
                    .map(|k| json!([bytes(k.as_bytes()), bytes(x.attributes().get(k).unwrap().as_bytes())]))
                    .collect();
                let score = match x.score() {
                    Some(v) => json!({"some": 1, "v": dec(v)}),
                    None => json!({"some": 0, "v": []}),
                };
                let strand = match x.strand() {
                    Some(bio_types::strand::Strand::Forward) => 1,
                    Some(bio_types::strand::Strand::Reverse) => -1,
                    Some(bio_types::strand::Strand::Unknown) => 2,
                    None => 0,
                };
                json!({"seqname": bytes(x.seqname().as_bytes()), "source": bytes(x.source().as_bytes()),
                    "ftype": bytes(x.feature_type().as_bytes()), "start": dec(*x.start()), "end": dec(*x.end()),
                    "rawscore": bytes(rec_score(&x).as_bytes()), "rawstrand": bytes(rec_strand(&x).as_bytes()),
                    "score": score, "strand": strand, "phase": ph.map(|p| p as i64).unwrap_or(-1),
                    "attrs": Value::Array(attrs), "first": Value::Array(first),
                    "eq_rebuilt": (x == to_record(r)) as u8})
            });
            built.push(x);
            log.oblige(match how {
                "twice" => "gff_setter_twice",
                "clone" => "gff_record_clone_mid_history",
                "clone_from" => "gff_record_clone_from",
                _ => "gff_record_default",
            });
        }
        let mut data: Vec<u8> = vec![];
        log.call("write", json!({"recs": Value::Array(recs.iter().map(rec_json).collect()), "q": 0}), || {
            let mut errs = 0;
            {
                let mut w = Writer::new(&mut data, gtype(d));
                for r in built.iter() {
                    if w.write(r).is_err() {
                        errs += 1;
                    }
                }
            }
            json!({"bytes": bytes(&data), "errs": errs})
        });
        do_read(log, d, &data, "exact", "none");
        for via in ["count", "last", "nth", "skip"].iter() {
            let j = rng.below(n as u64 + 1) as usize;
            let mut a = mode_json("via", &data, via);
            a["via"] = json!(via);
            a["j"] = json!(j);
            log.call("read_via", a, || {
                let mut rd = Reader::new(&data[..], gtype(d));
                let one = |x| {
                    let mut rd1 = vec![x];
                    items_of(rd1.drain(..))
                };
                match *via {
                    "count" => json!({"n": rd.records().count(), "recs": []}),
                    "last" => match rd.records().last() {
                        Some(x) => json!({"n": 1, "recs": one(x)}),
                        None => json!({"n": 0, "recs": []}),
                    },
                    "nth" => match rd.records().nth(j) {
                        Some(x) => json!({"n": 1, "recs": one(x)}),
                        None => json!({"n": 0, "recs": []}),
                    },
                    _ => {
                        let v = items_of(rd.records().skip(j));
                        json!({"n": v.len(), "recs": v})
                    }
                }
            });
        }
        log.oblige("records_iterator_adaptors");
    }

    // (a4) comment lines with arbitrary content (TAB, unbalanced double quotes, `##gff-version 3`,
    // `###`, very long), first / between / last, all dialects: "comment lines are skipped"
    for _ in 0..log.opts.n(150, 1500) {
        case += 1;
        if !log.mine(case) {
            continue;
        }
        let mut rng = Rng::new(seed, 133, case);
        let d = DIALECTS[(case % 3) as usize];
        if !log.begin("comment", json!({"dialect": d})) {
            continue;
        }
        let recs: Vec<Rec> = (0..rng.range(1, 4)).map(|_| rand_rec(&mut rng, d, log)).collect();
        let data = match do_write(log, d, &recs, false) {
            Some(x) => x,
            None => continue,
        };
        for _ in 0..2 {
            let (bytes_c, wh) = with_comments(&mut rng, &data);
            for w in wh {
                log.oblige(w);
            }
            log.oblige("gff_comment_arbitrary_content");
            let mut a = mode_json("rtc", &bytes_c, "comments");
            a["base"] = bytes(&data);
            log.call("read", a, || {
                let mut rd = Reader::new(&bytes_c[..], gtype(d));
                json!({"recs": Value::Array(read_items(&mut rd))})
            });
        }
    }

    // (a5) exhaustive "CSV-hostile" strings (length <= 3 over { " \\ ' # % ; = , space }): as plain
    // columns (all of them) and, where the dialect's quantifier allows them (no delimiter of the
    // dialect, no double quote, no leading space, no quote at either end), as attribute key / value
    {
        let hs = hostile_strings();
        for d in DIALECTS.iter() {
            let dl: &[u8] = if *d == "gff3" { b"=;,\"" } else { b" ;\"" };
            for (ci, chunk) in hs.chunks(20).enumerate() {
                case += 1;
                if !log.mine(case) {
                    continue;
                }
                if !log.opts.thorough() && (ci as u64 + seed) % 3 != 0 {
                    continue; // quick: a third of the chunks per dialect, rotating with the seed
                }
                let mut rng = Rng::new(seed, 134, case);
                if !log.begin("hostile", json!({"dialect": d})) {
                    continue;
                }
                let recs: Vec<Rec> = chunk
                    .iter()
                    .map(|h| {
                        let mut r = rand_rec(&mut rng, d, log);
                        r.source = h.clone();
                        r.ftype = rng.pick(&hs).clone();
                        r.seqname = if h[0] == b'#' { b"s".to_vec() } else { h.clone() };
                        let ok_atom = !h.iter().any(|b| dl.contains(b))
                            && h[0] != b' '
                            && h[0] != b'\''
                            && h[h.len() - 1] != b'\'';
                        r.attrs = if ok_atom {
                            log.oblige("gff_hostile_attribute_atom");
                            vec![(b"k".to_vec(), vec![h.clone(), b"v".to_vec()]), (h.clone(), vec![b"w".to_vec()])]
                        } else {
                            vec![]
                        };
                        // a key equal to "k" would merge the two entries
                        if r.attrs.len() == 2 && r.attrs[1].0 == b"k".to_vec() {
                            r.attrs.pop();
                        }
                        r
                    })
                    .collect();
                log.oblige("csv_hostile_exhaustive");
                let data = match do_write(log, d, &recs, true) {
                    Some(x) => x,
                    None => continue,
                };
                do_read(log, d, &data, "rt", "none");
            }
        }
    }

    // (a3) the file based API: the abstract state of a path is the file content. Write R1 with
    // Writer::to_file, read it with Reader::from_file, write a SHORTER R2 to the same path, read:
    // exactly R2; then an empty list, then a longer one.
    for _ in 0..log.opts.n(60, 600) {
        case += 1;
        if !log.mine(case) {
            continue;
        }
        let mut rng = Rng::new(seed, 132, case);
        let d = DIALECTS[(case % 3) as usize];
        if !log.begin("file", json!({"dialect": d})) {
            continue;
        }
        // (unique per driver process: the same shard may run in two builds side by side)
        let path = std::path::PathBuf::from(format!("{}.gff-{}-{}.tmp", log.opts.out, seed, case));
        let r1: Vec<Rec> = (0..rng.range(3, 5)).map(|_| rand_rec(&mut rng, d, log)).collect();
        let r2: Vec<Rec> = (0..rng.range(1, 2)).map(|_| rand_rec(&mut rng, d, log)).collect();
        let r4: Vec<Rec> = (0..rng.range(2, 4)).map(|_| rand_rec(&mut rng, d, log)).collect();
        for (step, recs) in [r1, r2, vec![], r4].iter().enumerate() {
            log.call("write_file", json!({"recs": Value::Array(recs.iter().map(rec_json).collect()), "q": 0, "pid": 1}), || {
                let mut errs = 0;
                match Writer::to_file(&path, gtype(d)) {
                    Ok(mut w) => {
                        for r in recs {
                            if w.write(&to_record(r)).is_err() {
                                errs += 1;
                            }
                        }
                    }
                    Err(_) => errs = -1,
                }
                let content = std::fs::read(&path).unwrap_or_default();
                json!({"bytes": bytes(&content), "errs": errs})
            });
            log.call("read_file", json!({"pid": 1}), || match Reader::from_file(&path, gtype(d)) {
                Ok(mut rd) => json!({"recs": Value::Array(read_items(&mut rd)), "open": 1}),
                Err(_) => json!({"recs": [], "open": 0}),
            });
            if step == 1 {
                log.oblige("gff_file_rewrite_shorter");
            }
        }
        let _ = std::fs::remove_file(&path);
    }

    // (b) the attribute column alone: every string over a small alphabet (delimiters of all
    // dialects, space, quote) up to length L, as the ninth column of an otherwise fixed line
    // (a column that STARTS with a double quote would be a quoted csv field: left out)
    let alpha: &[u8] = b"a'\"=;, ";
    let maxlen = if log.opts.thorough() { 6 } else { 5 };
    let mut cols: Vec<Vec<u8>> = vec![vec![]];
    let mut cur: Vec<Vec<u8>> = vec![vec![]];
    for _ in 0..maxlen {
        let mut nxt = vec![];
        for c in &cur {
            for &b in alpha {
                let mut t = c.clone();
                t.push(b);
                nxt.push(t);
            }
        }
        cols.extend(nxt.iter().filter(|c| c[0] != b'"').cloned());
        cur = nxt;
    }
    // quick tier: every column up to length maxlen - 1, and a third of the longest ones
    // (which third rotates with the seed); thorough: all of them
    if !log.opts.thorough() {
        let mut k: u64 = 0;
        cols.retain(|c| {
            k += 1;
            c.len() < maxlen || k % 3 == seed % 3
        });
    }
    for d in DIALECTS.iter() {
        for chunk in cols.chunks(60) {
            case += 1;
            if !log.mine(case) {
                continue;
            }
            if !log.begin("raw", json!({"dialect": d})) {
                continue;
            }
            let mut data = vec![];
            for c in chunk {
                data.extend_from_slice(b"s\tsrc\tt\t1\t2\t.\t+\t0\t");
                data.extend_from_slice(c);
                data.push(b'\n');
            }
            log.oblige("attr_exhaustive");
            do_read(log, d, &data, "safe", "raw");
        }
    }
}

fn main() {
    bio_verif_harness::run(drive)
}
