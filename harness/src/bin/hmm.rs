//! C14 — discrete-emission HMMs. One run = one model object (built once, used for
//! several observation sequences); events: `new`, then `viterbi`, `forward`,
//! `backward` for each observation sequence (same object).
//!
//! The model is drawn as integer numerators over a common denominator `den`
//! (that is what TLC computes with, exactly). The harness does only the
//! projection between the two number worlds, no expected value anywhere:
//!   in : numerator k  ->  f64  k as f64 / den as f64
//!   out: log-probability lp  ->  round(exp(lp) * den^(2T+1))  (+ flags nan / posinf / neginf)
use bio::stats::hmm::discrete_emission::Model as Plain;
use bio::stats::hmm::discrete_emission_opt_end::Model as OptEnd;
use bio::stats::hmm::{backward, forward, viterbi, Model};
use bio::stats::{LogProb, Prob};
use bio_verif_harness::{usizes, Log, Rng};
use ndarray::{Array1, Array2};
use serde_json::{json, Value};
use std::cell::RefCell;

#[derive(Clone)]
struct Mdl {
    s: usize,
    m: usize,
    den: u32,
    a: Vec<Vec<u32>>,
    b: Vec<Vec<u32>>,
    pi: Vec<u32>,
    eps: Vec<u32>, // = den everywhere when there is no end distribution
    kind: &'static str, // plain | optend_none | optend_some
    ctor: &'static str, // float | prob | log
    layout: &'static str, // c (row major) | f (column major) | sliced (row major, via a strided view)
}

#[derive(Clone, PartialEq)]
enum Obj {
    P(Plain),
    O(OptEnd),
}

/// same VALUES, different memory layout: the constructors keep the layout they are given
fn mat(rows: &[Vec<u32>], den: u32, layout: &str) -> Array2<f64> {
    let r = rows.len();
    let c = rows[0].len();
    match layout {
        // column major: transposed data in standard layout, axes reversed
        "f" => Array2::from_shape_fn((c, r), |(j, i)| rows[i][j] as f64 / den as f64).reversed_axes(),
        "sliced" => {
            let big = Array2::from_shape_fn((2 * r, c), |(i, j)| if i % 2 == 0 { rows[i / 2][j] as f64 / den as f64 } else { 0.25 });
            big.slice(ndarray::s![..;2, ..]).to_owned()
        }
        _ => Array2::from_shape_fn((r, c), |(i, j)| rows[i][j] as f64 / den as f64),
    }
}
fn vec1(v: &[u32], den: u32) -> Array1<f64> {
    Array1::from_shape_fn(v.len(), |i| v[i] as f64 / den as f64)
}

fn build(md: &Mdl) -> Obj {
    let a = mat(&md.a, md.den, md.layout);
    let b = mat(&md.b, md.den, md.layout);
    let pi = vec1(&md.pi, md.den);
    let e = vec1(&md.eps, md.den);
    match md.kind {
        "plain" => Obj::P(match md.ctor {
            "float" => Plain::with_float(&a, &b, &pi).unwrap(),
            "prob" => Plain::with_prob(&a.map(|x| Prob(*x)), &b.map(|x| Prob(*x)), &pi.map(|x| Prob(*x))).unwrap(),
            _ => Plain::new(
                a.map(|x| LogProb(x.ln())),
                b.map(|x| LogProb(x.ln())),
                pi.map(|x| LogProb(x.ln())),
            )
            .unwrap(),
        }),
        kind => {
            let some = kind == "optend_some";
            Obj::O(match md.ctor {
                "float" => OptEnd::with_float(&a, &b, &pi, if some { Some(&e) } else { None }).unwrap(),
                "prob" => {
                    let ep = e.map(|x| Prob(*x));
                    OptEnd::with_prob(
                        &a.map(|x| Prob(*x)),
                        &b.map(|x| Prob(*x)),
                        &pi.map(|x| Prob(*x)),
                        if some { Some(&ep) } else { None },
                    )
                    .unwrap()
                }
                _ => OptEnd::new(
                    RefCell::new(a.map(|x| LogProb(x.ln()))),
                    RefCell::new(b.map(|x| LogProb(x.ln()))),
                    RefCell::new(pi.map(|x| LogProb(x.ln()))),
                    RefCell::new(e.map(|x| LogProb(x.ln()))),
                    some,
                )
                .unwrap(),
            })
        }
    }
}

/// fixed-point projection of a log-probability (the only arithmetic of the harness)
fn proj(lp: f64, scale: f64) -> Value {
    if lp.is_nan() {
        json!({"p": -1, "nan": 1, "posinf": 0, "neginf": 0})
    } else if lp == f64::INFINITY {
        json!({"p": -1, "nan": 0, "posinf": 1, "neginf": 0})
    } else if lp == f64::NEG_INFINITY {
        json!({"p": 0, "nan": 0, "posinf": 0, "neginf": 1})
    } else {
        let v = (lp.exp() * scale).round();
        let p: i64 = if v > 2.0e9 { 2_000_000_000 } else { v as i64 };
        json!({"p": p, "nan": 0, "posinf": 0, "neginf": 0})
    }
}

fn rows_json(r: &[Vec<u32>]) -> Value {
    Value::Array(r.iter().map(|x| json!(x)).collect())
}

fn run_model(log: &mut Log, tag: &str, md: &Mdl, obs_list: &[Vec<usize>]) {
    log.oblige(&format!("ctor_{}_{}", md.kind, md.ctor));
    if md.layout == "f" && md.s >= 2 {
        log.oblige("layout_column_major");
    }
    let cfg = json!({"kind": md.kind, "ctor": md.ctor, "layout": md.layout, "s": md.s, "m": md.m, "den": md.den,
        "a": rows_json(&md.a), "b": rows_json(&md.b), "pi": md.pi, "eps": md.eps});
    if !log.begin(tag, cfg) {
        return;
    }
    let mut obj: Option<Obj> = None;
    log.call("new", json!({}), || {
        obj = Some(build(md));
        json!({"built": 1})
    });
    let mut obj = match obj {
        Some(o) => o,
        None => return,
    };
    // secondary observables of the model object
    log.call("meta", json!({}), || {
        let (ns, st, tr): (usize, Vec<usize>, Vec<Value>) = match &obj {
            Obj::P(h) => (h.num_states(), h.states().map(|x| *x).collect(), h.transitions().map(|t| json!([*t.src, *t.dst])).collect()),
            Obj::O(h) => (h.num_states(), h.states().map(|x| *x).collect(), h.transitions().map(|t| json!([*t.src, *t.dst])).collect()),
        };
        json!({"ns": ns, "states": usizes(&st), "trans": Value::Array(tr)})
    });
    // the same object is asked for the sequences in the given order, then (history independence)
    // for the first one again; half way through it is replaced by a clone of itself
    let mut order: Vec<&Vec<usize>> = obs_list.iter().collect();
    if md.s % 2 == 0 {
        order.reverse();
        log.oblige("obs_order_reversed");
    }
    if let Some(first) = order.first().cloned() {
        order.push(first);
        log.oblige("obs_repeated_at_end");
    }
    let half = order.len() / 2;
    for (oi, obs) in order.into_iter().enumerate() {
        if oi == half {
            log.call("clone", json!({}), || {
                let c = obj.clone();
                let eq = c == obj;
                obj = c;
                json!({"eq": eq as u8})
            });
            log.oblige("model_cloned_mid_use");
        }
        let t = obs.len();
        let scale = (md.den as f64).powi(2 * t as i32 + 1);
        let sc = scale as i64;
        // the last computed row of the forward / backward tables on their own scales:
        // forward row T-1 over den^(2T), backward row T-1 (= beta_1) over den^(2T-1)
        let row_json = |row: ndarray::ArrayView1<LogProb>, rscale: f64| -> Value {
            Value::Array(row.iter().map(|lp| proj(**lp, rscale)).collect())
        };
        log.call("viterbi", json!({"obs": usizes(obs)}), || {
            let (path, lp) = match &obj {
                Obj::P(h) => viterbi(h, obs),
                Obj::O(h) => viterbi(h, obs),
            };
            let mut v = proj(*lp, scale);
            v["path"] = usizes(&path.iter().map(|s| **s).collect::<Vec<usize>>());
            v["scale"] = json!(sc);
            v
        });
        log.call("forward", json!({"obs": usizes(obs)}), || {
            let (tab, lp) = match &obj {
                Obj::P(h) => forward(h, obs),
                Obj::O(h) => forward(h, obs),
            };
            let mut v = proj(*lp, scale);
            v["scale"] = json!(sc);
            v["shape"] = json!([tab.nrows(), tab.ncols()]);
            v["row"] = row_json(tab.row(t - 1), (md.den as f64).powi(2 * t as i32));
            v
        });
        log.call("backward", json!({"obs": usizes(obs)}), || {
            let (tab, lp) = match &obj {
                Obj::P(h) => backward(h, obs),
                Obj::O(h) => backward(h, obs),
            };
            let mut v = proj(*lp, scale);
            v["scale"] = json!(sc);
            v["shape"] = json!([tab.nrows(), tab.ncols()]);
            v["row"] = row_json(tab.row(t - 1), (md.den as f64).powi(2 * t as i32 - 1));
            v
        });
    }
}

/// largest T with den^(2T+1) <= 2^30
fn tmax(den: u32) -> usize {
    match den {
        2 => 14,
        3 => 8,
        4 => 7,
        5 => 5,
        _ => 4,
    }
}

/// one row of numerators; style: 0 stochastic, 1 sub-stochastic, 2 sparse (1-2 cells),
/// 3 uniform (ties), 4 point mass, 5 all zero
fn row(rng: &mut Rng, n: usize, den: u32, style: u64) -> Vec<u32> {
    let mut r = vec![0u32; n];
    match style {
        0 | 1 => {
            let units = if style == 0 { den } else { rng.below(den as u64 + 1) as u32 };
            for _ in 0..units {
                r[rng.below(n as u64) as usize] += 1;
            }
        }
        2 => {
            let i = rng.below(n as u64) as usize;
            let j = rng.below(n as u64) as usize;
            let k = rng.below(den as u64 + 1) as u32;
            r[i] += k;
            r[j] += den - k;
        }
        3 => {
            let k = den / n as u32;
            if k == 0 {
                return row(rng, n, den, 0);
            }
            for x in r.iter_mut() {
                *x = k;
            }
        }
        4 => r[rng.below(n as u64) as usize] = den,
        _ => {}
    }
    r
}

fn rand_model(rng: &mut Rng, s: usize, m: usize, den: u32, styles: &[u64], endmode: u64) -> Mdl {
    let st = |rng: &mut Rng| *rng.pick(styles);
    let a = (0..s).map(|_| { let y = st(rng); row(rng, s, den, y) }).collect();
    let b = (0..s).map(|_| { let y = st(rng); row(rng, m, den, y) }).collect();
    let y = st(rng);
    let pi = row(rng, s, den, y);
    let kind = match endmode {
        0 => "plain",
        1 => "optend_none",
        _ => "optend_some",
    };
    let eps: Vec<u32> = if kind == "optend_some" {
        match rng.below(4) {
            0 => (0..s).map(|_| rng.below(den as u64 + 1) as u32).collect(),
            1 => (0..s).map(|_| if rng.coin() { 0 } else { 1 + rng.below(den as u64) as u32 }).collect(),
            2 => {
                // strongly skewed: one state may end with certainty, the others hardly
                let mut e = vec![if den > 2 { 1 } else { rng.below(2) as u32 }; s];
                e[rng.below(s as u64) as usize] = den;
                e
            }
            _ => vec![1 + rng.below(den as u64) as u32; s],
        }
    } else {
        vec![den; s]
    };
    let ctor = *rng.pick(&["float", "float", "prob", "log"]);
    let layout = *rng.pick(&["c", "c", "f", "f", "sliced"]);
    Mdl { s, m, den, a, b, pi, eps, kind, ctor, layout }
}

fn rand_obs(rng: &mut Rng, t: usize, m: usize) -> Vec<usize> {
    (0..t).map(|_| rng.below(m as u64) as usize).collect()
}

fn pow_le(s: usize, t: usize, cap: u64) -> bool {
    let mut x: u64 = 1;
    for _ in 0..t {
        x *= s as u64;
        if x > cap {
            return false;
        }
    }
    true
}

pub fn drive(log: &mut Log) {
    let seed = log.opts.seed;
    let mut case: u64 = 0;
    let dens: [u32; 5] = [2, 3, 4, 5, 10];

    // (0) spec -> impl: the model family the MC run explores (S = 2, M = 2, Den = 2: every
    // sub-stochastic transition matrix, reduced emission / initial / end families), every
    // observation sequence of length 1..3, replayed into the real code. Quick tier: one
    // eighth of the family (selected by the seed), thorough: all of it.
    {
        let rows2: Vec<Vec<u32>> = vec![vec![0, 0], vec![0, 1], vec![0, 2], vec![1, 0], vec![1, 1], vec![2, 0]];
        let erows: Vec<Vec<u32>> = vec![vec![1, 1], vec![2, 0], vec![0, 1]];
        let irows: Vec<Vec<u32>> = vec![vec![1, 1], vec![0, 2], vec![1, 0]];
        let ends: Vec<Option<Vec<u32>>> = vec![None, Some(vec![1, 2])];
        let mut all_obs: Vec<Vec<usize>> = vec![];
        for t in 1..=3usize {
            for code in 0..(1usize << t) {
                all_obs.push((0..t).map(|i| (code >> i) & 1).collect());
            }
        }
        let mut k: u64 = 0;
        for a0 in &rows2 {
            for a1 in &rows2 {
                for b0 in &erows {
                    for b1 in &erows {
                        for pi in &irows {
                            for e in &ends {
                                k += 1;
                                case += 1;
                                if !log.opts.thorough() && k % 8 != seed % 8 {
                                    continue;
                                }
                                if !log.mine(case) {
                                    continue;
                                }
                                let md = Mdl {
                                    s: 2,
                                    m: 2,
                                    den: 2,
                                    a: vec![a0.clone(), a1.clone()],
                                    b: vec![b0.clone(), b1.clone()],
                                    pi: pi.clone(),
                                    eps: e.clone().unwrap_or(vec![2, 2]),
                                    kind: if e.is_some() { "optend_some" } else if k % 2 == 0 { "plain" } else { "optend_none" },
                                    ctor: ["float", "prob", "log"][(k % 3) as usize],
                                    layout: if k % 4 < 2 { "f" } else { "c" },
                                };
                                log.oblige("mc_family");
                                run_model(log, "ex", &md, &all_obs);
                            }
                        }
                    }
                }
            }
        }
    }

    // (a) general random models, all kinds, all constructors
    for _ in 0..log.opts.n(700, 6000) {
        case += 1;
        if !log.mine(case) {
            continue;
        }
        let mut rng = Rng::new(seed, 14, case);
        let s = rng.range(1, 4) as usize;
        let m = rng.range(1, 3) as usize;
        let den = *rng.pick(&dens);
        let styles: &[u64] = match rng.below(3) {
            0 => &[0],
            1 => &[0, 1, 2],
            _ => &[0, 1, 2, 3, 4],
        };
        let em = rng.below(4);
        let md = rand_model(&mut rng, s, m, den, styles, em);
        let tm = std::cmp::min(tmax(den), 4);
        let mut obs = vec![rand_obs(&mut rng, 1, m)];
        for _ in 0..3 {
            let t = rng.range(1, tm as i64) as usize;
            obs.push(rand_obs(&mut rng, t, m));
        }
        if md.den == 10 {
            log.oblige("den10");
        }
        if md.kind == "optend_some" {
            log.oblige("end_dist");
        }
        if styles.len() > 1 {
            log.oblige("substochastic");
        }
        log.oblige("t1");
        run_model(log, "rnd", &md, &obs);
    }

    // (b) zeros: sparse rows, a symbol no state ever emits (impossible observation
    // sequences), a state that can never be entered
    for _ in 0..log.opts.n(300, 2500) {
        case += 1;
        if !log.mine(case) {
            continue;
        }
        let mut rng = Rng::new(seed, 15, case);
        let s = rng.range(2, 4) as usize;
        let m = rng.range(2, 3) as usize;
        let den = *rng.pick(&dens);
        let em = rng.below(4);
        let mut md = rand_model(&mut rng, s, m, den, &[2, 4, 5, 1], em);
        let dead_sym = rng.below(m as u64) as usize;
        let never = rng.coin();
        if never {
            for r in md.b.iter_mut() {
                r[dead_sym] = 0;
            }
        }
        let dead_state = rng.below(s as u64) as usize;
        let unreachable = rng.coin();
        if unreachable {
            md.pi[dead_state] = 0;
            for r in md.a.iter_mut() {
                r[dead_state] = 0;
            }
        }
        let tm = std::cmp::min(tmax(den), 4);
        let mut obs = vec![];
        for k in 0..4 {
            let t = if k == 0 { 1 } else { rng.range(1, tm as i64) as usize };
            let mut o = rand_obs(&mut rng, t, m);
            if never && k % 2 == 1 {
                let i = rng.below(t as u64) as usize;
                o[i] = dead_sym;
                log.oblige("impossible_obs");
            }
            obs.push(o);
        }
        if unreachable {
            log.oblige("unreachable_state");
        }
        if md.kind == "optend_some" && md.eps.iter().any(|&e| e == 0) {
            log.oblige("end_zero");
        }
        run_model(log, "zero", &md, &obs);
    }

    // (c) ties: every row uniform, so all paths have the same product up to the end term
    for _ in 0..log.opts.n(150, 1200) {
        case += 1;
        if !log.mine(case) {
            continue;
        }
        let mut rng = Rng::new(seed, 16, case);
        let s = rng.range(2, 4) as usize;
        let m = rng.range(1, 3) as usize;
        let den = *rng.pick(&[2u32, 3, 4, 10]);
        let em = rng.below(4);
        let styles: &[u64] = if rng.coin() { &[3] } else { &[3, 3, 0] };
        let md = rand_model(&mut rng, s, m, den, styles, em);
        let tm = std::cmp::min(tmax(den), 4);
        let mut obs: Vec<Vec<usize>> = vec![];
        for k in 0..3 {
            let t = if k == 0 { 1 } else { rng.range(2, tm as i64) as usize };
            obs.push(rand_obs(&mut rng, t, m));
        }
        log.oblige("ties");
        run_model(log, "tie", &md, &obs);
    }

    // (d) explicit end distributions that matter: stochastic models, skewed end vector
    for _ in 0..log.opts.n(300, 2500) {
        case += 1;
        if !log.mine(case) {
            continue;
        }
        let mut rng = Rng::new(seed, 17, case);
        let s = rng.range(2, 4) as usize;
        let m = rng.range(1, 3) as usize;
        let den = *rng.pick(&dens);
        let md = rand_model(&mut rng, s, m, den, &[0, 0, 1, 3], 2);
        let tm = std::cmp::min(tmax(den) - 1, 4);
        let mut obs: Vec<Vec<usize>> = vec![];
        for k in 0..4 {
            let t = if k == 0 { 1 } else { rng.range(1, tm as i64) as usize };
            obs.push(rand_obs(&mut rng, t, m));
        }
        log.oblige("end_dist");
        run_model(log, "end", &md, &obs);
    }

    // (e) long observation sequences (small denominators), up to 4096 (quick) / 16384 paths
    let cap: u64 = if log.opts.thorough() { 16384 } else { 4096 };
    for _ in 0..log.opts.n(24, 160) {
        case += 1;
        if !log.mine(case) {
            continue;
        }
        let mut rng = Rng::new(seed, 18, case);
        let s = rng.range(2, 4) as usize;
        let den = *rng.pick(&[2u32, 2, 3, 4]);
        let m = rng.range(1, 3) as usize;
        let mut t = tmax(den);
        while !pow_le(s, t, cap) {
            t -= 1;
        }
        let em = rng.below(4);
        let md = rand_model(&mut rng, s, m, den, &[0, 0, 3, 1], em);
        let obs = vec![rand_obs(&mut rng, t, m), rand_obs(&mut rng, t - 1, m)];
        log.oblige("long_t");
        run_model(log, "long", &md, &obs);
    }

    // (f) a single state
    for _ in 0..log.opts.n(60, 400) {
        case += 1;
        if !log.mine(case) {
            continue;
        }
        let mut rng = Rng::new(seed, 19, case);
        let den = *rng.pick(&dens);
        let m = rng.range(1, 3) as usize;
        let em = rng.below(4);
        let md = rand_model(&mut rng, 1, m, den, &[0, 1], em);
        let tm = std::cmp::min(tmax(den), 5);
        let obs: Vec<Vec<usize>> = (1..=tm).map(|t| rand_obs(&mut rng, t, m)).collect();
        log.oblige("single_state");
        run_model(log, "s1", &md, &obs);
    }
}

fn main() {
    bio_verif_harness::run(drive)
}
