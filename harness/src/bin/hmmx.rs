//! C14, power-of-two model class: every parameter is 2^-e (e = 0..300) or zero, so joint
//! path probabilities are 2^-(sum of exponents): exact small integers for TLC with a dynamic
//! range far below -500 nats (= 721.3 bits), where the fast exponential underflows to 0.0.
//! One run = one model object, several observation sequences, each decoded by viterbi,
//! forward and backward.
//!
//! Harness projection (its only arithmetic; no expected value is computed):
//!   in : exponent e -> f64 2^-e (exact), -1 -> 0.0
//!   out: x = -ln p / ln 2 (bits)
//!        viterbi          : e = round(x), dev = round(|x - e| * 1e6)
//!        forward/backward : k = ceil(x), mant = round(2^(k - x) * 65536)   (frexp-like)
//!        flags nan / posinf / neginf
use bio::stats::hmm::discrete_emission::Model as Plain;
use bio::stats::hmm::discrete_emission_opt_end::Model as OptEnd;
use bio::stats::hmm::{backward, forward, viterbi};
use bio_verif_harness::{usizes, Log, Rng};
use ndarray::{Array1, Array2};
use serde_json::{json, Value};

#[derive(Clone)]
struct Mdl {
    s: usize,
    m: usize,
    a: Vec<Vec<i64>>,
    b: Vec<Vec<i64>>,
    pi: Vec<i64>,
    eps: Vec<i64>, // 0 everywhere when there is no end distribution
    kind: &'static str,
}

enum Obj {
    P(Plain),
    O(OptEnd),
}

fn p2(e: i64) -> f64 {
    if e < 0 {
        0.0
    } else if e <= 1022 {
        2f64.powi(-(e as i32))
    } else {
        // subnormal powers of two (down to 2^-1074) are exact products
        f64::MIN_POSITIVE * 2f64.powi(-((e - 1022) as i32))
    }
}
fn mat(rows: &[Vec<i64>]) -> Array2<f64> {
    Array2::from_shape_fn((rows.len(), rows[0].len()), |(i, j)| p2(rows[i][j]))
}
fn vec1(v: &[i64]) -> Array1<f64> {
    Array1::from_shape_fn(v.len(), |i| p2(v[i]))
}

fn build(md: &Mdl) -> Obj {
    let (a, b, pi, e) = (mat(&md.a), mat(&md.b), vec1(&md.pi), vec1(&md.eps));
    match md.kind {
        "plain" => Obj::P(Plain::with_float(&a, &b, &pi).unwrap()),
        "optend_none" => Obj::O(OptEnd::with_float(&a, &b, &pi, None).unwrap()),
        _ => Obj::O(OptEnd::with_float(&a, &b, &pi, Some(&e)).unwrap()),
    }
}

fn flags(lp: f64) -> Option<Value> {
    if lp.is_nan() {
        Some(json!({"nan": 1, "posinf": 0, "neginf": 0, "e": -1, "dev": 0, "k": 0, "mant": 0}))
    } else if lp == f64::INFINITY {
        Some(json!({"nan": 0, "posinf": 1, "neginf": 0, "e": -1, "dev": 0, "k": 0, "mant": 0}))
    } else if lp == f64::NEG_INFINITY {
        Some(json!({"nan": 0, "posinf": 0, "neginf": 1, "e": -1, "dev": 0, "k": 0, "mant": 0}))
    } else {
        None
    }
}

fn clamp(x: f64) -> i64 {
    x.max(-2.0e9).min(2.0e9) as i64
}

fn proj_vit(lp: f64) -> Value {
    if let Some(v) = flags(lp) {
        return v;
    }
    let x = -lp / std::f64::consts::LN_2;
    let e = x.round();
    json!({"nan": 0, "posinf": 0, "neginf": 0, "e": clamp(e), "dev": clamp(((x - e).abs() * 1.0e6).round()), "k": 0, "mant": 0})
}

fn proj_lik(lp: f64) -> Value {
    if let Some(v) = flags(lp) {
        return v;
    }
    let x = -lp / std::f64::consts::LN_2;
    let k = x.ceil();
    let mant = ((k - x) * std::f64::consts::LN_2).exp() * 65536.0;
    json!({"nan": 0, "posinf": 0, "neginf": 0, "e": -1, "dev": 0, "k": clamp(k), "mant": clamp(mant.round())})
}

fn rows_json(r: &[Vec<i64>]) -> Value {
    Value::Array(r.iter().map(|x| json!(x)).collect())
}

fn run_model(log: &mut Log, tag: &str, md: &Mdl, obs_list: &[Vec<usize>]) {
    let cfg = json!({"cls": "gen", "kind": md.kind, "s": md.s, "m": md.m, "a": rows_json(&md.a), "b": rows_json(&md.b),
        "pi": md.pi, "eps": md.eps});
    run_cfg(log, tag, cfg, md, obs_list);
}

/// closed-form cycle family (HmmExp.tla): only the parameters are recorded, the dense
/// matrices are built here from the same parameters
#[derive(Clone)]
struct Cyc {
    s: usize,
    m: usize,
    s0: usize,
    cs: i64,
    cf: i64,
    cb: i64,
    big: i64,
    pbig: i64,
    eb: i64,
    ee: i64,
    kind: &'static str,
}

fn run_cycle(log: &mut Log, tag: &str, p: &Cyc, obs_list: &[Vec<usize>]) {
    let s = p.s;
    let a: Vec<Vec<i64>> = (0..s)
        .map(|i| {
            (0..s)
                .map(|j| {
                    if j == i {
                        p.cs
                    } else if j == (i + 1) % s {
                        p.cf
                    } else if j == (i + s - 1) % s {
                        p.cb
                    } else {
                        p.big
                    }
                })
                .collect()
        })
        .collect();
    let md = Mdl {
        s,
        m: p.m,
        a,
        b: vec![vec![p.eb; p.m]; s],
        pi: (0..s).map(|i| if i == p.s0 { 0 } else { p.pbig }).collect(),
        eps: vec![p.ee; s],
        kind: p.kind,
    };
    let cfg = json!({"cls": "cyc", "kind": p.kind, "s": p.s, "m": p.m, "s0": p.s0, "cs": p.cs, "cf": p.cf, "cb": p.cb,
        "big": p.big, "pbig": p.pbig, "eb": p.eb, "ee": p.ee});
    run_cfg(log, tag, cfg, &md, obs_list);
}

fn run_cfg(log: &mut Log, tag: &str, cfg: Value, md: &Mdl, obs_list: &[Vec<usize>]) {
    if !log.begin(tag, cfg) {
        return;
    }
    let mut obj: Option<Obj> = None;
    log.call("new", json!({}), || {
        obj = Some(build(md));
        json!({"built": 1})
    });
    let obj = match obj {
        Some(o) => o,
        None => return,
    };
    for obs in obs_list {
        log.call("viterbi", json!({"obs": usizes(obs)}), || {
            let (path, lp) = match &obj {
                Obj::P(h) => viterbi(h, obs),
                Obj::O(h) => viterbi(h, obs),
            };
            let mut v = proj_vit(*lp);
            v["path"] = usizes(&path.iter().map(|s| **s).collect::<Vec<usize>>());
            v
        });
        log.call("forward", json!({"obs": usizes(obs)}), || {
            let (_, lp) = match &obj {
                Obj::P(h) => forward(h, obs),
                Obj::O(h) => forward(h, obs),
            };
            proj_lik(*lp)
        });
        log.call("backward", json!({"obs": usizes(obs)}), || {
            let (_, lp) = match &obj {
                Obj::P(h) => backward(h, obs),
                Obj::O(h) => backward(h, obs),
            };
            proj_lik(*lp)
        });
    }
}

/// exponent drawn from lo..=hi, or zero with probability zp/16
fn ex(rng: &mut Rng, lo: i64, hi: i64, zp: u64) -> i64 {
    if rng.below(16) < zp {
        -1
    } else {
        rng.range(lo, hi)
    }
}

fn model(rng: &mut Rng, s: usize, m: usize, kind: &'static str, f: &mut dyn FnMut(&mut Rng, u8) -> i64) -> Mdl {
    // f(rng, which) : which = 0 transition, 1 emission, 2 initial, 3 end
    let a = (0..s).map(|_| (0..s).map(|_| f(rng, 0)).collect()).collect();
    let b = (0..s).map(|_| (0..m).map(|_| f(rng, 1)).collect()).collect();
    let pi = (0..s).map(|_| f(rng, 2)).collect();
    let eps = if kind == "optend_some" { (0..s).map(|_| f(rng, 3)).collect() } else { vec![0; s] };
    Mdl { s, m, a, b, pi, eps, kind }
}

fn dims(rng: &mut Rng) -> (usize, usize, usize) {
    // (S, M, Tmax) with S^Tmax <= 256 (brute force over all paths in TLC)
    let s = rng.range(2, 4) as usize;
    let tmax = match s {
        2 => 6,
        3 => 5,
        _ => 4,
    };
    (s, rng.range(1, 3) as usize, tmax)
}

fn kind_of(rng: &mut Rng) -> &'static str {
    *rng.pick(&["plain", "optend_none", "optend_some", "optend_some"])
}

fn obs_for(rng: &mut Rng, m: usize, tmin: usize, tmax: usize, n: usize) -> Vec<Vec<usize>> {
    (0..n)
        .map(|_| {
            let t = rng.range(tmin as i64, tmax as i64) as usize;
            (0..t).map(|_| rng.below(m as u64) as usize).collect()
        })
        .collect()
}

pub fn drive(log: &mut Log) {
    let seed = log.opts.seed;
    let mut case: u64 = 0;

    // (a) every path above -500 nats: (2T+1) * 50 <= 650 bits < 721
    for _ in 0..log.opts.n(60, 800) {
        case += 1;
        if !log.mine(case) {
            continue;
        }
        let mut rng = Rng::new(seed, 141, case);
        let (s, m, tmax) = dims(&mut rng);
        let kind = kind_of(&mut rng);
        let md = model(&mut rng, s, m, kind, &mut |r, _| ex(r, 0, 50, 0));
        let obs = obs_for(&mut rng, m, 1, tmax, 3);
        log.oblige("exp_optimum_above_500");
        run_model(log, "above", &md, &obs);
    }

    // (b) every path below -500 nats: emission exponents >= 150 and T >= 5 (>= 750 bits > 721.3)
    for _ in 0..log.opts.n(120, 1600) {
        case += 1;
        if !log.mine(case) {
            continue;
        }
        let mut rng = Rng::new(seed, 142, case);
        let (s, m, tmax) = dims(&mut rng);
        let kind = kind_of(&mut rng);
        // S = 4: T = 4 and emission exponents >= 190 (>= 760 bits)
        let (elo, tmin) = if s == 4 { (190, 4) } else { (150, 5) };
        let md = model(&mut rng, s, m, kind, &mut |r, w| if w == 1 { ex(r, elo, 300, 0) } else { ex(r, 0, 60, 0) });
        let obs = obs_for(&mut rng, m, tmin, tmax, 3);
        log.oblige("exp_optimum_below_500");
        run_model(log, "below", &md, &obs);
    }

    // (c) straddling: the matrix crosses -500 nats somewhere along the sequence
    for _ in 0..log.opts.n(120, 1600) {
        case += 1;
        if !log.mine(case) {
            continue;
        }
        let mut rng = Rng::new(seed, 143, case);
        let (s, m, tmax) = dims(&mut rng);
        let kind = kind_of(&mut rng);
        let md = model(&mut rng, s, m, kind, &mut |r, w| match (w, r.below(3)) {
            (1, 0) => ex(r, 200, 300, 0),
            (1, _) => ex(r, 60, 200, 0),
            (_, 0) => ex(r, 40, 120, 0),
            _ => ex(r, 0, 20, 0),
        });
        let obs = obs_for(&mut rng, m, 2, tmax, 3);
        log.oblige("exp_straddle_500");
        run_model(log, "strad", &md, &obs);
    }

    // (d) zero entries (impossible transitions / emissions / starts / ends), both regions
    for _ in 0..log.opts.n(80, 1000) {
        case += 1;
        if !log.mine(case) {
            continue;
        }
        let mut rng = Rng::new(seed, 144, case);
        let (s, m, tmax) = dims(&mut rng);
        let kind = kind_of(&mut rng);
        let big = rng.coin();
        let md = model(&mut rng, s, m, kind, &mut |r, w| if w == 1 && big { ex(r, 120, 260, 3) } else { ex(r, 0, 40, 4) });
        let obs = obs_for(&mut rng, m, 1, tmax, 3);
        log.oblige("exp_zero_entries");
        run_model(log, "zero", &md, &obs);
    }

    // (e) ties in exponent sums: state 1 is a copy of state 0 (rows, columns, initial, end),
    // so every path has a twin with the same sum; plus few distinct exponent values
    for _ in 0..log.opts.n(80, 1000) {
        case += 1;
        if !log.mine(case) {
            continue;
        }
        let mut rng = Rng::new(seed, 145, case);
        let (s, m, tmax) = dims(&mut rng);
        let kind = kind_of(&mut rng);
        let base = if rng.coin() { 160 } else { 0 };
        let vals = [base, base + 1, base + 2];
        let mut md = model(&mut rng, s, m, kind, &mut |r, w| if w == 1 { *r.pick(&vals) } else { r.range(0, 2) });
        md.a[1] = md.a[0].clone();
        for row in md.a.iter_mut() {
            row[1] = row[0];
        }
        md.b[1] = md.b[0].clone();
        md.pi[1] = md.pi[0];
        md.eps[1] = md.eps[0];
        let obs = obs_for(&mut rng, m, 2, tmax, 3);
        log.oblige("exp_ties");
        run_model(log, "tie", &md, &obs);
    }

    // (f) spread between the finite terms of one log-sum inside / around the window
    // 709.8 .. 745 nats = 1024 .. 1074.8 bits (exp(-d) is a subnormal f64 there): reducible
    // models. State 0 emits with exponent 0, state 1 with exponent e1, so after T steps the
    // two forward terms differ by D = pi1 + T * e1 bits exactly.
    let spreads: [i64; 14] = [900, 1010, 1023, 1025, 1030, 1040, 1050, 1060, 1070, 1074, 1076, 1100, 1300, 1500];
    for (k, &d) in spreads.iter().enumerate() {
        for variant in 0..log.opts.n(3, 12) {
            case += 1;
            if !log.mine(case) {
                continue;
            }
            let mut rng = Rng::new(seed, 146, case);
            let t = rng.range(4, 6);
            let e1 = std::cmp::min(d / t, 300);
            let pi1 = d - t * e1;
            if pi1 > 300 {
                continue;
            }
            let s = if variant % 3 == 2 { 3 } else { 2 };
            let mut md = Mdl {
                s,
                m: 1,
                a: vec![vec![-1; s]; s],
                b: vec![vec![0]; s],
                pi: vec![-1; s],
                eps: vec![0; s],
                kind: if variant % 2 == 0 { "plain" } else { "optend_none" },
            };
            md.pi[0] = 0;
            md.pi[1] = pi1;
            md.b[1][0] = e1;
            for i in 0..s {
                md.a[i][i] = 0; // block diagonal: no mixing
            }
            if variant % 3 == 1 {
                // one-way 0 -> 1 with the heavy emission in state 0 and a free state 1: the terms
                // "just arrived from 0" and "already in 1" of the column sums of state 1 differ by
                // about (t - 1) * e0, i.e. about D in the last column
                let e0 = std::cmp::min(d / (t - 1), 300);
                md.a[0][1] = 0;
                md.b[0][0] = e0;
                md.b[1][0] = 0;
                md.pi[1] = -1;
            }
            if s == 3 {
                md.pi[2] = rng.range(0, 5);
                md.b[2][0] = rng.range(0, 3);
            }
            let obs: Vec<Vec<usize>> = vec![vec![0; t as usize], vec![0; (t - 1) as usize]];
            if (1025..=1074).contains(&d) {
                log.oblige("logsum_spread_in_fastexp_window");
            } else if d > 1074 {
                log.oblige("logsum_spread_beyond_window");
            } else {
                log.oblige("logsum_spread_below_window");
            }
            let _ = k;
            run_model(log, "spread", &md, &obs);
        }
    }

    // (f2) spread strictly between 1024 and 1024.32 bits (709.78 .. 710 nats), where exp(-d) has
    // biased exponent -1: integer exponent differences cannot land there, so the strong term is
    // itself a sum with mantissa 1 + 2^-j (state 2 feeds state 0 once with exponent j and dies):
    // spread = 1024 + log2(1 + 2^-j), j = 3..6
    for j in 3..=6i64 {
        for variant in 0..log.opts.n(2, 6) {
            case += 1;
            if !log.mine(case) {
                continue;
            }
            let t = 5 + (variant % 2) as i64; // 5 or 6 observations
            let e1 = 1024 / t;                // chain 1: pi1 + t * e1 = 1024 bits
            let pi1 = 1024 - t * e1;
            let mut md = Mdl {
                s: 3,
                m: 1,
                a: vec![vec![0, -1, -1], vec![-1, 0, -1], vec![0, -1, -1]],
                b: vec![vec![0], vec![e1], vec![0]],
                pi: vec![0, pi1, j],
                eps: vec![0, 0, 0],
                kind: if variant % 2 == 0 { "plain" } else { "optend_none" },
            };
            if variant >= 2 {
                md.pi[0] = 2; // shifts everything, keeps the spread
                md.pi[1] = pi1 + 2;
                md.pi[2] = j + 2;
            }
            let obs: Vec<Vec<usize>> = vec![vec![0; t as usize]];
            log.oblige("logsum_spread_709_78_to_710_nats");
            run_model(log, "spreadf", &md, &obs);
        }
    }

    // (f3) decoupled chains with takeover (closed form in HmmExp.tla): chain 0 explains a^n
    // perfectly, chain 1 loses w bits per symbol; after n symbols the column's dynamic range is
    // w * n bits (swept across 500, 600, 709, 745 nats = 721, 866, 1023, 1075 bits and beyond);
    // then chain 0 dies (cannot emit b / cannot end) and chain 1 is the only explanation
    {
        let ranges: [i64; 14] = [400, 600, 700, 715, 730, 800, 866, 900, 1000, 1023, 1030, 1076, 1300, 2000];
        for (ri, &range) in ranges.iter().enumerate() {
            for variant in 0..log.opts.n(2, 8) {
                case += 1;
                if !log.mine(case) {
                    continue;
                }
                let mut rng = Rng::new(seed, 148, case);
                let w = rng.range(1, 10);
                let n = (range + w - 1) / w;
                let k = if variant % 2 == 0 { 2 } else { 3 };
                let split = rng.range(0, w); // w = de1 + ae1
                let by_end = variant % 4 >= 2; // chain 0 dies through a zero end probability instead
                let mut pe = vec![rng.range(0, 2), rng.range(0, 3)];
                let mut de = vec![0, split];
                let mut ae = vec![0, w - split];
                let mut be = vec![if by_end { rng.range(0, 3) } else { -1 }, rng.range(0, 4)];
                let mut ee = vec![if by_end { -1 } else { 0 }, if by_end { rng.range(0, 2) } else { 0 }];
                if k == 3 {
                    pe.push(rng.range(0, 5));
                    de.push(rng.range(0, 2));
                    ae.push(rng.range(1, 12));
                    be.push(if rng.coin() { -1 } else { rng.range(0, 9) });
                    ee.push(if by_end { rng.range(0, 3) } else { 0 });
                }
                let kind = if by_end { "optend_some" } else if rng.coin() { "plain" } else { "optend_none" };
                let md = Mdl {
                    s: k,
                    m: 2,
                    a: (0..k).map(|i| (0..k).map(|j| if i == j { de[i] } else { -1 }).collect()).collect(),
                    b: (0..k).map(|i| vec![ae[i], be[i]]).collect(),
                    pi: pe.clone(),
                    eps: ee.clone(),
                    kind,
                };
                let cfg = json!({"cls": "dec", "kind": kind, "k": k, "pe": pe, "de": de, "ae": ae, "be": be, "ee": ee});
                if !log.begin("dec", cfg) {
                    continue;
                }
                let mut obj: Option<Obj> = None;
                log.call("new", json!({}), || {
                    obj = Some(build(&md));
                    json!({"built": 1})
                });
                let obj = match obj {
                    Some(o) => o,
                    None => continue,
                };
                for &(na, hb) in &[(n, 1i64), (n, 0i64), (n / 2, 1i64)] {
                    let mut obs: Vec<usize> = vec![0; na as usize];
                    if hb == 1 {
                        obs.push(1);
                    }
                    let args = json!({"na": na, "b": hb});
                    log.call("viterbi", args.clone(), || {
                        let (path, lp) = match &obj {
                            Obj::P(h) => viterbi(h, &obs),
                            Obj::O(h) => viterbi(h, &obs),
                        };
                        let mut v = proj_vit(*lp);
                        // run-length encoding of the path (representation only)
                        let mut rle: Vec<(usize, usize)> = vec![];
                        for st in path.iter() {
                            match rle.last_mut() {
                                Some(l) if l.0 == **st => l.1 += 1,
                                _ => rle.push((**st, 1)),
                            }
                        }
                        v["rle"] = Value::Array(rle.iter().take(50).map(|x| json!([x.0, x.1])).collect());
                        v
                    });
                    log.call("forward", args.clone(), || {
                        let (_, lp) = match &obj {
                            Obj::P(h) => forward(h, &obs),
                            Obj::O(h) => forward(h, &obs),
                        };
                        proj_lik(*lp)
                    });
                    log.call("backward", args.clone(), || {
                        let (_, lp) = match &obj {
                            Obj::P(h) => backward(h, &obs),
                            Obj::O(h) => backward(h, &obs),
                        };
                        proj_lik(*lp)
                    });
                }
                if range > 722 {
                    log.oblige("decoupled_takeover_beyond_500_nats");
                } else {
                    log.oblige("decoupled_takeover_below_500_nats");
                }
                let _ = ri;
            }
        }
    }

    // (f4) subnormal probabilities (2^-1030, 2^-1060, 2^-1074: positive, exactly representable)
    // as a transition / emission / initial / end entry on the only or the best path
    for (ei, &e) in [1030i64, 1060, 1074, 1023].iter().enumerate() {
        for place in 0..4u64 {
            for variant in 0..log.opts.n(1, 4) {
                case += 1;
                if !log.mine(case) {
                    continue;
                }
                let mut rng = Rng::new(seed, 149, case);
                // state 0 emits only symbol 0, state 1 only symbol 1; 0 -> 1 is the only way to explain "0 1"
                let mut md = Mdl {
                    s: 2,
                    m: 2,
                    a: vec![vec![rng.range(0, 2), rng.range(0, 3)], vec![-1, 0]],
                    b: vec![vec![rng.range(0, 2), -1], vec![-1, rng.range(0, 2)]],
                    pi: vec![0, -1],
                    eps: vec![0, 0],
                    kind: if place == 3 { "optend_some" } else if variant % 2 == 0 { "plain" } else { "optend_none" },
                };
                match place {
                    0 => md.a[0][1] = e,
                    1 => md.b[1][1] = e,
                    2 => md.pi[0] = e,
                    _ => md.eps = vec![-1, e],
                }
                if variant >= 2 {
                    // a second, worse but possible explanation next to the subnormal one
                    md.pi[1] = 5;
                    md.b[1][0] = 40;
                }
                let obs: Vec<Vec<usize>> = vec![vec![0, 1], vec![0, 0, 1], vec![0, 1, 1]];
                log.oblige("subnormal_probability_entry");
                let _ = ei;
                run_model(log, "subn", &md, &obs);
            }
        }
    }

    // (g) more than 256 states: closed-form cycle family, the optimal path crosses index 256
    // (forward cycle from s0 < 256, backward cycle from s0 > 256, self loop of a state >= 256)
    let sizes: [usize; 3] = [257, 300, 1000];
    for &s in sizes.iter() {
        for mv in 0..3u64 {
            for rep in 0..log.opts.n(2, 6) {
                case += 1;
                if !log.mine(case) {
                    continue;
                }
                let mut rng = Rng::new(seed, 147, case);
                let cmin = rng.range(0, 3);
                let mut others = [cmin + 1 + rng.range(0, 4), if rng.coin() { -1 } else { cmin + 1 + rng.range(0, 9) }];
                if rng.coin() {
                    others.swap(0, 1);
                }
                let (cs, cf, cb) = match mv {
                    0 => (others[0], cmin, others[1]),
                    1 => (others[0], others[1], cmin),
                    _ => (cmin, others[0], others[1]),
                };
                let s0 = match mv {
                    0 => 250 + rng.below(6) as usize,         // 250..255, walks up across 256
                    1 => (257 + rng.below(6) as usize) % s,   // walks down across 256 (or wraps from 0 for s = 257)
                    _ => if rep % 2 == 0 { s - 1 } else { 256 },
                };
                let tmax = if s == 1000 { 10 } else { 20 };
                let p = Cyc {
                    s,
                    m: rng.range(1, 2) as usize,
                    s0,
                    cs,
                    cf,
                    cb,
                    big: if rng.coin() { -1 } else { cmin + 5 + rng.range(0, 30) },
                    pbig: if rng.coin() { -1 } else { 1 + rng.range(0, 20) },
                    eb: if rep % 2 == 0 { rng.range(0, 30) } else { rng.range(60, 100) },
                    ee: rng.range(0, 5),
                    kind: if rng.coin() { "plain" } else { "optend_some" },
                };
                let p = if p.kind == "plain" { Cyc { ee: 0, ..p } } else { p };
                let t = rng.range(8, tmax) as usize;
                let obs: Vec<Vec<usize>> = vec![
                    (0..t).map(|_| rng.below(p.m as u64) as usize).collect(),
                    (0..(t / 2 + 1)).map(|_| rng.below(p.m as u64) as usize).collect(),
                ];
                log.oblige("more_than_256_states");
                run_cycle(log, "cyc", &p, &obs);
            }
        }
    }
}

fn main() {
    bio_verif_harness::run(drive)
}
