//! C07 — array-backed interval tree. One run = one ArrayBackedIntervalTree<i64,u32>.
//! `index` events carry the sorted array incl. every max value (hook `verif_entries`).
use bio::data_structures::interval_tree::ArrayBackedIntervalTree;
use bio_verif_harness::{Log, Rng};
use serde_json::{json, Value};

type T = ArrayBackedIntervalTree<i64, u32>;

fn entries_json(t: &T) -> Value {
    let (es, ml, indexed) = t.verif_entries();
    json!({
        "entries": es.into_iter().map(|(s, e, d, mx)| json!([s, e, d, mx])).collect::<Vec<_>>(),
        "ml": ml,
        "indexed": indexed as u8
    })
}

/// Every second query goes through `find_into` with a reusable buffer that still holds the hits of a
/// query on ANOTHER tree (the documented use of the buffer: it is cleared by the callee).
fn finds(log: &mut Log, t: &T, qs: &[(i64, i64)]) {
    let qj: Vec<Value> = qs.iter().map(|q| json!([q.0, q.1])).collect();
    let other: T = vec![(0i64..1000i64, 900001u32), (-1000i64..5i64, 900002u32)].into_iter().collect();
    log.call("finds", json!({"qs": qj}), || {
        let mut buf = Vec::new();
        let res: Vec<Value> = qs
            .iter()
            .enumerate()
            .map(|(i, q)| {
                if i % 2 == 1 {
                    other.find_into(-5i64..5i64, &mut buf);
                    t.find_into(q.0..q.1, &mut buf);
                    Value::Array(
                        buf.iter().map(|e| json!([e.interval().start, e.interval().end, *e.data()])).collect(),
                    )
                } else {
                    Value::Array(
                        t.find(q.0..q.1)
                            .iter()
                            .map(|e| json!([e.interval().start, e.interval().end, *e.data()]))
                            .collect(),
                    )
                }
            })
            .collect();
        json!({"res": res})
    });
}

/// replace the tree by a copy of itself (clone / serde round trip / clone_from into a used tree)
fn copy(log: &mut Log, t: &mut T, how: u64) {
    let mut eq = 1u8;
    log.call("copy", json!({"how": how % 3}), || {
        match how % 3 {
            0 => {
                let c = t.clone();
                eq = (c == *t) as u8;
                *t = c;
            }
            1 => {
                let txt = serde_json::to_string(&*t).unwrap();
                *t = serde_json::from_str(&txt).unwrap();
            }
            _ => {
                let mut other: T = vec![(1i64..9i64, 777u32)].into_iter().collect();
                other.clone_from(t);
                *t = other;
            }
        }
        json!({"eq": eq})
    });
}

fn grid_queries(rng: &mut Rng, lo: i64, hi: i64, maxq: usize) -> Vec<(i64, i64)> {
    let mut v = vec![];
    if (hi - lo + 3) * (hi - lo + 2) / 2 <= maxq as i64 {
        for a in (lo - 1)..=hi {
            for b in (a + 1)..=(hi + 1) {
                v.push((a, b));
            }
        }
    } else {
        v.push((lo - 1, hi + 1));
        v.push((lo - 1, lo));
        v.push((hi, hi + 1));
        while v.len() < maxq {
            let a = rng.range(lo - 1, hi);
            let b = rng.range(a + 1, hi + 1);
            v.push((a, b));
        }
    }
    v
}

pub fn drive(log: &mut Log) {
    let seed = log.opts.seed;
    let mut case = 0u64;
    // every n in 1..70 (all shapes of the implicit tree incl. the virtual right spine) + random n <= 300
    let reps = log.opts.n(1, 6);
    let mut sizes: Vec<usize> = vec![];
    for _ in 0..reps {
        sizes.extend(0..=70usize);
    }
    let nrand = log.opts.n(30, 400);
    let mut rs = Rng::new(seed, 72, 0);
    for _ in 0..nrand {
        sizes.push(rs.range(71, 300) as usize);
    }
    for n in sizes {
        case += 1;
        if !log.mine(case) {
            continue;
        }
        let mut rng = Rng::new(seed, 73, case);
        if !log.begin("ii", json!({"n": n})) {
            continue;
        }
        let mut t = T::new();
        log.call("new", json!({}), || json!({}));
        let span = rng.range(3, 60);
        let pattern = rng.below(4);
        let (mut lo, mut hi) = (i64::MAX, i64::MIN);
        let mut id = 0u32;
        let mut gen = |rng: &mut Rng, k: usize| -> (i64, i64) {
            let s = match pattern {
                0 => rng.range(0, span),
                1 => rng.range(0, 2),
                2 => (k as i64) % span,
                _ => rng.range(-span, span),
            };
            let w = if rng.chance(1, 10) { rng.range(1, 3 * span) } else { rng.range(1, 1 + span / 3) };
            (s, s + w)
        };
        // phase 1: insert n, (query un-indexed: refused), index, query
        let mut okk = true;
        for k in 0..n {
            let (s, e) = gen(&mut rng, k);
            lo = lo.min(s);
            hi = hi.max(e);
            let r = log.call("insert", json!({"s": s, "e": e, "d": id}), || {
                t.insert(s..e, id);
                json!({})
            });
            id += 1;
            if r["st"] != "ok" {
                okk = false;
                break;
            }
        }
        if !okk {
            continue;
        }
        if n == 0 {
            // an empty tree can be indexed and queried: no hits, and the reusable buffer is cleared
            lo = 0;
            hi = 6;
            log.oblige("empty_tree_indexed_and_queried");
        }
        if rng.chance(1, 3) {
            finds(log, &t, &[(lo, hi)]);
            log.oblige("query_unindexed_refused");
        }
        log.call("index", json!({}), || {
            t.index();
            entries_json(&t)
        });
        if rng.chance(1, 4) {
            // an indexed tree is copied: the copy is indexed and answers alike
            copy(log, &mut t, rng.below(3));
            log.oblige("tree_copied_mid_history");
        }
        let maxq = if n <= 12 { 120 } else { 25 };
        let qs = grid_queries(&mut rng, lo, hi, maxq);
        finds(log, &t, &qs);
        if rng.chance(1, 4) {
            // index twice: no-op
            log.call("index", json!({}), || {
                t.index();
                entries_json(&t)
            });
        }
        // phase 2: further inserts after indexing, refused query, re-index, query
        if rng.chance(2, 3) {
            let more = rng.range(1, 9) as usize;
            for k in 0..more {
                let (s, e) = gen(&mut rng, n + k);
                lo = lo.min(s);
                hi = hi.max(e);
                log.call("insert", json!({"s": s, "e": e, "d": id}), || {
                    t.insert(s..e, id);
                    json!({})
                });
                id += 1;
            }
            if rng.chance(1, 4) {
                // an un-indexed tree is copied: the copy still refuses queries
                copy(log, &mut t, rng.below(3));
            }
            finds(log, &t, &[(lo, hi)]);
            log.oblige("insert_after_index_then_refused");
            log.call("index", json!({}), || {
                t.index();
                entries_json(&t)
            });
            let qs = grid_queries(&mut rng, lo, hi, 20);
            finds(log, &t, &qs);
            log.oblige("reindexed");
        }
        if n >= 16 {
            log.oblige("interior_levels_above_leaf_level");
        }
    }
    // FromIterator: inserts + index
    let nfi = log.opts.n(20, 200);
    for _ in 0..nfi {
        case += 1;
        if !log.mine(case) {
            continue;
        }
        let mut rng = Rng::new(seed, 74, case);
        let n = rng.range(1, 40) as usize;
        if !log.begin("fi", json!({"n": n})) {
            continue;
        }
        log.call("new", json!({}), || json!({}));
        let items: Vec<(i64, i64)> = (0..n)
            .map(|_| {
                let s = rng.range(0, 30);
                (s, s + rng.range(1, 12))
            })
            .collect();
        // the equivalent history for the spec: n inserts, then index (observed once, at the end)
        for (k, iv) in items.iter().enumerate() {
            log.call("insert", json!({"s": iv.0, "e": iv.1, "d": k as u32}), || json!({}));
        }
        let mut t: Option<T> = None;
        log.call("index", json!({}), || {
            let tt: T = items.iter().enumerate().map(|(k, iv)| (iv.0..iv.1, k as u32)).collect();
            let j = entries_json(&tt);
            t = Some(tt);
            j
        });
        if let Some(t) = t {
            let qs = grid_queries(&mut rng, 0, 42, 20);
            finds(log, &t, &qs);
        }
        log.oblige("from_iter");
    }
}

fn main() {
    bio_verif_harness::run(drive)
}
