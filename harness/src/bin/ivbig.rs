//! C07 — interval trees far beyond replayable sizes (2^19 .. 2^20 entries), described by a closed
//! form: entry i = [a*i, a*i + w) with payload i. Only a few queries are logged; the spec knows the
//! overlap set of an arithmetic family in closed form.
use bio::data_structures::interval_tree::{ArrayBackedIntervalTree, IntervalTree};
use bio_verif_harness::{Log, Rng};
use serde_json::{json, Value};

fn queries(rng: &mut Rng, n: i64, a: i64, w: i64) -> Vec<(i64, i64)> {
    let hi = a * (n - 1) + w;
    let mut qs = vec![(0, 1), (-5, 0), (-3, 1), (hi - 1, hi), (hi, hi + 4), (hi - w - a, hi + 2)];
    // the left-most and right-most leaf blocks, and block seams of the implicit tree
    for k in [1i64, 15, 16, 17, 1 << 10, (1 << 16) - 1, 1 << 16, (1 << 18) + 1, 1 << 19, (1 << 19) + 1] {
        if k < n {
            qs.push((a * k, a * k + 1));
            qs.push((a * k - 1, a * k + w + 1));
        }
    }
    for _ in 0..10 {
        let i = rng.below(n as u64) as i64;
        let len = rng.range(1, 3 * a + w);
        qs.push((a * i + rng.range(-2, 2), a * i + rng.range(-2, 2) + len));
    }
    qs.retain(|q| q.0 < q.1);
    qs
}

pub fn drive(log: &mut Log) {
    let seed = log.opts.seed;
    let mut case = 0u64;
    let sizes: Vec<i64> = if log.opts.thorough() {
        vec![(1 << 19) - 1, 1 << 19, (1 << 19) + 1, (1 << 20) + 3, 3 << 19]
    } else {
        vec![1 << 19, (1 << 20) + 3]
    };
    for kind in ["iitree", "avl"] {
        for &n in &sizes {
            for order in ["asc", "desc"] {
                case += 1;
                if !log.mine(case) {
                    continue;
                }
                let mut rng = Rng::new(seed, 76, case);
                let a = rng.range(1, 3);
                let w = rng.range(1, 7);
                if !log.begin("big", json!({"kind": kind, "n": n, "a": a, "w": w, "order": order})) {
                    continue;
                }
                let idx: Vec<i64> = if order == "asc" { (0..n).collect() } else { (0..n).rev().collect() };
                let qs = queries(&mut rng, n, a, w);
                let qj: Vec<Value> = qs.iter().map(|q| json!([q.0, q.1])).collect();
                if kind == "iitree" {
                    let mut t: ArrayBackedIntervalTree<i64, u32> = ArrayBackedIntervalTree::new();
                    let r = log.call("build", json!({}), || {
                        for &i in &idx {
                            t.insert(a * i..a * i + w, i as u32);
                        }
                        t.index();
                        json!({"n": idx.len()})
                    });
                    if r["st"] != "ok" {
                        continue;
                    }
                    log.call("finds", json!({"qs": qj}), || {
                        let res: Vec<Value> = qs
                            .iter()
                            .map(|q| {
                                Value::Array(
                                    t.find(q.0..q.1)
                                        .iter()
                                        .map(|e| json!([e.interval().start, e.interval().end, *e.data()]))
                                        .collect(),
                                )
                            })
                            .collect();
                        json!({"res": res})
                    });
                    log.oblige("array_tree_half_million_entries");
                } else {
                    let mut t: IntervalTree<i64, u32> = IntervalTree::new();
                    let r = log.call("build", json!({}), || {
                        for &i in &idx {
                            t.insert(a * i..a * i + w, i as u32);
                        }
                        json!({"n": idx.len()})
                    });
                    if r["st"] != "ok" {
                        continue;
                    }
                    log.call("finds", json!({"qs": qj}), || {
                        let res: Vec<Value> = qs
                            .iter()
                            .map(|q| {
                                Value::Array(
                                    t.find(q.0..q.1)
                                        .map(|e| json!([e.interval().start, e.interval().end, *e.data()]))
                                        .collect(),
                                )
                            })
                            .collect();
                        json!({"res": res})
                    });
                    log.oblige("avl_half_million_entries");
                }
            }
        }
    }
}

fn main() {
    bio_verif_harness::run(drive)
}
