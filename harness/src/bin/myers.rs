//! C09 — Myers approximate matcher (single word u8/u16/u32/u64 and block-based).
//! One run = one matcher object (impl, word type, pattern, ambiguity/wildcard tables)
//! applied to several texts: `new`, then `find_all_end(ti,k)`, `distance(ti)`,
//! `best_end(ti)` on the same object. The texts are part of the run header so that the
//! specification computes each edit-matrix row once.
#[path = "../am_common.rs"]
#[macro_use]
mod am_common;
#[path = "../am_blockmodel.rs"]
mod am_blockmodel;
use am_blockmodel::guided_search;
use am_common::*;
use bio_verif_harness::{bytes, Log, Rng};
use serde_json::{json, Value};

fn hits_json<D: Into<u64> + Copy>(v: &[(usize, D)]) -> Value {
    Value::Array(
        v.iter()
            .map(|&(e, d)| {
                let d: u64 = d.into();
                json!([num(e), num(d as usize)])
            })
            .collect(),
    )
}

struct Case<'a> {
    long_impl: bool,
    w: usize,
    p: &'a [u8],
    tb: &'a Tables,
    texts: &'a [Vec<u8>],
    ks: &'a [i64],
    /// build the matcher from this (reused) builder instead of a fresh one made from `tb`
    builder: Option<&'a bio::pattern_matching::myers::MyersBuilder>,
    /// treat the matcher as a value in the middle of the run (Debug, clone, clone_from, two orders)
    values: bool,
    /// build the matcher again this many times, each time from a FRESH MyersBuilder with the same
    /// configuration, and repeat the searches of the first text on it
    rebuilds: usize,
}

thread_local! {
    /// (k, band profile) to be recorded as a `blk_profile` event of the next single-text run
    static PROFILE: std::cell::RefCell<Option<(i64, Vec<usize>)>> = std::cell::RefCell::new(None);
}

/// TLC validates the events of one run sequentially, so the texts of one object are
/// spread over several runs ("parts") of bounded edit-matrix size; the Rust object is the
/// same in all parts (`new` is recorded in part 0 only).
fn groups(m: usize, texts: &[Vec<u8>], limit: usize) -> Vec<Vec<usize>> {
    let mut out: Vec<Vec<usize>> = vec![];
    let mut cur: Vec<usize> = vec![];
    let mut cells = 0usize;
    for (i, t) in texts.iter().enumerate() {
        let c = m * t.len();
        if !cur.is_empty() && cells + c > limit {
            out.push(std::mem::take(&mut cur));
            cells = 0;
        }
        cur.push(i);
        cells += c;
    }
    if !cur.is_empty() {
        out.push(cur);
    }
    out
}

fn make(c: &Case) -> Mx {
    match c.builder {
        Some(b) => build_from(b, c.long_impl, c.w, c.p),
        None => build(c.long_impl, c.w, c.p, c.tb),
    }
}

thread_local! {
    /// rotates the way the text is handed over (slice iterator / filter / flat_map / take_while)
    static VIA_COUNTER: std::cell::Cell<u64> = std::cell::Cell::new(0);
}
fn next_via() -> u64 {
    VIA_COUNTER.with(|c| {
        c.set(c.get() + 1);
        c.get()
    })
}

/// find_all_end for every k, distance, best_end of one text on one object (`on` says which
/// object of the run answers: the original, its clone, or the clone_from target)
fn events_for_text(log: &mut Log, mx: &Mx, c: &Case, t: &[u8], ti: usize, on: &str) -> bool {
    let mut nontrivial = false;
    for &k in c.ks {
        if !c.long_impl && !(0..=255).contains(&k) {
            continue;
        }
        let via = next_via();
        let r = log.call("find_all_end", json!({"ti": ti, "k": k, "on": on, "via": VIA[(via % 4) as usize]}), || {
            on_myers!(
                mx,
                m,
                {
                    let v: Vec<(usize, u8)> = m.find_all_end(text_iter(t, via), k as u8).collect();
                    json!({ "v": hits_json(&v) })
                },
                {
                    let v: Vec<(usize, usize)> = m.find_all_end(text_iter(t, via), k_usize(k)).collect();
                    json!({"v": Value::Array(v.iter().map(|&(e, d)| json!([num(e), num(d)])).collect())})
                }
            )
        });
        if let Some(v) = r.get("v").and_then(|v| v.as_array()) {
            if !v.is_empty() && v.len() < t.len() {
                nontrivial = true;
            }
        }
    }
    if !t.is_empty() {
        // the minimum over all end positions needs at least one end position
        let via = next_via();
        log.call("distance", json!({ "ti": ti, "on": on, "via": if via % 5 == 4 { "owned_items" } else { VIA[(via % 4) as usize] } }), || {
            if via % 5 == 4 {
                on_myers!(mx, m, json!({"d": m.distance(t.iter().cloned()) as i64}), json!({"d": num(m.distance(t.iter().cloned()))}))
            } else {
                on_myers!(mx, m, json!({"d": m.distance(text_iter(t, via)) as i64}), json!({"d": num(m.distance(text_iter(t, via)))}))
            }
        });
        let via = next_via();
        log.call("best_end", json!({ "ti": ti, "on": on, "via": VIA[(via % 4) as usize] }), || {
            on_myers!(
                mx,
                m,
                {
                    let (e, d) = m.find_best_end(text_iter(t, via));
                    json!({"v": [num(e), d as i64]})
                },
                {
                    let (e, d) = m.find_best_end(text_iter(t, via));
                    json!({"v": [num(e), num(d)]})
                }
            )
        });
    }
    nontrivial
}

/// the result iterator of find_all_end as a value: forked (clone) after j items, consumed
/// through count / last / nth / skip / step_by, size_hint after n items
fn iterator_events(log: &mut Log, mx: &Mx, c: &Case, t: &[u8], ti: usize, sel: u64) {
    let k = c.ks[c.ks.len() / 2];
    if !c.long_impl && !(0..=255).contains(&k) {
        return;
    }
    let j = (sel % 3) as usize;
    let via = next_via();
    log.call("find_all_end_fork", json!({"ti": ti, "k": k, "j": j, "via": VIA[(via % 2) as usize]}), || {
        fn keep(_: &&u8) -> bool {
            true
        }
        macro_rules! fork {
            ($m:expr, $kk:expr) => {{
                if via % 2 == 0 {
                    fork!($m, $kk, t.iter())
                } else {
                    fork!($m, $kk, t.iter().filter(keep as fn(&&u8) -> bool))
                }
            }};
            ($m:expr, $kk:expr, $text:expr) => {{
                let mut it = $m.find_all_end($text, $kk);
                let mut head = vec![];
                for _ in 0..j {
                    match it.next() {
                        Some((e, d)) => head.push(json!([num(e), num(d as usize)])),
                        None => break,
                    }
                }
                let it2 = it.clone();
                let t1: Vec<Value> = it.map(|(e, d)| json!([num(e), num(d as usize)])).collect();
                let t2: Vec<Value> = it2.map(|(e, d)| json!([num(e), num(d as usize)])).collect();
                json!({"head": head, "tail1": t1, "tail2": t2})
            }};
        }
        on_myers!(mx, m, fork!(m, k as u8), fork!(m, k_usize(k)))
    });
    log.oblige("iterator_forked_after_j_items");
    let how = HOWS[(sel % 6) as usize];
    let n = 1 + (sel / 6 % 3) as usize;
    let via = next_via();
    log.call("find_all_end_via", json!({"ti": ti, "k": k, "how": how, "n": n, "via": VIA[(via % 4) as usize]}), || {
        macro_rules! consume {
            ($m:expr, $kk:expr) => {{
                let mut it = $m.find_all_end(text_iter(t, via), $kk);
                let item = |(e, d)| json!([num(e), num(d as usize)]);
                match how {
                    "count" => json!({"v": [it.count()]}),
                    "last" => json!({"v": it.last().map(item).into_iter().collect::<Vec<Value>>()}),
                    "nth" => json!({"v": it.nth(n).map(item).into_iter().collect::<Vec<Value>>()}),
                    "skip" => json!({"v": it.skip(n).map(item).collect::<Vec<Value>>()}),
                    "step_by" => json!({"v": it.step_by(n).map(item).collect::<Vec<Value>>()}),
                    _ => {
                        for _ in 0..n {
                            it.next();
                        }
                        let (lo, hi) = it.size_hint();
                        json!({"v": [num(lo), hi.map(|h| num(h)).unwrap_or(-1)]})
                    }
                }
            }};
        }
        on_myers!(mx, m, consume!(m, k as u8), consume!(m, k_usize(k)))
    });
    log.oblige(&format!("iterator_consumed_via_{}", how));
}

fn run_one(log: &mut Log, tag: &str, c: &Case) {
    let mut mx: Option<Mx> = None;
    let mut built = false;
    for (part, grp) in groups(c.p.len(), c.texts, 20_000).iter().enumerate() {
        let cfg = json!({
            "impl": if c.long_impl { "long" } else { "simple" },
            "w": c.w,
            "p": bytes(c.p),
            "ambig": c.tb.ambig_json(),
            "wild": c.tb.wild_json(),
            "part": part,
            "texts": Value::Array(grp.iter().map(|&i| bytes(&c.texts[i])).collect()),
        });
        let active = log.begin(tag, cfg);
        if !built {
            built = true;
            if active {
                log.call("new", json!({}), || {
                    mx = Some(make(c));
                    json!({})
                });
            } else {
                // run skipped after a restart: the object is still needed for the later parts
                mx = std::panic::catch_unwind(|| make(c)).ok();
            }
        }
        let mx = match &mx {
            Some(m) => m,
            None => return,
        };
        if !active {
            continue;
        }
        if let Some((pk, prof)) = PROFILE.with(|c| c.borrow_mut().take()) {
            // what the driver's transcription of the block machine computed (checked by TLC
            // against BlkStep of the specification; not a call of rust-bio)
            log.call("blk_profile", json!({"ti": 1, "k": pk}), || json!({"nb": prof.iter().map(|&x| x as i64).collect::<Vec<i64>>()}));
        }
        let mut nontrivial = false; // some threshold selected a proper, non-empty subset of the end positions
        for (ti0, &gi) in grp.iter().enumerate() {
            nontrivial |= events_for_text(log, mx, c, &c.texts[gi], ti0 + 1, "original");
        }
        if !grp.is_empty() && !c.ks.is_empty() {
            let sel = next_via() + part as u64;
            let pick = (sel as usize) % grp.len();
            iterator_events(log, mx, c, &c.texts[grp[pick]], pick + 1, sel);
        }
        for _ in 0..c.rebuilds {
            let mut again: Option<Mx> = None;
            log.call("rebuild", json!({}), || {
                again = Some(build(c.long_impl, c.w, c.p, c.tb));
                json!({})
            });
            match again {
                Some(m2) => {
                    for (ti0, &gi) in grp.iter().enumerate().take(2) {
                        events_for_text(log, &m2, c, &c.texts[gi], ti0 + 1, "rebuilt");
                    }
                }
                None => break,
            }
        }
        if c.values {
            // the matcher as a value: Debug, clone(), clone_from() into a used object of another
            // pattern (left over from an earlier run); then the same searches again in reverse
            // order, answered in turn by the copies and by the original
            log.call("debug", json!({}), || json!({"len": mx.debug_len()}));
            let mut copy: Option<Mx> = None;
            log.call("clone", json!({}), || {
                copy = Some(mx.clone());
                json!({})
            });
            let mut target = attic_take(mx.variant());
            if let Some(tg) = target.as_mut() {
                log.call("clone_from", json!({"target_debug_len_before": tg.debug_len()}), || json!({"same_variant": tg.clone_from_same(mx)}));
                log.oblige("clone_from_into_used_object");
            }
            for (n, (ti0, &gi)) in grp.iter().enumerate().rev().enumerate() {
                let (obj, on): (&Mx, &str) = match (n % 3, &copy, &target) {
                    (0, Some(cp), _) => (cp, "clone"),
                    (1, _, Some(tg)) => (tg, "clone_from_target"),
                    _ => (mx, "original"),
                };
                events_for_text(log, obj, c, &c.texts[gi], ti0 + 1, on);
            }
            log.oblige("object_cloned_mid_history_both_continue");
            log.oblige("same_searches_two_orders");
            if let Some(cp) = copy {
                attic_put(cp); // a used object for a later clone_from
            }
        }
        if nontrivial {
            log.oblige("nontrivial");
        }
    }
    // the used object stays behind as a possible clone_from target of a later run
    if let Some(m) = mx {
        attic_put(m);
    }
}

fn all_strings(alpha: &[u8], minlen: usize, maxlen: usize) -> Vec<Vec<u8>> {
    let mut out = vec![];
    let mut cur: Vec<Vec<u8>> = vec![vec![]];
    if minlen == 0 {
        out.push(vec![]);
    }
    for l in 1..=maxlen {
        let mut nxt = vec![];
        for s in &cur {
            for &c in alpha {
                let mut t = s.clone();
                t.push(c);
                nxt.push(t);
            }
        }
        if l >= minlen {
            out.extend(nxt.iter().cloned());
        }
        cur = nxt;
    }
    out
}

fn texts_for(rng: &mut Rng, p: &[u8], alpha: &[u8], talpha: &[u8], big: bool, wb: usize) -> Vec<Vec<u8>> {
    let m = p.len();
    let lean = m >= 100; // every text of about |p| symbols costs |p|^2 matrix cells
    let mut texts: Vec<Vec<u8>> = vec![vec![]];
    if m > 1 {
        let cut = 1 + rng.below((m - 1) as u64) as usize;
        texts.push(p[..if lean { cut.min(40) } else { cut }].to_vec()); // shorter than the pattern
    }
    if !lean {
        texts.push(p.to_vec());
    }
    let e = if lean { rng.below(4) as usize } else { 1 + rng.below(3) as usize };
    texts.push(mutate(rng, p, e, alpha));
    if !lean || big {
        let n1 = (m + 20 + rng.below(60) as usize).min(300);
        texts.push(planted_w(rng, p, n1, alpha, talpha, 3, wb));
    }
    if big && !lean {
        let n2 = 200 + rng.below(101) as usize;
        texts.push(planted_w(rng, p, n2, alpha, talpha, m / 8 + 2, wb));
    }
    texts
}

pub fn drive(log: &mut Log) {
    let seed = log.opts.seed;
    let mut case: u64 = 0;
    let none = Tables::default();

    // (a) exhaustive over {a,b}: every pattern up to 3 (4) symbols against every text up to
    //     5 (6) symbols, every k up to |p|+1, single-word u8 and block-based u8
    let (pl, tl) = if log.opts.thorough() { (4, 6) } else { (3, 5) };
    let pats = all_strings(b"ab", 1, pl);
    let texts = all_strings(b"ab", 0, tl);
    for &long_impl in &[false, true] {
        for p in &pats {
            case += 1;
            if !log.mine(case) {
                continue;
            }
            let ks: Vec<i64> = (0..=(p.len() as i64 + 1)).collect();
            run_one(log, "ex", &Case { long_impl, w: 8, p, tb: &none, texts: &texts, ks: &ks, builder: None, values: false, rebuilds: 0 });
            log.oblige("exhaustive_small");
        }
    }

    // (b) word-size boundaries of the single-word version
    let nvar = log.opts.n(3, 24);
    let mut combo: u64 = 0; // rotates the alphabet/table kind over the (w, m) combinations
    for &w in &[8usize, 16, 32, 64] {
        let lens = [1usize, 2, w / 2 + 1, w - 1, w, w + 1];
        for &m in &lens {
            combo += 1;
            for variant in 0..nvar {
                case += 1;
                if !log.mine(case) {
                    continue;
                }
                if m == w + 1 && variant > 0 {
                    continue; // one refusal per width is enough
                }
                let mut rng = Rng::new(seed, 11, case);
                let kind = (variant + combo) % 4;
                let (alpha, talpha): (Vec<u8>, Vec<u8>) = match kind {
                    0 => (b"ACGT".to_vec(), b"ACGT".to_vec()),
                    1 => (b"ACGTNRYM".to_vec(), b"ACGTACGTN".to_vec()),
                    2 => (b"ACGTNW".to_vec(), b"ACGT*ACGT?N".to_vec()),
                    _ => (vec![0u8, 1, 255], vec![0u8, 1, 255, 7]),
                };
                let tb = make_tables(&mut rng, kind, &alpha);
                let p = pattern(&mut rng, m, &alpha, variant / 4 + kind);
                let texts = texts_for(&mut rng, &p, &alpha, &talpha, if log.opts.thorough() { variant % 2 == 0 } else { variant == 0 }, 0);
                let mi = m as i64;
                let mut ks: Vec<i64> = vec![0, 1, 2, mi - 1, mi, mi + 3, 255];
                ks.retain(|&k| k >= 0);
                ks.sort();
                ks.dedup();
                if m == w {
                    log.oblige(&format!("simple_len_w{}", w));
                } else if m == w - 1 {
                    log.oblige("simple_len_w_minus_1");
                } else if m == w + 1 {
                    log.oblige("simple_len_w_plus_1_refused");
                }
                if kind == 1 || kind == 3 {
                    log.oblige("ambig");
                }
                if kind == 2 {
                    log.oblige("wildcard");
                }
                log.oblige("k_ge_m");
                log.oblige("k_255");
                log.oblige("empty_text");
                run_one(log, "sw", &Case { long_impl: false, w, p: &p, tb: &tb, texts: &texts, ks: &ks, builder: None, values: false, rebuilds: 0 });
            }
        }
    }

    // (c) block-based version: block boundaries, 1-5 blocks of u8, u64 blocks, small k on
    //     long patterns (blocks are activated and dropped again), huge k
    let mut plan: Vec<(usize, usize)> = vec![];
    for &m in &[1usize, 7, 8, 9, 15, 16, 17, 23, 24, 25, 31, 32, 33, 39, 40] {
        plan.push((8, m));
    }
    for &m in &[15usize, 16, 17, 33] {
        plan.push((16, m));
    }
    for &m in &[31usize, 32, 33, 65] {
        plan.push((32, m));
    }
    for &m in &[63usize, 64, 65, 128, 129, 200] {
        plan.push((64, m));
    }
    let nvar = log.opts.n(2, 20);
    for &(w, m) in &plan {
        combo += 1;
        for variant in 0..nvar {
            case += 1;
            if !log.mine(case) {
                continue;
            }
            let mut rng = Rng::new(seed, 12, case);
            let kind = (variant + combo) % 4;
            let (alpha, talpha): (Vec<u8>, Vec<u8>) = match kind {
                0 => (b"ACGT".to_vec(), b"ACGT".to_vec()),
                1 => (b"ab".to_vec(), b"ab".to_vec()),
                2 => (b"ACGTNW".to_vec(), b"ACGT*ACGTN".to_vec()),
                _ => ((0..=255u8).collect(), (0..=255u8).collect()),
            };
            let tb = make_tables(&mut rng, if kind == 1 { 0 } else { kind }, &alpha);
            let p = pattern(&mut rng, m, &alpha, variant / 4 + kind);
            let texts = texts_for(&mut rng, &p, &alpha, &talpha, variant % 2 == 0, w);
            let mi = m as i64;
            let wi = w as i64;
            let mut ks: Vec<i64> = vec![0, 1, 2, wi - 1, wi, wi + 1, mi - 1, mi, mi + 3, 255, 1000, -1];
            ks.retain(|&k| k >= -1);
            ks.sort();
            ks.dedup();
            let blocks = (m + w - 1) / w;
            if m % w == 0 {
                log.oblige("long_block_exact");
            }
            if m % w == 1 && blocks > 1 {
                log.oblige("long_block_plus_1");
            }
            if blocks >= 3 {
                log.oblige("long_3plus_blocks_small_k");
            }
            if blocks >= 2 {
                log.oblige("long_front_loaded_edits");
            }
            if w == 64 && blocks >= 2 {
                log.oblige("long_u64_multi_block");
            }
            log.oblige("k_unbounded");
            if !tb.is_empty() {
                log.oblige("long_tables");
            }
            run_one(log, "lg", &Case { long_impl: true, w, p: &p, tb: &tb, texts: &texts, ks: &ks, builder: None, values: false, rebuilds: 0 });
        }
    }

    // (d) block-based version: a unary run that fills the leading blocks exactly, then a
    //     tail over other symbols; the text repeats the run and the tail with one substituted
    //     symbol somewhere. Many alignments of the run are equally good, the column values stay
    //     at k across the block boundary: the blocks behind the boundary are dropped and
    //     re-activated right at the threshold.
    let nrun = log.opts.n(32, 400);
    for i in 0..nrun {
        case += 1;
        if !log.mine(case) {
            continue;
        }
        let mut rng = Rng::new(seed, 13, case);
        let w = if i % 4 == 3 { 16 } else { 8 };
        let blocks = 2 + rng.below(3) as usize;
        let m = w * (blocks - 1) + 1 + rng.below(w as u64) as usize;
        let b = 1 + rng.below(blocks as u64 - 1) as usize;
        let mut p: Vec<u8> = vec![b'a'; w * b];
        while p.len() < m {
            p.push(*rng.pick(b"bc"));
        }
        let mut texts: Vec<Vec<u8>> = vec![];
        for ti in 0..6 {
            let mut t: Vec<u8> = rng.seq(rng.clone().below(10) as usize, b"bc");
            // texts 1-2: run longer than in the pattern, nothing substituted (exact hit, k = 0,
            // with distance 0 at two consecutive columns at the seam)
            let extra = if ti < 2 { 1 + rng.below(3) as usize } else if rng.below(3) == 0 { rng.below(4) as usize } else { 0 };
            t.extend(vec![b'a'; w * b + extra]);
            t.extend_from_slice(&p[w * b..]);
            if ti >= 2 {
                let j = rng.below(t.len() as u64) as usize;
                t[j] = *rng.pick(b"abc");
            }
            let tail = rng.below(6) as usize;
            t.extend(rng.seq(tail, b"bc"));
            texts.push(t);
        }
        log.oblige("long_unary_run_to_block_boundary");
        run_one(log, "ur", &Case { long_impl: true, w, p: &p, tb: &none, texts: &texts, ks: &[0, 1, 2], builder: None, values: false, rebuilds: 0 });
    }

    // (e) block-based version: the edit budget is used up exactly at a block seam (see
    //     am_common::seam_case), enumerated over block width, number of blocks, seam, k, the
    //     length of the repeated symbol run and the kind of the remaining edits. One run = one
    //     pattern with the text built for it.
    let reps = log.opts.n(3, 16);
    for &w in &[8usize, 16] {
        for blocks in 2..=3usize {
            for b in 1..blocks {
                for k in 1..=3usize {
                    for r in 1..=3usize {
                        for rep in 0..reps {
                            case += 1;
                            if !log.mine(case) {
                                continue;
                            }
                            if w == 16 && (rep > 0 || r == 3) {
                                continue; // u16 blocks: wider matrices, fewer repetitions
                            }
                            if !(blocks == 3 && b == 1) && rep >= 2 && !log.opts.thorough() {
                                continue; // most repetitions go to the first seam of three-block patterns
                            }
                            let mut rng = Rng::new(seed, 14, case);
                            let alpha: &[u8] = if (rep + k as u64) % 2 == 0 { b"abcd" } else { b"abc" };
                            let (p, t) = seam_case(&mut rng, w, blocks, b, k, r, rep + r as u64, alpha);
                            let texts = vec![t];
                            let ki = k as i64;
                            log.oblige("long_budget_exhausted_at_seam");
                            run_one(log, "sb", &Case { long_impl: true, w, p: &p, tb: &none, texts: &texts, ks: &[ki - 1, ki, ki + 1], builder: None, values: false, rebuilds: 0 });
                        }
                    }
                }
            }
        }
    }

    // (f) guided search for the rare transitions of the band-limited block machine (see
    //     am_blockmodel::guided_search): the selected inputs are replayed into the real matcher
    //     and judged by TLC against the edit matrix, as always; the band profile the
    //     transcription computed is recorded next to them (`blk_profile`) and checked by TLC
    //     against BlkStep of the specification.
    let nsh = log.opts.nshards.max(1);
    let quota = (log.opts.n(16, 96) as usize + nsh as usize - 1) / nsh as usize;
    let max_patterns = log.opts.n(600, 2400) as usize; // per shard
    let (found, used) = guided_search(&|c| Rng::new(seed, 15, c), case + 1, nsh, log.opts.shard, quota, max_patterns);
    case += used;
    for (_c, wt) in found {
        for r in &wt.why {
            log.oblige(r);
        }
        PROFILE.with(|cell| *cell.borrow_mut() = Some((wt.k, wt.profile.clone())));
        let texts = vec![wt.t.clone()];
        let ks: Vec<i64> = if wt.k > 0 { vec![wt.k - 1, wt.k, wt.k + 1] } else { vec![wt.k, wt.k + 1] };
        run_one(log, "gs", &Case { long_impl: true, w: wt.w, p: &wt.p, tb: &none, texts: &texts, ks: &ks, builder: None, values: false, rebuilds: 0 });
    }

    // (g) block-based matcher built by MyersBuilder: a text wildcard swept over every position
    //     of an occurrence (so it meets the first row, the last row and the inside of every
    //     block), and an ambiguous pattern symbol on the first row of every block with each
    //     base under it
    let nsw = log.opts.n(2, 10);
    for &w in &[8usize, 16] {
        for variant in 0..nsw {
            case += 1;
            if !log.mine(case) {
                continue;
            }
            let mut rng = Rng::new(seed, 16, case);
            let m = 2 * w + 1 + rng.below(w as u64) as usize;
            let mut tb = Tables::default();
            tb.wild.push(b'*');
            tb.ambig.push((b'N', b"ACGT".to_vec()));
            let p = rng.seq(m, b"ACGT");
            let mut texts: Vec<Vec<u8>> = vec![];
            for i in 0..m {
                let mut t = rng.seq(3, b"ACGT");
                let mut q = p.clone();
                q[i] = b'*';
                t.extend(q);
                t.extend(rng.seq(2, b"ACGT"));
                texts.push(t);
            }
            log.oblige("long_wildcard_swept_over_block_seams");
            run_one(log, "ws", &Case { long_impl: true, w, p: &p, tb: &tb, texts: &texts, ks: &[0, 1], builder: None, values: false, rebuilds: 0 });
            if variant == 0 {
                // N on the first row of every block (and next to the seams)
                let mut p2 = p.clone();
                let mut i = 0;
                while i < m {
                    p2[i] = b'N';
                    i += w;
                }
                p2[w - 1] = b'N';
                let mut texts2: Vec<Vec<u8>> = vec![];
                for &b in b"ACGTN" {
                    let mut t = rng.seq(4, b"ACGT");
                    t.extend(p2.iter().map(|&c| if c == b'N' { b } else { c }));
                    t.extend(rng.seq(3, b"ACGT"));
                    texts2.push(t);
                }
                log.oblige("long_ambig_on_block_first_rows");
                run_one(log, "ws", &Case { long_impl: true, w, p: &p2, tb: &tb, texts: &texts2, ks: &[0, 1], builder: None, values: false, rebuilds: 0 });
            }
        }
    }

    // (h) builder histories: ONE MyersBuilder re-configured between builds (the same ambiguity
    //     byte defined again: widened, narrowed, reset; wildcard added); after every stage a
    //     matcher is built from it. The run header lists all calls made on the builder so far.
    let nbh = log.opts.n(8, 48);
    for i in 0..nbh {
        case += 1;
        if !log.mine(case) {
            continue;
        }
        let mut rng = Rng::new(seed, 17, case);
        let long_impl = i % 2 == 0;
        let w = if long_impl { [8usize, 8, 16][(i as usize / 2) % 3] } else { 64 };
        let wb = if long_impl { w } else { 8 };
        let m = wb + 1 + rng.below(2 * wb as u64) as usize;
        let (p, texts) = ambig_pattern_and_texts(&mut rng, m, wb);
        let mut h = BuilderHistory::new();
        for stage in 0..4 {
            builder_stage(&mut h, stage);
            if stage > 0 {
                log.oblige("builder_reused_with_redefinition");
            }
            let calls = h.calls.clone();
            run_one(log, "bh", &Case { long_impl, w, p: &p, tb: &calls, texts: &texts, ks: &[0, 1, 2], builder: Some(&h.builder), values: false, rebuilds: 0 });
            if stage == 1 {
                // the builder as a value: a clone and a serde_json round trip of it go their own way
                // (the clone skips the narrowing stage, the round trip repeats the first stage) while
                // the original continues; matchers built from all three
                let mut c1 = h.fork_clone();
                builder_stage(&mut c1, 3);
                let calls1 = c1.calls.clone();
                run_one(log, "bh", &Case { long_impl, w, p: &p, tb: &calls1, texts: &texts, ks: &[0, 1], builder: Some(&c1.builder), values: false, rebuilds: 0 });
                log.oblige("builder_cloned_mid_history");
                let mut c2 = h.fork_serde();
                builder_stage(&mut c2, 0);
                let calls2 = c2.calls.clone();
                run_one(log, "bh", &Case { long_impl, w, p: &p, tb: &calls2, texts: &texts, ks: &[0, 1], builder: Some(&c2.builder), values: false, rebuilds: 0 });
                log.oblige("builder_serde_roundtrip_mid_history");
            }
        }
    }

    // (j) chained ambiguity tables that are not transitively closed, both declaration orders, MANY
    //     fresh builders per configuration (the table lives in a HashMap whose iteration order
    //     differs from builder to builder): 1 + 32 matchers per run
    let nch = log.opts.n(8, 32);
    for i in 0..nch {
        case += 1;
        if !log.mine(case) {
            continue;
        }
        let mut rng = Rng::new(seed, 19, case);
        let long_impl = i % 2 == 1;
        let w = if long_impl { 8 } else { [8usize, 16, 32, 64][(i as usize / 2) % 4] };
        let m = if long_impl { 9 + rng.below(8) as usize } else { 3 + rng.below(5) as usize };
        let (tb, p, texts) = chain_config(&mut rng, i, m);
        log.oblige("ambiguity_chain_not_transitively_closed");
        log.oblige("many_fresh_builders_same_configuration");
        run_one(log, "ch", &Case { long_impl, w, p: &p, tb: &tb, texts: &texts, ks: &[0, 1], builder: None, values: false, rebuilds: 32 });
    }

    // (i) matcher objects as values, every word type of both implementations: after the first
    //     pass over the texts the object is formatted (Debug), cloned, and clone_from()-ed into
    //     a used object of another pattern left over from an earlier run; the texts are then
    //     searched again in reverse order, answered in turn by the clone, the clone_from target
    //     and the original. Once per process: long::Myers::default().
    let nov = log.opts.n(3, 12);
    let mut first = true;
    for &long_impl in &[false, true] {
        for &w in &[8usize, 16, 32, 64] {
            for variant in 0..nov {
                case += 1;
                if !log.mine(case) {
                    continue;
                }
                let mut rng = Rng::new(seed, 18, case);
                let m = if long_impl { w + 1 + rng.below(w as u64) as usize } else { 1 + rng.below(w as u64) as usize }.min(40);
                let alpha: &[u8] = if variant % 2 == 0 { b"ACGT" } else { b"ACGTN" };
                let tb = make_tables(&mut rng, variant % 3, b"ACGTN");
                let p = rng.seq(m, alpha);
                let mut texts = vec![];
                for _ in 0..4 {
                    let n = (m + 5 + rng.below(25) as usize).min(60);
                    texts.push(planted(&mut rng, &p, n, alpha, b"ACGTN*", 2));
                }
                let mi = m as i64;
                run_one(log, "ov", &Case { long_impl, w, p: &p, tb: &tb, texts: &texts, ks: &[0, 1, (mi / 4).max(2)], builder: None, values: true, rebuilds: 0 });
                if first {
                    first = false;
                    if log.begin("ov", json!({"impl": "long", "w": 8, "p": [], "ambig": [], "wild": [], "part": 0, "texts": [bytes(&texts[0])]})) {
                        log.call("default_long", json!({"ti": 1, "k": 1}), || {
                            let d = bio::pattern_matching::myers::long::Myers::<u8>::default();
                            let v: Vec<(usize, usize)> = d.find_all_end(texts[0].iter(), 1).collect();
                            json!({"v": Value::Array(v.iter().map(|&(e, d)| json!([num(e), num(d)])).collect())})
                        });
                        log.oblige("default_object_exercised");
                    }
                }
            }
        }
    }
    let _ = case;
}

fn main() {
    bio_verif_harness::run(drive)
}
