//! C10 — Myers traceback: eager API (FullMatches), lazy API (LazyMatches), both
//! implementations. One run = one pattern with one or more matcher objects (`objs`:
//! single-word and block-based) that each perform the same sequence of searches
//! (text, k, mode) on the texts of the run header; the objects are reused from search
//! to search, so every search after the first starts from a stale column store.
//! Events: new | search | next | next_end | next_path | next_alignment | start | path |
//! alignment | lazy_next | hit_at | path_at | alignment_at.
//! The driver only uses what the calls returned so far (hit ends seen) to decide which
//! positions to query; it never judges an answer.
#[path = "../am_common.rs"]
#[macro_use]
mod am_common;
#[path = "../am_blockmodel.rs"]
mod am_blockmodel;
use am_common::*;
use bio::alignment::{Alignment, AlignmentOperation};
use bio_verif_harness::{bytes, Log, Rng};
use serde_json::{json, Value};

fn aln_json(a: &Alignment) -> Value {
    json!({
        "xstart": num(a.xstart), "xend": num(a.xend), "xlen": num(a.xlen),
        "ystart": num(a.ystart), "yend": num(a.yend), "ylen": num(a.ylen),
        "score": a.score as i64, "mode": format!("{:?}", a.mode),
        "ops": ops_json(&a.operations),
    })
}

thread_local! {
    /// ONE `Alignment` object handed to every alignment-filling call of this driver process:
    /// it travels from matcher to matcher (other pattern lengths, other implementation), from
    /// the eager to the lazy API and back, and is sometimes overwritten with garbage first.
    static ALN: std::cell::RefCell<(Alignment, u64)> = std::cell::RefCell::new((Alignment::default(), 0));
}

/// Prepare the recycled Alignment for the next call; returns what it holds (recorded with the
/// call, the specification does not look at it): [mode, xstart, xend, xlen, number of operations]
fn aln_prepare() -> Value {
    ALN.with(|cell| {
        let mut g = cell.borrow_mut();
        g.1 += 1;
        let n = g.1;
        if n % 11 == 0 {
            g.0 = Alignment::default();
        } else if n % 3 == 0 {
            use bio::alignment::AlignmentMode::*;
            let a = &mut g.0;
            a.score = -7;
            a.xstart = 3;
            a.xend = 999;
            a.xlen = 1000;
            a.ystart = 5;
            a.yend = 6;
            a.ylen = 7;
            a.mode = [Semiglobal, Local, Custom, Global][((n / 3) % 4) as usize];
            a.operations = vec![AlignmentOperation::Xclip(3); 50];
        }
        let a = &g.0;
        json!([format!("{:?}", a.mode), num(a.xstart), num(a.xend), num(a.xlen), a.operations.len()])
    })
}

/// coverage counters of the recycling (from what went in and what came out)
fn aln_oblige(log: &mut Log, pre: &Value, r: &Value) {
    if r.get("found").and_then(|v| v.as_i64()) != Some(1) {
        return;
    }
    let semi = pre[0].as_str() == Some("Semiglobal");
    let garbage = pre[2].as_i64() == Some(999);
    let xlen_out = r["aln"]["xlen"].as_i64();
    if semi && !garbage && pre[3].as_i64() != xlen_out && pre[3].as_i64() != Some(0) {
        log.oblige("aln_recycled_from_other_pattern_length");
    }
    if garbage && semi {
        log.oblige("aln_prefilled_garbage_semiglobal");
    }
    if garbage && !semi {
        log.oblige("aln_prefilled_garbage_other_mode");
    }
    if pre[4].as_i64().unwrap_or(0) > r["aln"]["ops"].as_array().map(|a| a.len() as i64).unwrap_or(0) {
        log.oblige("aln_recycled_longer_operations_vector");
    }
}

/// a reported path with at least one edit and at least one match
fn mixed_path(r: &Value) -> bool {
    let ops = r.get("ops").or_else(|| r.get("aln").and_then(|a| a.get("ops")));
    match ops.and_then(|o| o.as_array()) {
        Some(a) => a.iter().any(|x| x.as_i64() == Some(0)) && a.iter().any(|x| x.as_i64().map(|c| c > 0).unwrap_or(false)),
        None => false,
    }
}
fn is_ok(r: &Value) -> bool {
    r.get("st").and_then(|s| s.as_str()) == Some("ok")
}
fn got_hit(r: &Value) -> bool {
    is_ok(r)
        && (r.get("v").and_then(|v| v.as_array()).map(|a| !a.is_empty()).unwrap_or(false)
            || r.get("found").and_then(|v| v.as_i64()) == Some(1))
}

#[derive(Clone)]
struct Search {
    ti: usize, // 1-based text index
    k: i64,
    lazy: bool,
    max_hits: usize, // the iterator is dropped after this many hits (partial search)
    style: u64,
    light: bool, // at most one query per hit / one query round (exhaustive class)
}

/// one call of the eager API (FullMatches) by name
macro_rules! eager_op {
    ($log:expr, $it:expr, $obj:expr, $name:expr, $rev:expr) => {{
        let rev: bool = $rev;
        match $name {
            "next" => $log.call("next", json!({"obj": $obj}), || match $it.next() {
                Some((s, e, d)) => json!({"v": [num(s), num(e), num(d as usize)]}),
                None => json!({"v": []}),
            }),
            "next_end" => $log.call("next_end", json!({"obj": $obj}), || match $it.next_end() {
                Some((e, d)) => json!({"v": [num(e), num(d as usize)]}),
                None => json!({"v": []}),
            }),
            "next_path" => $log.call("next_path", json!({"obj": $obj, "rev": rev as i64}), || {
                let mut ops: Vec<AlignmentOperation> = vec![AlignmentOperation::Xclip(7)];
                let r = if rev { $it.next_path_reverse(&mut ops) } else { $it.next_path(&mut ops) };
                match r {
                    Some((s, e, d)) => json!({"v": [num(s), num(e), num(d as usize)], "ops": ops_json(&ops)}),
                    None => json!({"v": [], "ops": []}),
                }
            }),
            "next_alignment" => {
                let pre = aln_prepare();
                let r = $log.call("next_alignment", json!({"obj": $obj, "pre": pre.clone()}), || {
                    ALN.with(|cell| {
                        let mut g = cell.borrow_mut();
                        if $it.next_alignment(&mut g.0) {
                            json!({"found": 1, "aln": aln_json(&g.0)})
                        } else {
                            json!({"found": 0})
                        }
                    })
                });
                aln_oblige($log, &pre, &r);
                r
            }
            "start" => $log.call("start", json!({"obj": $obj}), || match $it.start() {
                Some(s) => json!({"v": [num(s)]}),
                None => json!({"v": []}),
            }),
            "path" => $log.call("path", json!({"obj": $obj, "rev": rev as i64}), || {
                let mut ops: Vec<AlignmentOperation> = vec![AlignmentOperation::Yclip(9)];
                let r = if rev { $it.path_reverse(&mut ops) } else { $it.path(&mut ops) };
                match r {
                    Some(s) => json!({"v": [num(s)], "ops": ops_json(&ops)}),
                    None => json!({"v": [], "ops": []}),
                }
            }),
            _ => {
                let pre = aln_prepare();
                let r = $log.call("alignment", json!({"obj": $obj, "pre": pre.clone()}), || {
                    ALN.with(|cell| {
                        let mut g = cell.borrow_mut();
                        if $it.alignment(&mut g.0) {
                            json!({"found": 1, "aln": aln_json(&g.0)})
                        } else {
                            json!({"found": 0})
                        }
                    })
                });
                aln_oblige($log, &pre, &r);
                r
            }
        }
    }};
}

/// one call of the lazy API (LazyMatches) by name
macro_rules! lazy_op {
    ($log:expr, $it:expr, $obj:expr, $name:expr, $e:expr, $rev:expr) => {{
        let rev: bool = $rev;
        let e: usize = $e;
        match $name {
            "lazy_next" => $log.call("lazy_next", json!({"obj": $obj}), || match $it.next() {
                Some((e, d)) => json!({"v": [num(e), num(d as usize)]}),
                None => json!({"v": []}),
            }),
            "hit_at" => $log.call("hit_at", json!({"obj": $obj, "e": e}), || match $it.hit_at(e) {
                Some((s, d)) => json!({"v": [num(s), num(d as usize)]}),
                None => json!({"v": []}),
            }),
            "path_at" => $log.call("path_at", json!({"obj": $obj, "e": e, "rev": rev as i64}), || {
                let mut ops: Vec<AlignmentOperation> = vec![];
                let r = if rev { $it.path_at_reverse(e, &mut ops) } else { $it.path_at(e, &mut ops) };
                match r {
                    Some((s, d)) => json!({"v": [num(s), num(d as usize)], "ops": ops_json(&ops)}),
                    None => json!({"v": [], "ops": []}),
                }
            }),
            _ => {
                let pre = aln_prepare();
                let r = $log.call("alignment_at", json!({"obj": $obj, "e": e, "pre": pre.clone()}), || {
                    ALN.with(|cell| {
                        let mut g = cell.borrow_mut();
                        if $it.alignment_at(e, &mut g.0) {
                            json!({"found": 1, "aln": aln_json(&g.0)})
                        } else {
                            json!({"found": 0})
                        }
                    })
                });
                aln_oblige($log, &pre, &r);
                r
            }
        }
    }};
}

/// eager search: iterate with a mix of the `next*` methods; after a hit ask for
/// start / path / alignment (some of them, some repeatedly); after the end ask once more.
macro_rules! eager_search {
    ($log:expr, $rng:expr, $m:expr, $obj:expr, $t:expr, $kk:expr, $s:expr) => {{
        let mut it = $m.find_all($t.iter(), $kk);
        let mut hits = 0usize;
        let mut dead = false;
        let mut nt = false; // some reported path of this search mixes matches and edits
        loop {
            let sel = if $s.style % 4 == 3 { $rng.below(4) } else { $s.style % 4 };
            let name = ["next", "next_end", "next_path", "next_alignment"][sel as usize];
            let rev = $rng.below(4) == 0;
            let r = eager_op!($log, it, $obj, name, rev);
            if !is_ok(&r) {
                dead = true;
                break;
            }
            let hit = got_hit(&r);
            if hit {
                hits += 1;
            }
            // queries about the current hit (or, after the end, about "no hit")
            let nq = if $s.light { 1 } else if hit { $rng.below(4) } else { 3 };
            for q in 0..nq {
                let which = if hit || $s.light { $rng.below(3) } else { q };
                let name = ["start", "path", "alignment"][which as usize];
                let rev = $rng.below(4) == 0;
                let r2 = eager_op!($log, it, $obj, name, rev);
                if mixed_path(&r2) {
                    nt = true;
                }
                if !is_ok(&r2) {
                    dead = true;
                    break;
                }
            }
            if dead || !hit || hits >= $s.max_hits {
                break;
            }
        }
        if hits > 0 {
            $log.oblige("eager_hit_queried");
        }
        if nt {
            $log.oblige("nontrivial");
        }
        !dead
    }};
}

/// lazy search: advance the iterator in bursts; between bursts query `*_at` at ends of
/// hits seen so far (ascending / descending / random / repeated), at the frontier and
/// beyond it (must be refused), and - single-word version only - at searched non-hits.
macro_rules! lazy_search {
    ($log:expr, $rng:expr, $m:expr, $obj:expr, $t:expr, $kk:expr, $s:expr, $simple:expr) => {{
        let n = $t.len();
        let mut it = $m.find_all_lazy($t.iter(), $kk);
        let mut ends: Vec<usize> = vec![];
        let mut searched: i64 = -1; // last position the iterator stepped over
        let mut finished = false;
        let mut dead = false;
        let mut nt = false;
        while !dead {
            let burst = if $s.light { 1000 } else { 1 + $rng.below(4) };
            for _ in 0..burst {
                if finished || ends.len() >= $s.max_hits {
                    break;
                }
                let r = lazy_op!($log, it, $obj, "lazy_next", 0, false);
                if !is_ok(&r) {
                    dead = true;
                    break;
                }
                match r["v"].as_array().and_then(|a| a.get(0)).and_then(|x| x.as_i64()) {
                    Some(e) if e >= 0 => {
                        ends.push(e as usize);
                        searched = e;
                    }
                    _ => {
                        finished = true;
                        searched = n as i64 - 1;
                    }
                }
            }
            if dead {
                break;
            }
            // positions to ask about
            let mut qs: Vec<usize> = vec![];
            let mut hs = ends.clone();
            match $s.style % 4 {
                0 => {}
                1 => hs.reverse(),
                2 => {
                    for i in (1..hs.len()).rev() {
                        let j = $rng.below(i as u64 + 1) as usize;
                        hs.swap(i, j);
                    }
                }
                _ => {
                    let l = hs.len();
                    if l > 0 {
                        let x = hs[$rng.below(l as u64) as usize];
                        hs.push(x); // repeated query
                        hs.insert(0, x);
                    }
                }
            }
            if hs.len() > 6 {
                // keep the newest hit, the oldest hit and a few others
                let first = hs[0];
                let last = *ends.last().unwrap();
                hs.truncate(4);
                hs.push(first);
                hs.push(last);
            }
            qs.extend(hs);
            // frontier and beyond: not yet searched => must be refused
            qs.push((searched + 1) as usize);
            $log.oblige("lazy_frontier_plus_1");
            if !$s.light && $rng.below(2) == 0 {
                qs.push(n);
                qs.push(n + 3);
            }
            if !$s.light && n > 0 && $rng.below(2) == 0 {
                qs.push(n - 1);
            }
            if $simple && searched >= 0 && $rng.below(2) == 0 {
                // any searched position (documented for the single-word version only)
                qs.push($rng.below(searched as u64 + 1) as usize);
                $log.oblige("lazy_simple_any_searched_end");
            }
            for e in qs {
                let in_domain = (e as i64) > searched || ends.contains(&e) || $simple;
                if !in_domain {
                    continue; // block version: searched non-hit ends are outside the documented domain
                }
                if (e as i64) <= searched {
                    $log.oblige("lazy_hit_queried");
                }
                let name = ["hit_at", "path_at", "alignment_at"][$rng.below(3) as usize];
                let rev = $rng.below(4) == 0;
                let r = lazy_op!($log, it, $obj, name, e, rev);
                if mixed_path(&r) {
                    nt = true;
                }
                let start0 = r.get("v").and_then(|v| v.as_array()).and_then(|a| a.get(0)).and_then(|x| x.as_i64()) == Some(0)
                    || r.get("aln").and_then(|a| a.get("ystart")).and_then(|x| x.as_i64()) == Some(0);
                if start0 {
                    $log.oblige(if $simple { "lazy_hit_starting_at_text_position_0_simple" } else { "lazy_hit_starting_at_text_position_0_long" });
                }
                if !is_ok(&r) {
                    dead = true;
                    break;
                }
            }
            if finished || ends.len() >= $s.max_hits {
                break;
            }
        }
        if nt {
            $log.oblige("nontrivial");
        }
        !dead
    }};
}

/// spec -> impl: a behaviour generated by TLC from the protocol machine (MyersProtoMC):
/// a fixed list of calls on one search
macro_rules! scripted_search {
    ($log:expr, $m:expr, $obj:expr, $t:expr, $kk:expr, $lazy:expr, $ops:expr) => {{
        let mut dead = false;
        if $lazy {
            let mut it = $m.find_all_lazy($t.iter(), $kk);
            for (name, arg, rev) in $ops.iter() {
                let r = lazy_op!($log, it, $obj, name.as_str(), *arg, *rev);
                if !is_ok(&r) {
                    dead = true;
                    break;
                }
            }
        } else {
            let mut it = $m.find_all($t.iter(), $kk);
            for (name, _arg, rev) in $ops.iter() {
                let r = eager_op!($log, it, $obj, name.as_str(), *rev);
                if !is_ok(&r) {
                    dead = true;
                    break;
                }
            }
        }
        !dead
    }};
}

struct Obj {
    long_impl: bool,
    w: usize,
}

struct Case<'a> {
    p: &'a [u8],
    tb: &'a Tables,
    texts: &'a [Vec<u8>],
    objs: &'a [Obj],
    searches: &'a [Search],
    /// build the objects from this (reused) builder instead of a fresh one made from `tb`
    builder: Option<&'a bio::pattern_matching::myers::MyersBuilder>,
}

/// one search (search event + the calls of eager_search! / lazy_search!) on one object
fn do_search(log: &mut Log, seed: u64, case: u64, si: usize, s: &Search, t: &[u8], mx: &mut Mx, obj: usize, simple: bool) -> bool {
    if simple && s.k > 255 {
        return true;
    }
    // the same random choices for every object of the run: the objects answer the same queries
    let mut rng = Rng::new(seed, 40 + si as u64, case);
    let r = log.call("search", json!({"obj": obj, "ti": s.ti, "k": s.k, "mode": if s.lazy { "lazy" } else { "eager" }}), || json!({}));
    if !is_ok(&r) {
        return false;
    }
    let k = s.k;
    if s.lazy {
        on_myers!(
            mx,
            m,
            lazy_search!(log, rng, m, obj, t, k as u8, s, true),
            lazy_search!(log, rng, m, obj, t, k_usize(k), s, false)
        )
    } else {
        on_myers!(
            mx,
            m,
            eager_search!(log, rng, m, obj, t, k as u8, s),
            eager_search!(log, rng, m, obj, t, k_usize(k), s)
        )
    }
}

/// a fresh eager (find_all) or lazy (find_all_lazy) iterator consumed through count / last /
/// nth / skip / step_by, or asked for its size_hint after n items
macro_rules! iter_via {
    ($it:expr, $how:expr, $n:expr, $item:expr) => {{
        let mut it = $it;
        let n: usize = $n;
        match $how {
            "count" => json!({"v": [it.count()]}),
            "last" => json!({"v": it.last().map($item).into_iter().collect::<Vec<Value>>()}),
            "nth" => json!({"v": it.nth(n).map($item).into_iter().collect::<Vec<Value>>()}),
            "skip" => json!({"v": it.skip(n).map($item).collect::<Vec<Value>>()}),
            "step_by" => json!({"v": it.step_by(n).map($item).collect::<Vec<Value>>()}),
            _ => {
                for _ in 0..n {
                    it.next();
                }
                let (lo, hi) = it.size_hint();
                json!({"v": [num(lo), hi.map(num).unwrap_or(-1)]})
            }
        }
    }};
}

fn do_iter_via(log: &mut Log, mx: &mut Mx, obj: usize, ti: usize, t: &[u8], k: i64, lazy: bool, how: &str, n: usize) -> bool {
    let r = log.call("search", json!({"obj": obj, "ti": ti, "k": k, "mode": if lazy { "lazy" } else { "eager" }}), || json!({}));
    if !is_ok(&r) {
        return false;
    }
    let r = log.call("iter_via", json!({"obj": obj, "how": how, "n": n}), || {
        if lazy {
            on_myers!(
                mx,
                m,
                iter_via!(m.find_all_lazy(t.iter(), k as u8), how, n, |(e, d)| json!([num(e), num(d as usize)])),
                iter_via!(m.find_all_lazy(t.iter(), k_usize(k)), how, n, |(e, d)| json!([num(e), num(d as usize)]))
            )
        } else {
            on_myers!(
                mx,
                m,
                iter_via!(m.find_all(t.iter(), k as u8), how, n, |(s, e, d)| json!([num(s), num(e), num(d as usize)])),
                iter_via!(m.find_all(t.iter(), k_usize(k)), how, n, |(s, e, d)| json!([num(s), num(e), num(d as usize)]))
            )
        }
    });
    log.oblige(&format!("iterator_consumed_via_{}", how));
    is_ok(&r)
}

fn objs_json(objs: &[(bool, usize)]) -> Value {
    Value::Array(objs.iter().map(|o| json!({"impl": if o.0 { "long" } else { "simple" }, "w": o.1})).collect())
}

fn run_one(log: &mut Log, tag: &str, seed: u64, case: u64, c: &Case) {
    let cfg = json!({
        "p": bytes(c.p),
        "ambig": c.tb.ambig_json(),
        "wild": c.tb.wild_json(),
        "texts": Value::Array(c.texts.iter().map(|t| bytes(t)).collect()),
        "objs": objs_json(&c.objs.iter().map(|o| (o.long_impl, o.w)).collect::<Vec<_>>()),
    });
    if !log.begin(tag, cfg) {
        return;
    }
    let mut mxs: Vec<Mx> = vec![];
    for (oi, o) in c.objs.iter().enumerate() {
        let mut mx: Option<Mx> = None;
        log.call("new", json!({"obj": oi + 1}), || {
            mx = Some(match c.builder {
                Some(b) => build_from(b, o.long_impl, o.w, c.p),
                None => build(o.long_impl, o.w, c.p, c.tb),
            });
            json!({})
        });
        match mx {
            Some(m) => mxs.push(m),
            None => return,
        }
    }
    for (si, s) in c.searches.iter().enumerate() {
        let t = &c.texts[s.ti - 1];
        for (oi, mx) in mxs.iter_mut().enumerate() {
            if !do_search(log, seed, case, si, s, t, mx, oi + 1, !c.objs[oi].long_impl) {
                return; // a panic inside the matcher: the object is not used any further
            }
        }
    }
    // the used objects stay behind as possible clone_from targets of a later run (run_values)
    for m in mxs {
        attic_put(m);
    }
}

/// Matcher objects as values. objs of the run = the originals, then one clone per original, then
/// (where this process still holds a used object of the same type from an earlier run, i.e. of
/// another pattern) one clone_from target per original.
///  1. first half of the searches on the originals
///  2. Debug, clone() of every original; clone_from() into the used objects
///  3. second half of the searches on originals, clones and clone_from targets
///  4. first half again in reverse order on the originals (same searches, other order)
///  5. fresh eager / lazy iterators consumed through count / last / nth / skip / step_by / size_hint
fn run_values(log: &mut Log, tag: &str, seed: u64, case: u64, c: &Case) {
    let n0 = c.objs.len();
    let mut all: Vec<(bool, usize)> = c.objs.iter().map(|o| (o.long_impl, o.w)).collect();
    all.extend(c.objs.iter().map(|o| (o.long_impl, o.w)));
    let with_target: Vec<usize> = (0..n0).filter(|&oi| attic_has(variant_of(c.objs[oi].long_impl, c.objs[oi].w))).collect();
    for &oi in &with_target {
        all.push((c.objs[oi].long_impl, c.objs[oi].w));
    }
    let cfg = json!({
        "p": bytes(c.p),
        "ambig": c.tb.ambig_json(),
        "wild": c.tb.wild_json(),
        "texts": Value::Array(c.texts.iter().map(|t| bytes(t)).collect()),
        "objs": objs_json(&all),
    });
    if !log.begin(tag, cfg) {
        return;
    }
    let mut mxs: Vec<Mx> = vec![];
    for (oi, o) in c.objs.iter().enumerate() {
        let mut mx: Option<Mx> = None;
        log.call("new", json!({"obj": oi + 1}), || {
            mx = Some(build(o.long_impl, o.w, c.p, c.tb));
            json!({})
        });
        match mx {
            Some(m) => mxs.push(m),
            None => return,
        }
    }
    let half = c.searches.len() / 2;
    for (si, s) in c.searches[..half].iter().enumerate() {
        for oi in 0..n0 {
            if !do_search(log, seed, case, si, s, &c.texts[s.ti - 1], &mut mxs[oi], oi + 1, !all[oi].0) {
                return;
            }
        }
    }
    // copies
    for oi in 0..n0 {
        let mut cp: Option<Mx> = None;
        let src = &mxs[oi];
        log.call("debug", json!({"obj": oi + 1}), || json!({"len": src.debug_len()}));
        log.call("clone", json!({"obj": n0 + oi + 1, "from": oi + 1}), || {
            cp = Some(src.clone());
            json!({})
        });
        match cp {
            Some(m) => mxs.push(m),
            None => return,
        }
    }
    log.oblige("object_cloned_mid_history_both_continue");
    for (x, &oi) in with_target.iter().enumerate() {
        let mut tg = match attic_take(mxs[oi].variant()) {
            Some(t) => t,
            None => return,
        };
        let src = &mxs[oi];
        let r = log.call("clone_from", json!({"obj": 2 * n0 + x + 1, "from": oi + 1, "target_debug_len_before": tg.debug_len()}), || {
            json!({"same_variant": tg.clone_from_same(src)})
        });
        if !is_ok(&r) {
            return;
        }
        mxs.push(tg);
        log.oblige("clone_from_into_used_object");
    }
    for (sj, s) in c.searches[half..].iter().enumerate() {
        for oi in 0..mxs.len() {
            if !do_search(log, seed, case, half + sj, s, &c.texts[s.ti - 1], &mut mxs[oi], oi + 1, !all[oi].0) {
                return;
            }
        }
    }
    for (si, s) in c.searches[..half].iter().enumerate().rev() {
        for oi in 0..n0 {
            if !do_search(log, seed, case, si, s, &c.texts[s.ti - 1], &mut mxs[oi], oi + 1, !all[oi].0) {
                return;
            }
        }
    }
    log.oblige("same_searches_two_orders");
    let mut rng = Rng::new(seed, 48, case);
    for oi in 0..n0 {
        for lazy in [false, true] {
            let s = &c.searches[rng.below(c.searches.len() as u64) as usize];
            let how = HOWS[rng.below(6) as usize];
            let n = 1 + rng.below(3) as usize;
            if s.k > 255 && !all[oi].0 {
                continue;
            }
            if !do_iter_via(log, &mut mxs[oi], oi + 1, s.ti, &c.texts[s.ti - 1], s.k, lazy, how, n) {
                return;
            }
        }
    }
    // the clones stay behind as used objects for a later clone_from
    for m in mxs.drain(n0..2 * n0) {
        attic_put(m);
    }
}

fn all_strings(alpha: &[u8], minlen: usize, maxlen: usize) -> Vec<Vec<u8>> {
    let mut out = vec![];
    let mut cur: Vec<Vec<u8>> = vec![vec![]];
    if minlen == 0 {
        out.push(vec![]);
    }
    for l in 1..=maxlen {
        let mut nxt = vec![];
        for s in &cur {
            for &c in alpha {
                let mut t = s.clone();
                t.push(c);
                nxt.push(t);
            }
        }
        if l >= minlen {
            out.extend(nxt.iter().cloned());
        }
        cur = nxt;
    }
    out
}

/// Replay the behaviours TLC generated from the protocol machine: each behaviour is one
/// search (p, t, k, mode) with a list of calls; it is executed on a single-word and a
/// block-based object, every second one after a larger search on the same objects
/// (stale store).
fn replay(log: &mut Log, path: &str) {
    let none = Tables::default();
    let data = std::fs::read_to_string(path).expect("behaviour file");
    let mut case: u64 = 0;
    for line in data.lines() {
        if line.trim().is_empty() {
            continue;
        }
        case += 1;
        if !log.mine(case) {
            continue;
        }
        let b: Value = serde_json::from_str(line).expect("behaviour json");
        let sym = |x: &Value| -> u8 { b'a' + x.as_u64().unwrap() as u8 };
        let p: Vec<u8> = b["p"].as_array().map(|a| a.iter().map(sym).collect()).unwrap_or_default();
        let t: Vec<u8> = b["t"].as_array().map(|a| a.iter().map(sym).collect()).unwrap_or_default();
        let k = b["k"].as_i64().unwrap();
        let lazy = b["mode"].as_str() == Some("lazy");
        let ops: Vec<(String, usize, bool)> = b["ops"]
            .as_array()
            .unwrap()
            .iter()
            .map(|o| (o[0].as_str().unwrap().to_string(), o[1].as_u64().unwrap() as usize, o[2].as_u64().unwrap() == 1))
            .collect();
        let stale = case % 4 == 0;
        let tpre: Vec<u8> = b"abbabaa".to_vec();
        let texts = vec![t.clone(), tpre.clone()];
        let objs = [Obj { long_impl: false, w: 8 }, Obj { long_impl: true, w: 8 }];
        let cfg = json!({
            "p": bytes(&p), "ambig": [], "wild": [],
            "texts": Value::Array(texts.iter().map(|t| bytes(t)).collect()),
            "objs": Value::Array(objs.iter().map(|o| json!({"impl": if o.long_impl { "long" } else { "simple" }, "w": o.w})).collect()),
        });
        if !log.begin("beh", cfg) {
            continue;
        }
        log.oblige("tlc_behaviours_replayed");
        'objs: for (oi, o) in objs.iter().enumerate() {
            let obj = oi + 1;
            let mut mx: Option<Mx> = None;
            log.call("new", json!({"obj": obj}), || {
                mx = Some(build(o.long_impl, o.w, &p, &none));
                json!({})
            });
            let mut mx = match mx {
                Some(m) => m,
                None => break 'objs,
            };
            if stale {
                // a complete eager search with a large k on a longer text first
                let r = log.call("search", json!({"obj": obj, "ti": 2, "k": 9, "mode": "eager"}), || json!({}));
                if !is_ok(&r) {
                    break 'objs;
                }
                let pre: Vec<(String, usize, bool)> = (0..tpre.len() + 1).map(|_| ("next_end".to_string(), 0, false)).collect();
                let alive = on_myers!(
                    &mut mx,
                    m,
                    scripted_search!(log, m, obj, tpre, 9u8, false, pre),
                    scripted_search!(log, m, obj, tpre, 9usize, false, pre)
                );
                if !alive {
                    break 'objs;
                }
            }
            let r = log.call("search", json!({"obj": obj, "ti": 1, "k": k, "mode": if lazy { "lazy" } else { "eager" }}), || json!({}));
            if !is_ok(&r) {
                break 'objs;
            }
            let alive = on_myers!(
                &mut mx,
                m,
                scripted_search!(log, m, obj, t, k as u8, lazy, ops),
                scripted_search!(log, m, obj, t, k_usize(k), lazy, ops)
            );
            if !alive {
                break 'objs;
            }
        }
    }
}

pub fn drive(log: &mut Log) {
    let seed = log.opts.seed;
    let mut case: u64 = 0;
    let none = Tables::default();
    if let Some(path) = log.opts.replay.clone() {
        replay(log, &path);
        case = 1_000_000; // the seeded classes below use their own case numbers
    }

    // (a) exhaustive over {a,b}: all patterns up to 3 symbols, all texts up to 4 (5), all k,
    //     eager and lazy, single-word u8 and block-based u8 side by side
    let (pl, tl) = if log.opts.thorough() { (3, 5) } else { (3, 3) };
    let pats = all_strings(b"ab", 1, pl);
    let texts = all_strings(b"ab", 0, tl);
    for p in &pats {
        for chunk in texts.chunks(4) {
            case += 1;
            if !log.mine(case) {
                continue;
            }
            let mut searches = vec![];
            let mut rng = Rng::new(seed, 39, case);
            for ti in 1..=chunk.len() {
                for k in 0..=(p.len() as i64) {
                    for lazy in [false, true] {
                        searches.push(Search { ti, k, lazy, max_hits: 99, style: rng.below(4), light: true });
                    }
                }
            }
            let objs = [Obj { long_impl: false, w: 8 }, Obj { long_impl: true, w: 8 }];
            run_one(log, "ex", seed, case, &Case { p, tb: &none, texts: chunk, objs: &objs, searches: &searches, builder: None });
            log.oblige("exhaustive_small");
        }
    }

    // (b) boundary classes
    //  (w_simple, w_long, m)
    let plan: Vec<(usize, usize, usize)> = vec![
        (8, 8, 7), (8, 8, 8), (16, 8, 9), (16, 8, 16), (32, 8, 17), (32, 8, 24), (64, 8, 33), (64, 8, 40),
        (16, 16, 15), (16, 16, 16), (32, 16, 17), (32, 32, 32), (64, 32, 33),
        (64, 64, 63), (64, 64, 64), (0, 64, 65), (0, 64, 100), (64, 8, 5), (8, 16, 3),
    ];
    let nvar = log.opts.n(2, 8);
    let hq = if log.opts.thorough() { 1 } else { 3 }; // quick tier: fewer hits per search
    let mut combo: u64 = 0;
    for &(ws, wl, m) in &plan {
        combo += 1;
        for variant in 0..nvar {
            case += 1;
            if !log.mine(case) {
                continue;
            }
            if m >= 100 && variant % 3 != 0 {
                continue;
            }
            let mut rng = Rng::new(seed, 41, case);
            let kind = (variant + combo) % 4;
            let (alpha, talpha): (Vec<u8>, Vec<u8>) = match kind {
                0 => (b"ACGT".to_vec(), b"ACGT".to_vec()),
                1 => (b"ab".to_vec(), b"ab".to_vec()),
                2 => (b"ACGTNW".to_vec(), b"ACGT*ACGTN".to_vec()),
                _ => ((0..=255u8).collect(), (0..=255u8).collect()),
            };
            let tb = make_tables(&mut rng, if kind == 1 { 0 } else { kind }, &alpha);
            let p = pattern(&mut rng, m, &alpha, variant / 4 + kind);
            let mi = m as i64;
            // texts: [1] long (ring buffer wraps many times), [2] short incl. a hit that starts
            // before column 0, [3] shorter than the pattern, [4] empty
            let n1 = if m >= 60 { 100 } else { 120 };
            let mut t1 = planted(&mut rng, &p, n1, &alpha, &talpha, 3);
            // begin with a suffix of the pattern: alignments with leading insertions
            let cut = m / 2;
            for (i, &b) in p[cut..].iter().enumerate() {
                if i < t1.len() {
                    t1[i] = b;
                }
            }
            let e2 = rng.below(3) as usize;
            let t2 = mutate(&mut rng, &p, e2, &alpha);
            let t3 = p[..m.min(1 + rng.below(m as u64) as usize).saturating_sub(1)].to_vec();
            // [5] the pattern stretched by d extra symbols: the alignment of the hit at its end
            //     consumes m + d text symbols (as many ring-buffer columns as a hit can need)
            let mut t5: Vec<u8> = rng.seq(3, &talpha);
            let mut d5 = 0i64;
            for &b in p.iter() {
                t5.push(b);
                if rng.below(2) == 0 && d5 < 120 {
                    t5.push(*rng.pick(&alpha));
                    d5 += 1;
                }
            }
            let texts = vec![t1, t2, t3, vec![], t5];
            let small = [0i64, 1, 2][rng.below(3) as usize];
            let mut searches = vec![
                // long text, large k first (big store), then small k / short text (store shrinks)
                Search { ti: 1, k: mi + 3, lazy: false, max_hits: 25, style: 3, light: false },
                Search { ti: 2, k: small, lazy: false, max_hits: 99, style: rng.below(4), light: false },
                Search { ti: 1, k: small + 1, lazy: true, max_hits: 30, style: rng.below(4), light: false },
                Search { ti: 1, k: small + 1, lazy: false, max_hits: 30, style: 2, light: false },
                Search { ti: 2, k: mi, lazy: true, max_hits: 99, style: rng.below(4), light: false },
                Search { ti: 3, k: mi - 1, lazy: true, max_hits: 99, style: rng.below(4), light: false },
                Search { ti: 3, k: mi, lazy: false, max_hits: 99, style: rng.below(4), light: false },
                Search { ti: 4, k: mi, lazy: rng.coin(), max_hits: 99, style: 0, light: false },
                Search { ti: 2, k: small, lazy: true, max_hits: 99, style: rng.below(4), light: false },
                Search { ti: 1, k: 255, lazy: true, max_hits: 12, style: 1, light: false },
                Search { ti: 1, k: (mi / 4).max(1), lazy: false, max_hits: 40, style: 3, light: false },
                Search { ti: 1, k: (mi / 4).max(1), lazy: true, max_hits: 40, style: 3, light: false },
            ];
            // always kept (inserted behind the first three)
            let stretched = Search { ti: 5, k: (d5 + 1).min(255), lazy: false, max_hits: 99, style: 2, light: false };
            searches.retain(|s| s.k >= 0);
            for s in searches.iter_mut() {
                if s.max_hits < 99 {
                    s.max_hits /= hq;
                }
            }
            if !log.opts.thorough() {
                // quick tier: 8 of the 12 searches (the first three always: big, small, lazy on a stale store)
                let drop = 3 + rng.below(9) as usize;
                let drop2 = 3 + rng.below(9) as usize;
                let mut i = 0;
                searches.retain(|_| {
                    i += 1;
                    !(i - 1 == drop || i - 1 == drop2 || i - 1 == (drop + 4) % 9 + 3)
                });
            }
            searches.insert(3, stretched);
            log.oblige("eager_stretched_alignment");
            let mut objs = vec![];
            if ws > 0 {
                objs.push(Obj { long_impl: false, w: ws });
            }
            objs.push(Obj { long_impl: true, w: wl });
            if ws > 0 {
                log.oblige("simple_and_long_side_by_side");
            }
            if m == ws {
                log.oblige("simple_len_w");
            }
            if m % wl == 0 && m > wl {
                log.oblige("long_block_exact_multi");
            }
            if m % wl == 1 && m > wl {
                log.oblige("long_block_plus_1");
            }
            log.oblige("ring_wrap_long_text");
            log.oblige("reuse_big_then_small_then_lazy");
            log.oblige("k_ge_m");
            log.oblige("leading_insertions_text");
            if !tb.is_empty() {
                log.oblige("tables");
            }
            run_one(log, "bd", seed, case, &Case { p: &p, tb: &tb, texts: &texts, objs: &objs, searches: &searches, builder: None });
        }
    }

    // (c) guard column of a reused store: a first (eager) search over a text that shares no
    //     symbol with the pattern wraps the ring buffer, so slot 0 - the sentinel column of the
    //     next search - holds a real column with D[r] = r in every block. Then searches whose
    //     hit starts at text position 0 with more than one block of leading insertions (the
    //     text is a suffix of the pattern, k >= the number of missing symbols), eager and lazy,
    //     alternating with the filler search. Patterns of 2-3 blocks, u8 and u16 blocks.
    let gplan: Vec<(usize, usize, usize)> = vec![
        (16, 8, 12), (16, 8, 16), (32, 8, 17), (32, 8, 20), (32, 8, 23), (32, 8, 24),
        (32, 16, 20), (32, 16, 32), (64, 16, 33), (64, 16, 40), (64, 16, 47),
    ];
    let nvar = log.opts.n(2, 8);
    for &(ws, wl, m) in &gplan {
        for variant in 0..nvar {
            case += 1;
            if !log.mine(case) {
                continue;
            }
            let mut rng = Rng::new(seed, 42, case);
            let alpha: Vec<u8> = if variant % 2 == 0 { (b'0'..=b'z').collect() } else { b"ACGT".to_vec() };
            let p: Vec<u8> = if variant % 2 == 0 {
                (0..m).map(|i| alpha[i % alpha.len()]).collect() // all symbols distinct within a window
            } else {
                rng.seq(m, &alpha)
            };
            // h symbols of the pattern are missing at the front of the text: the leading insertions
            // reach at least two rows into the second block
            let h = (wl + 2 + rng.below((m - wl - 2) as u64) as usize).min(m - 1);
            // long enough to wrap the ring of the filler search (m + min(k,m) + 2 slots)
            let filler: Vec<u8> = vec![if variant % 4 < 2 { b'!' } else { b'#' }; 2 * m + 8];
            let t2 = p[h..].to_vec();
            let mut t3 = p[h..].to_vec();
            t3.extend(rng.seq(5, &alpha));
            let e4 = 1 + rng.below(2) as usize;
            let t4 = mutate(&mut rng, &p[h..], e4, &alpha);
            let texts = vec![filler, t2, t3, t4];
            let hi = h as i64;
            let mi = m as i64;
            let fk = mi - 1; // the filler search finds nothing, but keeps (nearly) all blocks of its columns active
            let searches = vec![
                Search { ti: 1, k: fk, lazy: false, max_hits: 99, style: 1, light: true },
                Search { ti: 2, k: hi, lazy: false, max_hits: 99, style: 2, light: false },
                Search { ti: 1, k: fk, lazy: false, max_hits: 99, style: 1, light: true },
                Search { ti: 2, k: hi, lazy: true, max_hits: 99, style: rng.below(4), light: false },
                Search { ti: 1, k: fk, lazy: false, max_hits: 99, style: 0, light: true },
                Search { ti: 3, k: hi + 1, lazy: false, max_hits: 99, style: 3, light: false },
                Search { ti: 1, k: fk, lazy: false, max_hits: 99, style: 1, light: true },
                Search { ti: 4, k: hi + 3, lazy: true, max_hits: 99, style: rng.below(4), light: false },
                Search { ti: 1, k: fk, lazy: false, max_hits: 99, style: 1, light: true },
                Search { ti: 2, k: mi, lazy: false, max_hits: 4, style: 3, light: false },
            ];
            let objs = [Obj { long_impl: false, w: ws }, Obj { long_impl: true, w: wl }];
            log.oblige("reuse_guard_column_leading_insertions_over_one_block");
            run_one(log, "gd", seed, case, &Case { p: &p, tb: &none, texts: &texts, objs: &objs, searches: &searches, builder: None });
        }
    }

    // (d0) a unary run that fills the leading blocks exactly, then a tail over other symbols;
    //      the text repeats run and tail exactly (k = 0) or with one substituted symbol (cf. class (d) of the
    //      `myers` driver): blocks behind the seam are dropped and re-activated at the threshold
    let nrun = log.opts.n(16, 200);
    for i in 0..nrun {
        case += 1;
        if !log.mine(case) {
            continue;
        }
        let mut rng = Rng::new(seed, 44, case);
        let w = if i % 4 == 3 { 16 } else { 8 };
        let blocks = 2 + rng.below(2) as usize;
        let m = w * (blocks - 1) + 1 + rng.below(w as u64) as usize;
        let b = 1 + rng.below(blocks as u64 - 1) as usize;
        let mut p: Vec<u8> = vec![b'a'; w * b];
        while p.len() < m {
            p.push(*rng.pick(b"bc"));
        }
        let mut texts: Vec<Vec<u8>> = vec![];
        for ti in 0..3 {
            let pre = rng.below(10) as usize;
            let mut t: Vec<u8> = rng.seq(pre, b"bc");
            // text 1: the run is 1-3 symbols longer than in the pattern and nothing is substituted:
            // the exact occurrence (k = 0) ends the run at two consecutive columns with distance 0
            let extra = if ti == 0 { 1 + rng.below(3) as usize } else if rng.below(3) == 0 { rng.below(4) as usize } else { 0 };
            t.extend(vec![b'a'; w * b + extra]);
            t.extend_from_slice(&p[w * b..]);
            if ti > 0 {
                let j = rng.below(t.len() as u64) as usize;
                t[j] = *rng.pick(b"abc");
            }
            let tail = rng.below(6) as usize;
            t.extend(rng.seq(tail, b"bc"));
            texts.push(t);
        }
        let mut searches = vec![];
        searches.push(Search { ti: 1, k: 0, lazy: false, max_hits: 99, style: rng.below(4), light: false });
        searches.push(Search { ti: 1, k: 0, lazy: true, max_hits: 99, style: rng.below(4), light: false });
        for ti in 1..=3usize {
            searches.push(Search { ti, k: 1, lazy: ti % 2 == 0, max_hits: 99, style: rng.below(4), light: false });
            searches.push(Search { ti, k: 2, lazy: ti % 2 == 1, max_hits: 99, style: rng.below(4), light: true });
        }
        let ws = if m <= 32 { 32 } else { 64 };
        let objs = [Obj { long_impl: false, w: ws }, Obj { long_impl: true, w }];
        log.oblige("unary_run_to_block_boundary");
        run_one(log, "ur", seed, case, &Case { p: &p, tb: &none, texts: &texts, objs: &objs, searches: &searches, builder: None });
    }

    // (d) the edit budget is used up exactly at a block seam (am_common::seam_case): a hit of
    //     distance exactly k with all k edits in the upper blocks, single-word and block-based
    //     object side by side, eager and lazy
    let reps = log.opts.n(1, 12);
    for &w in &[8usize, 16] {
        for blocks in 2..=3usize {
            for b in 1..blocks {
                for k in 1..=3usize {
                    for r in 1..=3usize {
                        for rep in 0..reps {
                            case += 1;
                            if !log.mine(case) {
                                continue;
                            }
                            if w == 16 && (rep > 0 || r != 2) {
                                continue;
                            }
                            if !(blocks == 3 && b == 1) && rep >= 2 && !log.opts.thorough() {
                                continue; // most repetitions go to the first seam of three-block patterns
                            }
                            let mut rng = Rng::new(seed, 43, case);
                            let alpha: &[u8] = if (rep + k as u64) % 2 == 0 { b"abcd" } else { b"abc" };
                            let (p, t) = seam_case(&mut rng, w, blocks, b, k, r, rep + r as u64, alpha);
                            let texts = vec![t];
                            let ki = k as i64;
                            let searches = vec![
                                Search { ti: 1, k: ki, lazy: false, max_hits: 99, style: rng.below(4), light: false },
                                Search { ti: 1, k: ki, lazy: true, max_hits: 99, style: rng.below(4), light: false },
                                Search { ti: 1, k: ki + 1, lazy: false, max_hits: 99, style: rng.below(4), light: true },
                            ];
                            let ws = if p.len() <= 32 { 32 } else { 64 };
                            let objs = [Obj { long_impl: false, w: ws }, Obj { long_impl: true, w }];
                            log.oblige("budget_exhausted_at_seam");
                            run_one(log, "sb", seed, case, &Case { p: &p, tb: &none, texts: &texts, objs: &objs, searches: &searches, builder: None });
                        }
                    }
                }
            }
        }
    }

    // (e) guided search for the rare transitions of the band-limited block machine
    //     (am_blockmodel::guided_search, as in the `myers` driver but from another random
    //     stream): each selected (pattern, text, k) is searched eagerly and lazily by a
    //     single-word and a block-based object side by side
    let nsh = log.opts.nshards.max(1);
    let quota = (log.opts.n(16, 64) as usize + nsh as usize - 1) / nsh as usize;
    let max_patterns = log.opts.n(600, 2400) as usize;
    let (found, used) = am_blockmodel::guided_search(&|c| Rng::new(seed, 45, c), case + 1, nsh, log.opts.shard, quota, max_patterns);
    case += used;
    for (c, wt) in found {
        for r in &wt.why {
            log.oblige(r);
        }
        let mut rng = Rng::new(seed, 46, c);
        let texts = vec![wt.t.clone()];
        let searches = vec![
            Search { ti: 1, k: wt.k, lazy: false, max_hits: 99, style: rng.below(4), light: false },
            Search { ti: 1, k: wt.k, lazy: true, max_hits: 99, style: rng.below(4), light: false },
            Search { ti: 1, k: wt.k + 1, lazy: rng.coin(), max_hits: 99, style: rng.below(4), light: true },
        ];
        let ws = if wt.p.len() <= 32 { 32 } else { 64 };
        let objs = [Obj { long_impl: false, w: ws }, Obj { long_impl: true, w: wt.w }];
        run_one(log, "gs", seed, c, &Case { p: &wt.p, tb: &none, texts: &texts, objs: &objs, searches: &searches, builder: None });
    }
    case = builder_histories(log, seed, case);

    // (h) chained ambiguity tables that are not transitively closed, both declaration orders, 32
    //     fresh builders per configuration: every round builds a single-word and a block-based
    //     matcher from a new builder and searches eagerly / lazily (labels Match / Subst under
    //     the non-transitive relation)
    let nch = log.opts.n(8, 32);
    for i in 0..nch {
        case += 1;
        if !log.mine(case) {
            continue;
        }
        let mut rng = Rng::new(seed, 50, case);
        let m = 3 + rng.below(if i % 2 == 0 { 5 } else { 14 }) as usize;
        let (tb, p, texts) = chain_config(&mut rng, i, m);
        let ws = if m <= 8 { 8 } else { 32 };
        let objs = [Obj { long_impl: false, w: ws }, Obj { long_impl: true, w: 8 }];
        log.oblige("ambiguity_chain_not_transitively_closed");
        log.oblige("many_fresh_builders_same_configuration");
        // text 1 planted at the very start once more: lazy hits starting at text position 0
        let mut texts = texts;
        texts[0] = texts[1][..0].iter().cloned().chain(p.iter().map(|&c| if c == b'X' { b'Y' } else if c == b'Y' { b'Z' } else if c == b'W' { b'X' } else { c })).collect();
        let cfg = json!({
            "p": bytes(&p), "ambig": tb.ambig_json(), "wild": tb.wild_json(),
            "texts": Value::Array(texts.iter().map(|t| bytes(t)).collect()),
            "objs": objs_json(&[(false, ws), (true, 8)]),
        });
        if !log.begin("ch", cfg) {
            continue;
        }
        'rounds: for round in 0..33usize {
            let mut mxs: Vec<Mx> = vec![];
            for (oi, o) in objs.iter().enumerate() {
                let mut mx: Option<Mx> = None;
                log.call("new", json!({"obj": oi + 1, "round": round}), || {
                    mx = Some(build(o.long_impl, o.w, &p, &tb)); // a fresh builder every time
                    json!({})
                });
                match mx {
                    Some(mm) => mxs.push(mm),
                    None => break 'rounds,
                }
            }
            let s = Search { ti: 1 + round % 3, k: (round % 2) as i64, lazy: round % 2 == 0, max_hits: 4, style: (round % 4) as u64, light: true };
            for oi in 0..2 {
                if !do_search(log, seed, case, round, &s, &texts[s.ti - 1], &mut mxs[oi], oi + 1, oi == 0) {
                    break 'rounds;
                }
            }
        }
    }

    // (g) matcher objects as values (run_values), every word type of both implementations
    let nov = log.opts.n(2, 12);
    for &(ws, wl) in &[(8usize, 8usize), (16, 16), (32, 32), (64, 64), (64, 8), (32, 16)] {
        for variant in 0..nov {
            case += 1;
            if !log.mine(case) {
                continue;
            }
            let mut rng = Rng::new(seed, 49, case);
            let m = (1 + rng.below(ws as u64) as usize).min(30);
            let alpha: &[u8] = if variant % 2 == 0 { b"ACGT" } else { b"ab" };
            let p = rng.seq(m, alpha);
            let mut texts = vec![];
            for _ in 0..2 {
                let n = (m + 5 + rng.below(20) as usize).min(50);
                texts.push(planted(&mut rng, &p, n, alpha, alpha, 2));
            }
            let mi = m as i64;
            let searches = vec![
                Search { ti: 1, k: 1, lazy: false, max_hits: 6, style: rng.below(4), light: false },
                Search { ti: 2, k: 2, lazy: true, max_hits: 6, style: rng.below(4), light: false },
                Search { ti: 1, k: (mi / 3).max(1), lazy: true, max_hits: 6, style: rng.below(4), light: true },
                Search { ti: 2, k: 0, lazy: false, max_hits: 6, style: rng.below(4), light: true },
                Search { ti: 2, k: mi, lazy: false, max_hits: 4, style: rng.below(4), light: false },
                Search { ti: 1, k: 2, lazy: true, max_hits: 6, style: rng.below(4), light: false },
            ];
            let objs = [Obj { long_impl: false, w: ws }, Obj { long_impl: true, w: wl }];
            run_values(log, "ov", seed, case, &Case { p: &p, tb: &none, texts: &texts, objs: &objs, searches: &searches, builder: None });
        }
    }
}

/// (f) builder histories: ONE MyersBuilder object is re-configured between builds - the same
///     ambiguity byte is defined again (widened, narrowed, reset), wildcards are added - and
///     after every stage a single-word and a block-based matcher are built from it and searched
///     eagerly and lazily. The run header of every stage lists all calls made on the builder so
///     far. The ambiguous symbols sit on the first rows of the blocks (and elsewhere).
fn builder_histories(log: &mut Log, seed: u64, case0: u64) -> u64 {
    let mut case = case0;
    let n = log.opts.n(8, 48);
    for i in 0..n {
        case += 1;
        if !log.mine(case) {
            continue;
        }
        let mut rng = Rng::new(seed, 47, case);
        let wl = if i % 4 == 3 { 16 } else { 8 };
        let m = wl + 1 + rng.below(2 * wl as u64) as usize;
        let (p, texts) = ambig_pattern_and_texts(&mut rng, m, wl);
        let mut h = BuilderHistory::new();
        for stage in 0..4 {
            builder_stage(&mut h, stage);
            let searches = vec![
                Search { ti: 1, k: 0, lazy: false, max_hits: 99, style: rng.below(4), light: false },
                Search { ti: 1, k: 1, lazy: true, max_hits: 99, style: rng.below(4), light: false },
                Search { ti: 2, k: 1, lazy: false, max_hits: 99, style: rng.below(4), light: true },
                Search { ti: 3, k: 2, lazy: stage % 2 == 0, max_hits: 99, style: rng.below(4), light: true },
            ];
            let ws = if m <= 32 { 32 } else { 64 };
            let objs = [Obj { long_impl: false, w: ws }, Obj { long_impl: true, w: wl }];
            if stage > 0 {
                log.oblige("builder_reused_with_redefinition");
            }
            let calls = h.calls.clone();
            run_one(log, "bh", seed, case, &Case { p: &p, tb: &calls, texts: &texts, objs: &objs, searches: &searches, builder: Some(&h.builder) });
            if stage == 1 {
                // the builder as a value: a clone and a serde_json round trip of it go their own
                // way while the original continues; matchers are built from all three
                let mut c1 = h.fork_clone();
                builder_stage(&mut c1, 3);
                let calls1 = c1.calls.clone();
                run_one(log, "bh", seed, case, &Case { p: &p, tb: &calls1, texts: &texts, objs: &objs, searches: &searches[..2], builder: Some(&c1.builder) });
                log.oblige("builder_cloned_mid_history");
                let mut c2 = h.fork_serde();
                builder_stage(&mut c2, 0);
                let calls2 = c2.calls.clone();
                run_one(log, "bh", seed, case, &Case { p: &p, tb: &calls2, texts: &texts, objs: &objs, searches: &searches[..2], builder: Some(&c2.builder) });
                log.oblige("builder_serde_roundtrip_mid_history");
            }
        }
    }
    case
}

fn main() {
    bio_verif_harness::run(drive)
}
