//! X05 — `bio::io::newick`: `from_string`, `read`, `from_file` (the module has no writer).
//!
//! One run = a batch of texts; every event parses one text with the real code and records what
//! came back: Err (with its kind) or the petgraph tree verbatim (node labels in node-index order,
//! edges in edge-index order with both end points, the edge weights).
//!
//! No expected value is computed here.  Projection (the only arithmetic of the harness): an edge
//! weight (f32) w -> kind 0 NaN | 1 finite with |1000 w| < 2e9, value round(1000 w) | 2 +inf |
//! 3 -inf | 4 finite and larger.  The random classes *render* trees into text (input generation);
//! the tree they were rendered from is thrown away, the specification reads the text only.
//!
//! Build: `io::newick` sits behind the cargo feature `phylogeny` of rust-bio, which also needs
//! bio and bio-types to agree on one petgraph version (0.6).  Enabling that in harness/Cargo.toml
//! would change the dependency versions every other driver is built with, so the shared harness
//! builds this file WITHOUT the feature as a trampoline only; `tools/props/X05.py` generates a
//! small crate next to the harness (same source file, feature `phylogeny`, petgraph pinned to
//! 0.6.5, target directory harness/target/x05-newick) and the trampoline execs that binary.

#[cfg(feature = "phylogeny")]
mod imp {
    use bio::io::newick;
    use bio_verif_harness::{bytes, Log, Rng};
    use serde_json::{json, Value};
    use std::io::BufRead;

    fn project(t: &bio_types::phylogeny::Tree) -> Value {
        let names: Vec<Value> = t.g.raw_nodes().iter().map(|n| bytes(n.weight.as_bytes())).collect();
        let mut ep = vec![];
        let mut ec = vec![];
        let mut wk = vec![];
        let mut wv = vec![];
        for e in t.g.raw_edges() {
            ep.push(e.source().index() + 1);
            ec.push(e.target().index() + 1);
            let w = e.weight as f64;
            if w.is_nan() {
                wk.push(0);
                wv.push(0i64);
            } else if w == f64::INFINITY {
                wk.push(2);
                wv.push(0);
            } else if w == f64::NEG_INFINITY {
                wk.push(3);
                wv.push(0);
            } else if (w * 1000.0).abs() < 2.0e9 {
                wk.push(1);
                wv.push((w * 1000.0).round() as i64);
            } else {
                wk.push(4);
                wv.push(0);
            }
        }
        json!({"ok": 1, "err": "", "n": names.len(), "names": names, "ep": ep, "ec": ec, "wk": wk, "wv": wv})
    }

    fn project_res(r: Result<bio_types::phylogeny::Tree, newick::Error>) -> Value {
        match r {
            Ok(t) => project(&t),
            Err(e) => {
                let kind = match e {
                    newick::Error::OpenFile { .. } => "open",
                    newick::Error::Read(_) => "io",
                    newick::Error::InvalidContent(_) => "utf8",
                    newick::Error::ParsingError(_) => "parse",
                };
                json!({"ok": 0, "err": kind, "n": 0, "names": [], "ep": [], "ec": [], "wk": [], "wv": []})
            }
        }
    }

    /// one run: every text through from_string (when it is a str) and/or read
    fn batch(log: &mut Log, tag: &str, grp: &str, texts: &[Vec<u8>], also_read: bool) {
        if texts.is_empty() || !log.begin(tag, json!({"grp": grp})) {
            return;
        }
        for t in texts {
            match std::str::from_utf8(t) {
                Ok(s) => {
                    log.call("from_string", json!({"s": bytes(t)}), || project_res(newick::from_string(s)));
                    if also_read {
                        log.call("read", json!({"s": bytes(t)}), || project_res(newick::read(&t[..])));
                    }
                }
                Err(_) => {
                    log.call("read", json!({"s": bytes(t)}), || project_res(newick::read(&t[..])));
                }
            }
        }
    }

    // ------------------------------------------------------------------ input generation
    struct Node {
        name: Vec<u8>,
        len: Vec<u8>, // literal, empty = none
        kids: Vec<Node>,
    }

    const PLAIN: &[u8] = b"ABCxyz_";
    const ODD: &[u8] = b"019.-+eE'\"_#/%*|{}<>=~!?@$&^\\N/A";
    const WS: &[u8] = b" \t\n\r";

    fn rseq(rng: &mut Rng, lo: i64, hi: i64, alpha: &[u8]) -> Vec<u8> {
        let n = rng.range(lo, hi) as usize;
        rng.seq(n, alpha)
    }

    fn gen_name(rng: &mut Rng, style: u64) -> Vec<u8> {
        match rng.below(10) {
            0 | 1 => vec![],
            2 if style > 0 => b"N/A".to_vec(),
            3 if style > 0 => {
                // inner whitespace between safe characters
                let mut v = rseq(rng, 1, 3, PLAIN);
                v.extend(rseq(rng, 1, 2, WS));
                v.extend(rseq(rng, 1, 3, PLAIN));
                v
            }
            4 if style > 0 => rseq(rng, 1, 4, ODD),
            5 if style > 1 => {
                // multi-byte characters (2, 3 and 4 bytes), U+00A0 and U+2028 are not WHITESPACE of the grammar
                let pool = ["é", "ß", "→", "木", "𝛼", "\u{a0}", "\u{2028}", "\u{feff}"];
                let mut v = vec![];
                for _ in 0..rng.range(1, 3) {
                    v.extend(rng.pick(&pool).as_bytes());
                }
                v
            }
            6 => rseq(rng, 1, 3, b"0123456789"),
            _ => rseq(rng, 1, 6, PLAIN),
        }
    }

    /// literals the float rule accepts, values that are exact in thousandths or far from every boundary
    fn gen_len(rng: &mut Rng) -> Vec<u8> {
        let s: String = match rng.below(12) {
            0 => "0".into(),
            1 => format!("{}", rng.range(1, 999)),
            2 => format!("{}.{}", rng.range(0, 99), rng.range(0, 9)),
            3 => format!("{}.{:03}", rng.range(0, 99), rng.range(0, 999)),
            4 => format!("-{}.{:02}", rng.range(0, 99), rng.range(0, 99)),
            5 => format!("{}e{}", rng.range(1, 9), rng.range(0, 3)),
            6 => format!("{}E-{}", rng.range(1, 999), rng.range(0, 3)),
            7 => format!("{}.{}e+{}", rng.range(1, 9), rng.range(0, 99), rng.range(0, 2)),
            8 => format!("{}.", rng.range(0, 99)),
            9 => format!("{}.e{}", rng.range(1, 9), rng.range(0, 2)),
            10 => "-0".into(),
            _ => format!("0.{:05}", rng.range(0, 99999)),
        };
        s.into_bytes()
    }

    fn gen_tree(rng: &mut Rng, budget: &mut i64, depth: usize, style: u64) -> Node {
        *budget -= 1;
        let mut kids = vec![];
        if *budget > 0 && depth < 12 && rng.chance(3, 5) {
            let k = match rng.below(6) {
                0 => 1,
                1 | 2 => 2,
                3 => 3,
                _ => rng.range(1, 6),
            };
            for _ in 0..k {
                if *budget <= 0 {
                    break;
                }
                kids.push(gen_tree(rng, budget, depth + 1, style));
            }
        }
        let len = if rng.chance(1, 2) { gen_len(rng) } else { vec![] };
        Node { name: gen_name(rng, style), len, kids }
    }

    fn pad(rng: &mut Rng, out: &mut Vec<u8>, ws: u64) {
        if ws > 0 && rng.chance(1, 4) {
            for _ in 0..rng.range(1, 3) {
                if rng.chance(1, 6) {
                    out.extend(b"\r\n");
                } else {
                    out.push(*rng.pick(WS));
                }
            }
        }
    }

    fn render(rng: &mut Rng, n: &Node, out: &mut Vec<u8>, ws: u64, root: bool) {
        pad(rng, out, ws);
        if !n.kids.is_empty() {
            out.push(b'(');
            for (i, k) in n.kids.iter().enumerate() {
                if i > 0 {
                    pad(rng, out, ws);
                    out.push(b',');
                }
                render(rng, k, out, ws, false);
            }
            pad(rng, out, ws);
            out.push(b')');
            pad(rng, out, ws);
        }
        out.extend(&n.name);
        if !n.len.is_empty() && (!root || rng.chance(1, 3)) {
            pad(rng, out, ws);
            out.push(b':');
            pad(rng, out, ws);
            out.extend(&n.len);
        }
        pad(rng, out, ws);
    }

    fn gen_text(rng: &mut Rng, nodes: i64, style: u64, ws: u64) -> Vec<u8> {
        let mut budget = nodes;
        let t = gen_tree(rng, &mut budget, 0, style);
        let mut out = vec![];
        render(rng, &t, &mut out, ws, true);
        out.push(b';');
        pad(rng, &mut out, ws);
        out
    }

    fn mutate(rng: &mut Rng, t: &[u8]) -> Vec<u8> {
        let mut v = t.to_vec();
        let pool: &[u8] = b"();:,; \t\n[]'1.e-A";
        let at = |rng: &mut Rng, n: usize| rng.below(n.max(1) as u64) as usize;
        match rng.below(8) {
            0 if !v.is_empty() => {
                let p = at(rng, v.len());
                v.remove(p);
            }
            1 => {
                let p = at(rng, v.len() + 1);
                v.insert(p, *rng.pick(pool));
            }
            2 if !v.is_empty() => {
                let p = at(rng, v.len());
                v[p] = *rng.pick(pool);
            }
            3 => {
                // cut: the ';' and perhaps more is missing
                let p = at(rng, v.len() + 1);
                v.truncate(p);
            }
            4 => v.extend(rseq(rng, 1, 3, b";A) (:1")), // trailing garbage / second tree
            5 => {
                // drop or double one parenthesis
                let ps: Vec<usize> = (0..v.len()).filter(|&i| v[i] == b'(' || v[i] == b')').collect();
                if !ps.is_empty() {
                    let p = *rng.pick(&ps);
                    if rng.coin() {
                        v.remove(p);
                    } else {
                        v.insert(p, v[p]);
                    }
                }
            }
            6 => {
                // spoil a number: put a character next to a ':'
                let ps: Vec<usize> = (0..v.len()).filter(|&i| v[i] == b':').collect();
                if !ps.is_empty() {
                    let p = *rng.pick(&ps);
                    v.insert(p + 1, *rng.pick(b"+.eEx0-:"));
                }
            }
            _ => {
                // swap two neighbours
                if v.len() >= 2 {
                    let p = at(rng, v.len() - 1);
                    v.swap(p, p + 1);
                }
            }
        }
        v
    }

    fn edge_texts() -> Vec<Vec<u8>> {
        let strs: Vec<&str> = vec![
            // the documentation example and the classics
            "(A:0.1,B:0.2,(C:0.3,D:0.4)E:0.5)F;",
            "(,,(,));",
            "(A,B,(C,D));",
            "(A,B,(C,D)E)F;",
            "(:0.1,:0.2,(:0.3,:0.4):0.5);",
            "(:0.1,:0.2,(:0.3,:0.4):0.5):0.0;",
            "(A:0.1,B:0.2,(C:0.3,D:0.4):0.5);",
            "((B:0.2,(C:0.3,D:0.4)E:0.5)F:0.1)A;",
            // a tree that is one node
            ";", " ;", ":1;", " : 1 ;", "A;", "A:1;", "A:1 ;", "A : 1;", " A ; ", "\tA\n;\r\n", "A;\n",
            // empty branches
            "();", "( );", "(,);", "(,,);", "(A,);", "(,A);", "(());", "((),());", "(:1);", "(:1,:2);", "()A;", "() A;", "()A:1;",
            // names
            "( A , BC );", "(A :1,B\n:2)C ;", "(A ,B\t)\nC\r\n;", "A B;", "A  B C;", "A\tB;", "(A B,C D)E F;", "N/A;", "(N/A,);", "'A B';", "\"q\";", "A'B;", "1;", "1e5;", "-;", ".;", "(1,2)3;",
            "é;", "(木,𝛼:1)→;", "A\u{a0}B;", "\u{feff}A;", "A\u{2028};", "\u{b}A;", "A\u{c};",
            // comments and brackets are not part of the grammar
            "[c]A;", "A[c];", "(A[1],B);", "A];", "(A,B)[x];", "(A:1[c],B);",
            // numbers
            "A:0;", "A:-0;", "A:1.;", "A:1.e2;", "A:1.5e+2;", "A:12E-1;", "A:0.001;", "A:-12.345;", "(A:1e3,B:999.999);",
            "A:01;", "A:.5;", "A:+1;", "A:1e;", "A:1e+;", "A:--1;", "A:1e5.2;", "A:1..2;", "A:0x1;", "A:nan;", "A:inf;", "A:-inf;", "A:1_0;",
            "A:;", "A::1;", "A:1:2;", "A:1 2;", "A:1 e2;", "A:1e 2;", "A:- 1;", "(A:1e999,B:-1e999);", "(A:1e-99,B:-1e-99);", "(A:1e39,B:1e30);",
            "(A:100000000,B:123456789012);", "(A:0.00000000000000000001,B:0.100000000000000000001);", "(A:00,B);", "(A:1e0005,B:1e-0002);",
            // unbalanced, missing ';', trailing garbage, several trees
            "", " ", "A", "(A,B)", "(A,B", "A,B);", "(A,B));", "((A,B);", "(A,B;", ")(;", "(;);", ";;", "A;B;", "A;;", "A; B", "(A,B);(C);",
            "(A,B);x", ",;", "A,B;", "(A)(B);", "(A)B(C);", "A(B);", "(A B)(;", ": ;", "(A:1:2);", "(A,B):;", "(A;B);",
        ];
        strs.into_iter().map(|s| s.as_bytes().to_vec()).collect()
    }

    fn bad_utf8() -> Vec<Vec<u8>> {
        vec![
            vec![0xff, b';'],
            vec![b'A', 0x80, b';'],
            vec![0xc3, b';'],                   // truncated 2-byte sequence
            vec![0xc0, 0x80, b';'],             // overlong NUL
            vec![0xc1, 0xbf, b';'],             // overlong
            vec![0xe0, 0x80, 0x80, b';'],       // overlong 3-byte
            vec![0xe0, 0xa0, 0x80, b';'],       // valid U+0800
            vec![0xed, 0xa0, 0x80, b';'],       // surrogate
            vec![0xed, 0x9f, 0xbf, b';'],       // valid U+D7FF
            vec![0xf0, 0x80, 0x80, 0x80, b';'], // overlong 4-byte
            vec![0xf0, 0x90, 0x80, 0x80, b';'], // valid U+10000
            vec![0xf4, 0x8f, 0xbf, 0xbf, b';'], // valid U+10FFFF
            vec![0xf4, 0x90, 0x80, 0x80, b';'], // beyond U+10FFFF
            vec![0xf5, 0x80, 0x80, 0x80, b';'],
            vec![b'(', b'A', b',', 0xe2, 0x86, b')', b';'], // truncated 3-byte sequence inside a tree
            vec![b'(', b'A', b',', 0xe2, 0x86, 0x92, b')', b';'],
            vec![b'A', b';', 0xfe],             // after the tree
            vec![0xe2, 0x86, 0x92],             // valid text, no tree
        ]
    }

    pub fn drive(log: &mut Log) {
        let seed = log.opts.seed;
        let mut case = 0u64;

        // (0) spec -> impl: every text that TLC generated from the character machine
        if let Some(path) = log.opts.replay.clone() {
            let f = std::io::BufReader::new(std::fs::File::open(&path).expect("behaviour file"));
            let mut all: Vec<Vec<u8>> = vec![];
            for line in f.lines() {
                let v: Value = serde_json::from_str(&line.unwrap()).unwrap();
                all.push(v["s"].as_array().unwrap().iter().map(|x| x.as_u64().unwrap() as u8).collect());
            }
            all.sort();
            for chunk in all.chunks(60) {
                case += 1;
                if !log.mine(case) {
                    continue;
                }
                batch(log, "beh", "beh", chunk, false);
            }
            if !all.is_empty() {
                log.oblige("tlc_behaviours_replayed");
            }
        }

        // (1) exhaustive: every string of length <= k over the eight characters of the MC alphabet
        {
            let alpha = b"(),:;a1 ";
            let k = if log.opts.thorough() { 5 } else { 3 };
            let mut all: Vec<Vec<u8>> = vec![vec![]];
            let mut last: Vec<Vec<u8>> = vec![vec![]];
            for _ in 0..k {
                let mut next = vec![];
                for s in &last {
                    for &c in alpha.iter() {
                        let mut t = s.clone();
                        t.push(c);
                        next.push(t);
                    }
                }
                all.extend(next.iter().cloned());
                last = next;
            }
            for chunk in all.chunks(80) {
                case += 1;
                if !log.mine(case) {
                    continue;
                }
                log.oblige("exhaustive_short_strings");
                batch(log, "ex", "ex", chunk, false);
            }
        }

        // (2) edge classes
        {
            let e = edge_texts();
            for chunk in e.chunks(12) {
                case += 1;
                if !log.mine(case) {
                    continue;
                }
                for t in chunk {
                    if t == b";" {
                        log.oblige("tree_of_one_unnamed_node");
                    }
                    if t.starts_with(b"A:1e999") || t.starts_with(b"(A:1e999") {
                        log.oblige("length_overflows_f32");
                    }
                    if t.is_empty() {
                        log.oblige("empty_text");
                    }
                    if t == b"( A , BC );" {
                        log.oblige("one_character_name_before_blanks");
                    }
                    if t == b"A B;" {
                        log.oblige("name_with_inner_whitespace");
                    }
                    if t == b"A;B;" {
                        log.oblige("second_tree_after_the_first");
                    }
                }
                batch(log, "edge", "edge", chunk, true);
            }
            case += 1;
            if log.mine(case) {
                log.oblige("invalid_utf8");
                batch(log, "utf8", "utf8", &bad_utf8(), false);
            }
        }

        // (3) random well-formed texts and their one-edit neighbours
        for _ in 0..log.opts.n(180, 3000) {
            case += 1;
            if !log.mine(case) {
                continue;
            }
            let mut rng = Rng::new(seed, 501, case);
            let mut texts = vec![];
            for _ in 0..6 {
                let nodes = match rng.below(5) {
                    0 => rng.range(1, 3),
                    1 | 2 => rng.range(2, 9),
                    3 => rng.range(5, 25),
                    _ => rng.range(10, 60),
                };
                let style = rng.below(3);
                let ws = rng.below(2);
                let t = gen_text(&mut rng, nodes, style, ws);
                log.oblige("random_well_formed");
                if ws > 0 {
                    log.oblige("random_with_whitespace");
                }
                if style > 1 {
                    log.oblige("random_multibyte_names");
                }
                for _ in 0..2 {
                    texts.push(mutate(&mut rng, &t));
                    log.oblige("random_one_edit");
                }
                texts.push(t);
            }
            batch(log, "rnd", "rnd", &texts, rng.chance(1, 4));
        }

        // (4) shapes: deep chains, wide stars, combs (sizes the recursion of parser and graph builder see)
        {
            let sizes: Vec<usize> = if log.opts.thorough() { vec![50, 200, 400] } else { vec![40, 150] };
            for &n in &sizes {
                case += 1;
                if !log.mine(case) {
                    continue;
                }
                let mut texts = vec![];
                // chain: ((((x)a)a)a)a;
                let mut t = vec![b'('; n];
                t.push(b'x');
                for _ in 0..n {
                    t.extend(b")a:1");
                }
                t.push(b';');
                texts.push(t.clone());
                t.pop(); // missing ';'
                texts.push(t.clone());
                t.remove(0); // and one '(' missing
                t.push(b';');
                texts.push(t);
                // star: (a,a,...,a);
                let mut s = vec![b'('];
                for i in 0..n {
                    if i > 0 {
                        s.push(b',');
                    }
                    s.extend(b"a:2");
                }
                s.extend(b")r;");
                texts.push(s);
                // comb: (a,(a,(a,...)));
                let mut c = vec![];
                for _ in 0..n {
                    c.extend(b"(a,");
                }
                c.push(b'z');
                for _ in 0..n {
                    c.push(b')');
                }
                c.push(b';');
                texts.push(c);
                // empty chain: ((((...))));
                let mut e = vec![b'('; n];
                e.extend(vec![b')'; n]);
                e.push(b';');
                texts.push(e);
                log.oblige("deep_and_wide_shapes");
                batch(log, "shape", "shape", &texts, false);
            }
        }

        // (5) from_file: an existing file and a missing one
        {
            case += 1;
            if log.mine(case) && log.begin("file", json!({"grp": "file"})) {
                let dir = std::env::temp_dir().join(format!("verif-newick-{}-{}", std::process::id(), seed));
                let _ = std::fs::create_dir_all(&dir);
                for (i, t) in [&b"(A:1,B)C;"[..], &b"(A,B"[..], &[0xff, b';'][..]].iter().enumerate() {
                    let p = dir.join(format!("t{}.nwk", i));
                    std::fs::write(&p, t).unwrap();
                    log.call("from_file", json!({"s": bytes(t), "exists": 1}), || project_res(newick::from_file(&p)));
                }
                let p = dir.join("missing.nwk");
                log.call("from_file", json!({"s": [], "exists": 0}), || project_res(newick::from_file(&p)));
                let _ = std::fs::remove_dir_all(&dir);
                log.oblige("from_file_missing");
            }
        }
    }
}

#[cfg(feature = "phylogeny")]
fn main() {
    bio_verif_harness::run(imp::drive)
}

#[cfg(not(feature = "phylogeny"))]
fn main() {
    use std::os::unix::process::CommandExt;
    let real = std::env::current_exe()
        .ok()
        .and_then(|p| p.parent().and_then(|d| d.parent()).map(|t| t.join("x05-newick").join("release").join("newick")));
    match real {
        Some(p) if p.exists() => {
            let e = std::process::Command::new(&p).args(std::env::args().skip(1)).exec();
            eprintln!("newick driver: cannot exec {}: {}", p.display(), e);
        }
        _ => eprintln!("newick driver: built without the phylogeny feature and target/x05-newick/release/newick is missing (tools/props/X05.py builds it)"),
    }
    std::process::exit(2);
}
