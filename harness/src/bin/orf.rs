//! C20 — ORF finder. One run = one `Finder` (start codons, stop codons, min_len) applied to several
//! sequences; event `find_all(t)` records every reported Orf in iterator order.
use bio::seq_analysis::orf::{Finder, Orf};
use bio_verif_harness::{bytes, Log, Rng};
use serde_json::{json, Value};

type Codon = [u8; 3];

fn codons_json(cs: &[Codon]) -> Value {
    Value::Array(cs.iter().map(|c| bytes(&c[..])).collect())
}

/// returns, per sequence, the reported (start, end, offset) triples (used only to pick further
/// inputs and to count coverage; never compared with anything)
fn run_finder(
    log: &mut Log,
    tag: &str,
    starts: &[Codon],
    stops: &[Codon],
    min_len: usize,
    seqs: &[Vec<u8>],
) -> Vec<Vec<(usize, usize, i8)>> {
    run_finder_opt(log, tag, starts, stops, min_len, seqs, false)
}

fn orfs_json(v: &[Orf]) -> Value {
    Value::Array(v.iter().map(|o| json!({"start": o.start, "end": o.end, "offset": o.offset})).collect())
}

/// `forks`: additionally fork (clone) the iterator after every number of items and record both
/// continuations; the Finder used is then a clone of the one constructed
fn run_finder_opt(
    log: &mut Log,
    tag: &str,
    starts: &[Codon],
    stops: &[Codon],
    min_len: usize,
    seqs: &[Vec<u8>],
    forks: bool,
) -> Vec<Vec<(usize, usize, i8)>> {
    let mut all = vec![];
    // a min_len beyond the 31-bit integers of the trace is written as a decimal string next to a stand-in
    // (2^30) that is, like the real value, larger than every sequence driven here
    let cfg = if min_len < (1 << 30) {
        json!({"starts": codons_json(starts), "stops": codons_json(stops), "min_len": min_len, "cloned": forks as u8})
    } else {
        json!({"starts": codons_json(starts), "stops": codons_json(stops), "min_len": 1 << 30,
               "min_len_exact": min_len.to_string(), "cloned": forks as u8})
    };
    if !log.begin(tag, cfg) {
        return all;
    }
    if min_len >= (1usize << 32) - 1 {
        log.oblige("orf_min_len_at_and_beyond_2p32");
    }
    if min_len == usize::MAX {
        log.oblige("orf_min_len_largest_value");
    }
    if starts.iter().any(|c| stops.contains(c)) {
        log.oblige("orf_codon_both_start_and_stop");
    }
    // the order (and repetition) of the codons handed to Finder::new is part of the input
    if starts.windows(2).any(|w| w[0] > w[1]) {
        log.oblige("orf_start_codons_not_ascending");
    }
    if stops.windows(2).any(|w| w[0] > w[1]) {
        log.oblige("orf_stop_codons_not_ascending");
    }
    if starts.windows(2).any(|w| w[0] == w[1]) || stops.windows(2).any(|w| w[0] == w[1]) {
        log.oblige("orf_repeated_codon");
    }
    let mut made: Option<Finder> = None;
    log.call("finder_new", json!({}), || {
        made = Some(Finder::new(starts.iter().collect(), stops.iter().collect(), min_len));
        json!({})
    });
    let finder0 = match made {
        Some(f) => f,
        None => return all,
    };
    // with `forks`: a copy of the Finder (clone / serde round trip / clone_from into a used Finder of another
    // configuration); the copy serves the even sequences and the forks, the original the odd ones
    let salt = (starts.len() + 2 * stops.len()).wrapping_add(min_len).wrapping_add(seqs.first().map(|t| t.len()).unwrap_or(0));
    let finder_copy = if forks {
        match salt % 3 {
            0 => {
                log.oblige("orf_finder_cloned");
                finder0.clone()
            }
            1 => {
                log.oblige("orf_finder_serde_roundtrip");
                let text = serde_json::to_string(&finder0).expect("serialize");
                serde_json::from_str(&text).expect("deserialize")
            }
            _ => {
                log.oblige("orf_finder_clone_from_into_used_object");
                let mut used = Finder::new(vec![b"CCC"], vec![b"GGG", b"AAA"], 7);
                let _ = used.find_all(b"CCCAAAGGGCCCGGG").count();
                used.clone_from(&finder0);
                used
            }
        }
    } else {
        finder0.clone()
    };
    let mut seq_no = 0usize;
    for t in seqs {
        seq_no += 1;
        let finder: &Finder = if forks && seq_no % 2 == 0 { &finder0 } else { &finder_copy };
        if forks && seq_no == 2 {
            log.oblige("orf_finder_original_and_copy_both_continue");
        }
        let mut got: Vec<(usize, usize, i8)> = vec![];
        log.call("find_all", json!({"t": bytes(t)}), || {
            let v: Vec<Orf> = finder.find_all(t).collect();
            got = v.iter().map(|o| (o.start, o.end, o.offset)).collect();
            json!({"v": v.iter().map(|o| json!({"start": o.start, "end": o.end, "offset": o.offset})).collect::<Vec<_>>()})
        });
        // coverage counters over what came back
        let mut offs = [false; 3];
        for (i, a) in got.iter().enumerate() {
            if (0..3).contains(&a.2) {
                offs[a.2 as usize] = true;
            }
            for b in got.iter().skip(i + 1) {
                if a.1 == b.1 {
                    log.oblige("orf_nested_starts");
                }
                if a.2 != b.2 && a.0 < b.1 && b.0 < a.1 {
                    log.oblige("orf_overlapping_frames");
                }
            }
        }
        if offs[0] && offs[1] && offs[2] {
            log.oblige("orf_three_frames");
        }
        if !got.is_empty() {
            log.oblige("nontrivial");
        }
        if t.len() < 3 {
            log.oblige("orf_shorter_than_codon");
        }
        if forks && got.len() <= 16 {
            let mut pending_split = false;
            log.call("forks", json!({"t": bytes(t)}), || {
                let total = finder.find_all(t).count();
                let mut v = vec![];
                for k in 0..=total {
                    let mut it = finder.find_all(t);
                    let h: Vec<Orf> = it.by_ref().take(k).collect();
                    let c = it.clone();
                    let a: Vec<Orf> = it.collect();
                    let b: Vec<Orf> = c.collect();
                    // the fork falls between two ORFs closed by the same stop codon: one is still queued
                    if let (Some(x), Some(y)) = (h.last(), a.first()) {
                        if x.end == y.end {
                            pending_split = true;
                        }
                    }
                    v.push(json!({"h": orfs_json(&h), "a": orfs_json(&a), "b": orfs_json(&b)}));
                }
                json!({ "v": v })
            });
            log.oblige("orf_iterator_forked_at_every_position");
            // the same iterator consumed through other methods, and fed from other kinds of iterators
            log.call("iters", json!({"t": bytes(t)}), || {
                let all: Vec<Orf> = finder.find_all(t).collect();
                json!({
                    "all": orfs_json(&all),
                    "count": finder.find_all(t).count(),
                    "last": orfs_json(&finder.find_all(t).last().into_iter().collect::<Vec<Orf>>()),
                    "nth1": orfs_json(&finder.find_all(t).nth(1).into_iter().collect::<Vec<Orf>>()),
                    "skip1": orfs_json(&finder.find_all(t).skip(1).collect::<Vec<Orf>>()),
                    "step2": orfs_json(&finder.find_all(t).step_by(2).collect::<Vec<Orf>>()),
                    "byval": orfs_json(&finder.find_all(t.iter().cloned()).collect::<Vec<Orf>>()),
                    "owned": orfs_json(&finder.find_all(t.clone()).collect::<Vec<Orf>>()),
                    "filt": orfs_json(&finder.find_all(t.iter().filter(|_| true)).collect::<Vec<Orf>>()),
                    "flat": orfs_json(&finder.find_all(t.chunks(2).flat_map(|c| c.iter())).collect::<Vec<Orf>>()),
                })
            });
            log.oblige("orf_iterator_adaptors_and_input_kinds");
            if pending_split {
                log.oblige("orf_fork_with_found_orfs_pending");
            }
        }
        all.push(got);
    }
    all
}

const STD_STARTS: [Codon; 1] = [*b"ATG"];
const STD_STOPS: [Codon; 3] = [*b"TGA", *b"TAG", *b"TAA"];

fn codon_sets(variant: u64) -> (Vec<Codon>, Vec<Codon>, Vec<u8>) {
    match variant % 11 {
        0 => (STD_STARTS.to_vec(), STD_STOPS.to_vec(), b"ACGT".to_vec()),
        1 => (vec![*b"ATG", *b"GTG", *b"TTG"], vec![*b"TAA"], b"ATG".to_vec()),
        2 => (vec![[0, 255, 7], [7, 7, 7]], vec![[1, 1, 1], [255, 0, 7]], vec![0, 1, 7, 255]),
        3 => (vec![*b"atg"], vec![*b"taa", *b"tag"], b"atgATG".to_vec()),
        // the same sets in other orders (descending, rotated) and with a codon given twice
        4 => (vec![*b"TTG", *b"GTG", *b"ATG"], vec![*b"TAA", *b"TAG", *b"TGA"], b"ATG".to_vec()),
        5 => (vec![*b"GTG", *b"ATG", *b"TTG", *b"ATG"], vec![*b"TAG", *b"TAA", *b"TAG"], b"ATG".to_vec()),
        6 => (vec![[7, 7, 7], [0, 255, 7], [7, 0, 7]], vec![[255, 0, 7], [1, 1, 1]], vec![0, 1, 7, 255]),
        7 => (vec![*b"ATG", *b"ATG"], vec![*b"TGA", *b"TGA", *b"TAA"], b"ACGT".to_vec()),
        // a codon in both sets: it closes the open frames of its reading frame (and its own, 3 long)
        8 => (vec![*b"ATG", *b"TGA"], vec![*b"TGA", *b"TAA"], b"ATG".to_vec()),
        9 => (vec![*b"TAA", *b"ATG", *b"GTG"], vec![*b"TAG", *b"TAA"], b"ATG".to_vec()),
        _ => (vec![[7, 7, 7], [0, 7, 7]], vec![[7, 7, 7], [0, 7, 7], [7, 0, 0]], vec![0, 7]),
    }
}

/// codon soup: start codons, stop codons, random triplets and single symbols (frame shifts)
fn soup(rng: &mut Rng, n: usize, starts: &[Codon], stops: &[Codon], alpha: &[u8]) -> Vec<u8> {
    let mut t = Vec::with_capacity(n + 3);
    let p_stop = rng.range(5, 25) as u64;
    while t.len() < n {
        let r = rng.below(100);
        if r < 25 {
            t.extend_from_slice(&rng.pick(starts)[..]);
        } else if r < 25 + p_stop {
            t.extend_from_slice(&rng.pick(stops)[..]);
        } else if r < 90 {
            for _ in 0..3 {
                t.push(*rng.pick(alpha));
            }
        } else {
            t.push(*rng.pick(alpha));
        }
    }
    t.truncate(n);
    t
}

pub fn drive(log: &mut Log) {
    let seed = log.opts.seed;
    let thorough = log.opts.thorough();
    let mut case: u64 = 0;
    let minlens: [usize; 7] = [0, 1, 3, 4, 5, 6, 30];

    // (a) every sequence over {A,T,G} up to length 9 (10 thorough), runs of 250 sequences,
    //     min_len rotating over the small values
    let maxl = if thorough { 10 } else { 9 };
    let mut batch: Vec<Vec<u8>> = vec![];
    let mut cur: Vec<Vec<u8>> = vec![vec![]];
    let mut flush = |batch: &mut Vec<Vec<u8>>, case: &mut u64, log: &mut Log| {
        if batch.is_empty() {
            return;
        }
        *case += 1;
        if log.mine(*case) {
            let ml = minlens[((*case + seed) % 6) as usize];
            run_finder(log, "ex", &STD_STARTS, &STD_STOPS, ml, batch);
        }
        batch.clear();
    };
    batch.push(vec![]);
    for _ in 1..=maxl {
        let mut nxt = Vec::with_capacity(cur.len() * 3);
        for s in &cur {
            for &c in b"ATG" {
                let mut t = s.clone();
                t.push(c);
                nxt.push(t);
            }
        }
        for t in &nxt {
            batch.push(t.clone());
            if batch.len() == 250 {
                flush(&mut batch, &mut case, log);
            }
        }
        cur = nxt;
    }
    flush(&mut batch, &mut case, log);
    log.oblige("orf_exhaustive_small");

    // (a') the same enumeration up to length 8 with TGA being a start AND a stop codon (the model-checked
    //      overlap configuration), min_len rotating over 0, 3, 1
    {
        let starts: [Codon; 2] = [*b"ATG", *b"TGA"];
        let stops: [Codon; 2] = [*b"TGA", *b"TAA"];
        let mut cur: Vec<Vec<u8>> = vec![vec![]];
        let mut batch: Vec<Vec<u8>> = vec![];
        for l in 1..=8 {
            let mut nxt = Vec::with_capacity(cur.len() * 3);
            for s in &cur {
                for &c in b"ATG" {
                    let mut t = s.clone();
                    t.push(c);
                    nxt.push(t);
                }
            }
            if l >= 3 {
                for t in &nxt {
                    batch.push(t.clone());
                    if batch.len() == 250 {
                        case += 1;
                        if log.mine(case) {
                            run_finder(log, "ov", &starts, &stops, [0usize, 3, 1][(case % 3) as usize], &batch);
                        }
                        batch.clear();
                    }
                }
            }
            cur = nxt;
        }
        case += 1;
        if log.mine(case) && !batch.is_empty() {
            run_finder(log, "ov", &starts, &stops, 0, &batch);
        }
    }

    // (c) codons containing 0x00 in each position (and other "default" bytes), sequences whose head is a
    //     proper suffix of a start/stop codon followed by in-frame filler and a stop codon, and every
    //     sequence shorter than a codon: nothing may be matched before three symbols have been read
    {
        let sets: Vec<(Vec<Codon>, Vec<Codon>)> = vec![
            (vec![[0, 0, b'A'], [0, b'A', b'T']], vec![[b'T', 0, 0], [b'T', b'A', b'G']]),
            (vec![[0, 0, 0]], vec![[1, 0, 0], [0, 1, 0]]),
            (vec![[b'A', 0, b'G'], [0, 0, 1]], vec![[0, 0, 0], [b'T', b'A', 0]]),
            (vec![[b' ', b' ', b'A'], [255, 255, b'A']], vec![[b'T', b'A', b'A']]),
        ];
        for (si, (starts, stops)) in sets.iter().enumerate() {
            for ml in [0usize, 1, 3] {
                case += 1;
                if !log.mine(case) {
                    continue;
                }
                let mut rng = Rng::new(seed, 33, case);
                let mut alpha: Vec<u8> = vec![0, 1, b'A', b'T', b'G'];
                for c in starts.iter().chain(stops.iter()) {
                    alpha.extend_from_slice(&c[..]);
                }
                alpha.sort_unstable();
                alpha.dedup();
                let mut seqs: Vec<Vec<u8>> = vec![vec![]];
                // every sequence of length 1 and 2 over the alphabet
                for &a in &alpha {
                    seqs.push(vec![a]);
                    for &b in &alpha {
                        seqs.push(vec![a, b]);
                    }
                }
                for c in starts.iter().chain(stops.iter()) {
                    for l in 1..=2usize {
                        let head = &c[3 - l..];
                        for stop in stops.iter() {
                            for t in 0..3usize {
                                // head, t filler triplets that are neither start nor stop, an in-frame stop
                                let mut s = head.to_vec();
                                for _ in 0..t {
                                    s.extend_from_slice(&[b'G', b'G', b'G']);
                                }
                                s.extend_from_slice(&stop[..]);
                                let extra = rng.below(4) as usize;
                                s.extend(rng.seq(extra, &alpha));
                                seqs.push(s);
                            }
                        }
                        // the same head in front of a soup
                        let mut s = head.to_vec();
                        s.extend(soup(&mut rng, 30, starts, stops, &alpha));
                        seqs.push(s);
                    }
                }
                run_finder(log, "nul", starts, stops, ml, &seqs);
                if si < 3 {
                    log.oblige("orf_codons_with_nul_and_suffix_heads");
                }
            }
        }
    }

    // (m) min_len at and beyond 2^32 (and the largest value): nothing is long enough
    for (mi, &ml) in [(1usize << 32) - 1, 1 << 32, (1 << 32) + 5, 1 << 40, 3 << 32, (1 << 32) + 3, usize::MAX - 2, usize::MAX]
        .iter()
        .enumerate()
    {
        case += 1;
        if !log.mine(case) {
            continue;
        }
        let mut rng = Rng::new(seed, 34, case);
        let (starts, stops, alpha) = codon_sets(mi as u64);
        let mut seqs: Vec<Vec<u8>> = vec![vec![], b"ATGTAG".to_vec(), b"ATGAAATAG".to_vec(), b"ATGATGAAAAAATAGTAG".to_vec()];
        for n in [12usize, 60, 200, 300] {
            seqs.push(soup(&mut rng, n, &starts, &stops, &alpha));
        }
        run_finder_opt(log, "ml", &starts, &stops, ml, &seqs, mi % 2 == 0);
        run_finder(log, "ml", &STD_STARTS, &STD_STOPS, ml, &seqs);
    }

    // (b) codon soups up to 300 symbols, four start/stop sets, all listed min_len values, then
    //     min_len placed around the lengths that were reported (the > / >= boundary)
    let nsoup = log.opts.n(48, 600);
    for i in 0..nsoup {
        case += 1;
        if !log.mine(case) {
            continue;
        }
        let mut rng = Rng::new(seed, 31, case);
        let (starts, stops, alpha) = codon_sets(i);
        if i % 11 == 2 || i % 11 == 3 || i % 11 == 6 || i % 11 == 10 {
            log.oblige("orf_nonstandard_codons");
        }
        let n = match i % 3 {
            0 => rng.range(0, 40),
            1 => rng.range(40, 120),
            _ => rng.range(120, 300),
        } as usize;
        let seqs: Vec<Vec<u8>> = (0..4).map(|_| soup(&mut rng, n, &starts, &stops, &alpha)).collect();
        let ml = minlens[(i / 4 % 7) as usize];
        run_finder(log, "sp", &starts, &stops, ml, &seqs);
        run_finder_opt(log, "fk", &starts, &stops, ml, &seqs[1..3], true);
        let base = run_finder_opt(log, "s0", &starts, &stops, 0, &seqs[..1], true);
        // lengths seen with min_len = 0 -> min_len in {L-3 .. L+1}
        let mut lens: Vec<usize> = base.iter().flatten().map(|o| o.1 - o.0).collect();
        lens.sort_unstable();
        lens.dedup();
        if !lens.is_empty() {
            let l = *rng.pick(&lens);
            for d in 0..5usize {
                let ml = (l + 1).saturating_sub(d); // L+1, L, L-1, L-2, L-3
                run_finder(log, "bd", &starts, &stops, ml, &seqs[..1]);
                log.oblige("orf_minlen_boundary");
            }
        }
    }
}

fn main() {
    bio_verif_harness::run(drive)
}
