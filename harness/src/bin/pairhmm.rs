//! X01 — pair HMMs (`bio::stats::pairhmm::{PairHMM, HomopolyPairHMM}`).
//!
//! One run = one HMM object (the gap parameters are fixed by `new`), used for several
//! `prob_related` calls with different sequences lengths, emission tables, alignment modes
//! and bands (object reuse: the plain PairHMM keeps its DP columns between calls).
//!
//! All parameters are integer numerators over a common denominator `den` (what TLC computes
//! with, exactly). The parameter structs handed to rust-bio implement the model traits from
//! these logged tables. The harness does only the projection between the two number worlds:
//!   in : numerator k -> LogProb(ln(k / den))
//!   out: LogProb lp  -> round(exp(lp) * den^(2(lx+ly)+1))   (+ flags nan / posinf / neginf)
//! No expected value is computed anywhere.
use bio::stats::pairhmm::{
    Emission, EmissionParameters, GapParameters, HomopolyPairHMM, HopParameters, PairHMM, StartEndGapParameters,
    XYEmission,
};
use bio::stats::LogProb;
use bio_verif_harness::{Log, Rng};
use serde_json::{json, Value};

fn lp(k: u32, den: u32) -> LogProb {
    LogProb((k as f64 / den as f64).ln())
}

#[derive(Clone)]
struct Gap {
    den: u32,
    gx: u32,
    gy: u32,
    gxe: u32,
    gye: u32,
}
impl GapParameters for Gap {
    fn prob_gap_x(&self) -> LogProb {
        lp(self.gx, self.den)
    }
    fn prob_gap_y(&self) -> LogProb {
        lp(self.gy, self.den)
    }
    fn prob_gap_x_extend(&self) -> LogProb {
        lp(self.gxe, self.den)
    }
    fn prob_gap_y_extend(&self) -> LogProb {
        lp(self.gye, self.den)
    }
}

/// no homopolymer runs: every hop probability is zero
struct Hop0;
impl HopParameters for Hop0 {
    fn prob_hop_x(&self) -> LogProb {
        LogProb::ln_zero()
    }
    fn prob_hop_y(&self) -> LogProb {
        LogProb::ln_zero()
    }
    fn prob_hop_x_extend(&self) -> LogProb {
        LogProb::ln_zero()
    }
    fn prob_hop_y_extend(&self) -> LogProb {
        LogProb::ln_zero()
    }
}

#[derive(Clone)]
struct Emis {
    den: u32,
    bx: Vec<u8>,         // bases 0..3 (A C G T)
    by: Vec<u8>,
    exy: Vec<Vec<u32>>,  // lx x ly numerators
    mt: Vec<Vec<u32>>,   // 1 = XYEmission::Match, 0 = Mismatch
    ex: Vec<u32>,
    ey: Vec<u32>,
}
const BASES: [u8; 4] = [b'A', b'C', b'G', b'T'];
impl EmissionParameters for Emis {
    fn prob_emit_xy(&self, i: usize, j: usize) -> XYEmission {
        let p = lp(self.exy[i][j], self.den);
        if self.mt[i][j] == 1 {
            XYEmission::Match(p)
        } else {
            XYEmission::Mismatch(p)
        }
    }
    fn prob_emit_x(&self, i: usize) -> LogProb {
        lp(self.ex[i], self.den)
    }
    fn prob_emit_y(&self, j: usize) -> LogProb {
        lp(self.ey[j], self.den)
    }
    fn len_x(&self) -> usize {
        self.bx.len()
    }
    fn len_y(&self) -> usize {
        self.by.len()
    }
}
impl Emission for Emis {
    fn emission_x(&self, i: usize) -> u8 {
        BASES[self.bx[i] as usize]
    }
    fn emission_y(&self, j: usize) -> u8 {
        BASES[self.by[j] as usize]
    }
}

/// alignment mode that keeps the trait's default `prob_start_gap_x`
struct ModeDefault {
    fs: bool,
    fe: bool,
}
impl StartEndGapParameters for ModeDefault {
    fn free_start_gap_x(&self) -> bool {
        self.fs
    }
    fn free_end_gap_x(&self) -> bool {
        self.fe
    }
}
/// alignment mode with start probabilities from a table
struct ModeTable {
    fs: bool,
    fe: bool,
    den: u32,
    sp: Vec<u32>,
}
impl StartEndGapParameters for ModeTable {
    fn prob_start_gap_x(&self, i: usize) -> LogProb {
        lp(self.sp[i], self.den)
    }
    fn free_start_gap_x(&self) -> bool {
        self.fs
    }
    fn free_end_gap_x(&self) -> bool {
        self.fe
    }
}

#[derive(Clone)]
struct Call {
    em: Emis,
    fs: bool,
    fe: bool,
    spdef: bool,   // true: the trait's default prob_start_gap_x is used (sp = den / 0 everywhere as documented)
    sp: Vec<u32>,  // start numerators per x offset
    band: i64,     // -1 = None, -2 = Some(usize::MAX), k >= 0 = Some(k)
}

fn proj(lpv: f64, scale: f64) -> Value {
    if lpv.is_nan() {
        json!({"p": -1, "nan": 1, "posinf": 0, "neginf": 0})
    } else if lpv == f64::INFINITY {
        json!({"p": -1, "nan": 0, "posinf": 1, "neginf": 0})
    } else if lpv == f64::NEG_INFINITY {
        json!({"p": 0, "nan": 0, "posinf": 0, "neginf": 1})
    } else {
        let v = (lpv.exp() * scale).round();
        let p: i64 = if v > 2.0e9 { 2_000_000_000 } else { v as i64 };
        json!({"p": p, "nan": 0, "posinf": 0, "neginf": 0})
    }
}

fn rows_json(r: &[Vec<u32>]) -> Value {
    Value::Array(r.iter().map(|x| json!(x)).collect())
}

enum Obj {
    Plain(PairHMM),
    Homo(HomopolyPairHMM),
}

fn run_object(log: &mut Log, tag: &str, kind: &'static str, gap: &Gap, calls: &[Call]) {
    let cfg = json!({"kind": kind, "den": gap.den, "gx": gap.gx, "gy": gap.gy, "gxe": gap.gxe, "gye": gap.gye});
    if !log.begin(tag, cfg) {
        return;
    }
    let mut obj: Option<Obj> = None;
    log.call("new", json!({}), || {
        obj = Some(if kind == "plain" { Obj::Plain(PairHMM::new(gap)) } else { Obj::Homo(HomopolyPairHMM::new(gap, &Hop0)) });
        json!({"built": 1})
    });
    let mut obj = match obj {
        Some(o) => o,
        None => return,
    };
    for c in calls {
        let lx = c.em.bx.len();
        let ly = c.em.by.len();
        let scale = (gap.den as f64).powi(2 * (lx + ly) as i32 + 1);
        let band = match c.band {
            -1 => None,
            -2 => Some(usize::MAX),
            k => Some(k as usize),
        };
        let args = json!({"lx": lx, "ly": ly, "bx": c.em.bx, "by": c.em.by, "exy": rows_json(&c.em.exy),
            "mt": rows_json(&c.em.mt), "ex": c.em.ex, "ey": c.em.ey,
            "fs": c.fs as u32, "fe": c.fe as u32, "spdef": c.spdef as u32, "sp": c.sp, "band": c.band});
        log.call("prob_related", args, || {
            let r = if c.spdef {
                let mode = ModeDefault { fs: c.fs, fe: c.fe };
                match &mut obj {
                    Obj::Plain(h) => h.prob_related(&c.em, &mode, band),
                    Obj::Homo(h) => h.prob_related(&c.em, &mode, band),
                }
            } else {
                let mode = ModeTable { fs: c.fs, fe: c.fe, den: gap.den, sp: c.sp.clone() };
                match &mut obj {
                    Obj::Plain(h) => h.prob_related(&c.em, &mode, band),
                    Obj::Homo(h) => h.prob_related(&c.em, &mode, band),
                }
            };
            let mut v = proj(*r, scale);
            v["scale"] = json!(scale as i64);
            v
        });
    }
}

/// largest lx+ly with den^(2(lx+ly)+1) <= 2^29
fn nmax(den: u32) -> usize {
    match den {
        2 => 14,
        3 => 8,
        4 => 6,
        5 => 5,
        _ => 3,
    }
}

/// emission style: 0 anything, 1 high (den-1 / den), 2 sparse (many zeros), 3 all one (= den: sums exceed 1), 4 uniform mid
fn num(rng: &mut Rng, den: u32, style: u64) -> u32 {
    match style {
        0 => rng.below(den as u64 + 1) as u32,
        1 => den - rng.below(2) as u32,
        2 => {
            if rng.chance(1, 2) {
                0
            } else {
                1 + rng.below(den as u64) as u32
            }
        }
        3 => den,
        _ => (den + 1) / 2,
    }
}

fn rand_emis(rng: &mut Rng, den: u32, lx: usize, ly: usize, style: u64, acgt_consistent: bool) -> Emis {
    let nb = if rng.coin() { 2 } else { 4 };
    let bx: Vec<u8> = (0..lx).map(|_| rng.below(nb) as u8).collect();
    let by: Vec<u8> = (0..ly).map(|_| rng.below(nb) as u8).collect();
    let mut exy = vec![vec![0u32; ly]; lx];
    let mut mt = vec![vec![0u32; ly]; lx];
    for i in 0..lx {
        for j in 0..ly {
            exy[i][j] = num(rng, den, style);
            mt[i][j] = if acgt_consistent || rng.chance(3, 4) { (bx[i] == by[j]) as u32 } else { rng.below(2) as u32 };
        }
    }
    let ex = (0..lx).map(|_| num(rng, den, style)).collect();
    let ey = (0..ly).map(|_| num(rng, den, style)).collect();
    Emis { den, bx, by, exy, mt, ex, ey }
}

fn rand_gap(rng: &mut Rng, den: u32, style: u64) -> Gap {
    // style 0: anything with gx+gy < den; 1: no extension; 2: no gaps at all; 3: asymmetric extensions;
    // 4: gx + gy = den (no_gap = 0)
    match style {
        1 => {
            let gx = rng.below(den as u64) as u32;
            let gy = rng.below((den - gx) as u64) as u32;
            Gap { den, gx, gy, gxe: 0, gye: 0 }
        }
        2 => Gap { den, gx: 0, gy: 0, gxe: 0, gye: 0 },
        3 => {
            let gx = 1 + rng.below(den as u64 - 1) as u32;
            let gy = rng.below((den - gx) as u64) as u32;
            let gxe = rng.below(den as u64 + 1) as u32;
            let mut gye = rng.below(den as u64 + 1) as u32;
            if gye == gxe {
                gye = (gxe + 1) % (den + 1);
            }
            Gap { den, gx, gy: gy.max(1).min(den - gx), gxe, gye }
        }
        4 => {
            let gx = rng.below(den as u64 + 1) as u32;
            Gap { den, gx, gy: den - gx, gxe: rng.below(den as u64 + 1) as u32, gye: rng.below(den as u64 + 1) as u32 }
        }
        _ => {
            let gx = rng.below(den as u64) as u32;
            let gy = rng.below((den - gx) as u64) as u32;
            Gap { den, gx, gy, gxe: rng.below(den as u64 + 1) as u32, gye: rng.below(den as u64 + 1) as u32 }
        }
    }
}

fn mode_call(rng: &mut Rng, em: Emis, fs: bool, fe: bool, custom_sp: bool, band: i64) -> Call {
    let den = em.den;
    let lx = em.bx.len();
    if custom_sp {
        let sp = (0..lx).map(|_| rng.below(den as u64 + 1) as u32).collect();
        Call { em, fs, fe, spdef: false, sp, band }
    } else {
        let sp = vec![if fs { den } else { 0 }; lx];
        Call { em, fs, fe, spdef: true, sp, band }
    }
}

pub fn drive(log: &mut Log) {
    let seed = log.opts.seed;
    let mut case: u64 = 0;

    // (0) spec -> impl: the family of the MC run (den = 2, lx, ly <= 2, reduced emission family), every
    // alignment mode, replayed into the real code. Quick: one quarter (selected by the seed).
    {
        let gaps: Vec<(u32, u32)> = vec![(0, 0), (0, 1), (1, 0), (1, 1), (0, 2), (2, 0)];
        let mut k: u64 = 0;
        for &(gx, gy) in &gaps {
            for gxe in 0..=2u32 {
                for gye in 0..=2u32 {
                    for lx in 1..=2usize {
                        for ly in 1..=2usize {
                            for code in 0..(1u32 << (lx * ly)) {
                                k += 1;
                                case += 1;
                                if !log.opts.thorough() && k % 4 != seed % 4 {
                                    continue;
                                }
                                if !log.mine(case) {
                                    continue;
                                }
                                let mut rng = Rng::new(seed, 100, case);
                                let gap = Gap { den: 2, gx, gy, gxe, gye };
                                let mut exy = vec![vec![0u32; ly]; lx];
                                let mut mt = vec![vec![0u32; ly]; lx];
                                for i in 0..lx {
                                    for j in 0..ly {
                                        let bit = (code >> (i * ly + j)) & 1;
                                        exy[i][j] = 1 + bit;
                                        mt[i][j] = bit;
                                    }
                                }
                                let ex: Vec<u32> = (0..lx).map(|_| 1 + rng.below(2) as u32).collect();
                                let ey: Vec<u32> = (0..ly).map(|_| 1 + rng.below(2) as u32).collect();
                                let em = Emis { den: 2, bx: vec![0; lx], by: vec![0; ly], exy, mt, ex, ey };
                                let mut calls = vec![];
                                for m in 0..4u32 {
                                    let c = mode_call(&mut rng, em.clone(), m & 1 == 1, m & 2 == 2, false, -1);
                                    calls.push(c);
                                }
                                calls.push(mode_call(&mut rng, em.clone(), true, true, true, -1));
                                log.oblige("mc_family");
                                run_object(log, "ex", "plain", &gap, &calls);
                            }
                        }
                    }
                }
            }
        }
    }

    // (a) general random models: all modes, default and tabulated start probabilities, no band
    for _ in 0..log.opts.n(900, 8000) {
        case += 1;
        if !log.mine(case) {
            continue;
        }
        let mut rng = Rng::new(seed, 101, case);
        let den = *rng.pick(&[2u32, 3, 4, 5, 10]);
        let gs = *rng.pick(&[0u64, 0, 0, 1, 2, 3, 3]);
        let gap = rand_gap(&mut rng, den, gs);
        if gs == 3 {
            log.oblige("asymmetric_extend");
        }
        if gs == 1 {
            log.oblige("no_extend");
        }
        let mut calls = vec![];
        for _ in 0..rng.range(3, 5) {
            let n = std::cmp::min(nmax(den), 6);
            let lx = rng.range(0, std::cmp::min(n, 4) as i64) as usize;
            let ly = rng.range(0, std::cmp::min(n - lx, 3) as i64) as usize;
            let style = *rng.pick(&[0u64, 0, 1, 2, 3, 4]);
            let em = rand_emis(&mut rng, den, lx, ly, style, false);
            let fs = rng.coin();
            let fe = rng.coin();
            let custom = rng.chance(1, 3);
            if lx == 0 || ly == 0 {
                log.oblige("empty_sequence");
            }
            if fs && !fe || !fs && fe {
                log.oblige("mixed_mode");
            }
            if custom {
                log.oblige("start_table");
            }
            if style == 3 {
                log.oblige("sum_exceeds_one");
            }
            if style == 2 {
                log.oblige("zero_emissions");
            }
            calls.push(mode_call(&mut rng, em, fs, fe, custom, -1));
        }
        log.oblige("object_reuse");
        run_object(log, "rnd", "plain", &gap, &calls);
    }

    // (b) semiglobal with a longer x: many start and end offsets
    for _ in 0..log.opts.n(300, 2500) {
        case += 1;
        if !log.mine(case) {
            continue;
        }
        let mut rng = Rng::new(seed, 102, case);
        let den = *rng.pick(&[2u32, 2, 3]);
        let gs = *rng.pick(&[0u64, 3]);
        let gap = rand_gap(&mut rng, den, gs);
        let mut calls = vec![];
        for _ in 0..3 {
            let lx = rng.range(3, 6) as usize;
            let ly = rng.range(1, 2) as usize;
            let style = *rng.pick(&[0u64, 1, 4]);
            let em = rand_emis(&mut rng, den, lx, ly, style, false);
            let custom = rng.coin();
            calls.push(mode_call(&mut rng, em, true, true, custom, -1));
        }
        log.oblige("semiglobal_long_x");
        run_object(log, "semi", "plain", &gap, &calls);
    }

    // (c) banded: a band that covers everything (= the unbanded result), then narrow bands (never more than
    // the unbanded result), on the same object and the same tables
    for _ in 0..log.opts.n(500, 4000) {
        case += 1;
        if !log.mine(case) {
            continue;
        }
        let mut rng = Rng::new(seed, 103, case);
        let den = *rng.pick(&[2u32, 3, 4]);
        let gs = *rng.pick(&[0u64, 0, 1, 3]);
        let gap = rand_gap(&mut rng, den, gs);
        let mut calls = vec![];
        for _ in 0..2 {
            let lx = rng.range(1, 4) as usize;
            let ly = rng.range(1, std::cmp::min(nmax(den) - lx, 3) as i64) as usize;
            let style = *rng.pick(&[0u64, 1, 1, 4]);
            let em = rand_emis(&mut rng, den, lx, ly, style, false);
            let fs = rng.coin();
            let fe = rng.coin();
            let custom = rng.chance(1, 4);
            let base = mode_call(&mut rng, em, fs, fe, custom, -1);
            let mut full = base.clone();
            full.band = if rng.coin() { (lx + ly) as i64 } else { -2 };
            if !fs {
                log.oblige("band_global");
            }
            log.oblige("band_covering");
            calls.push(base.clone());
            calls.push(full);
            let mut narrow = base.clone();
            narrow.band = rng.range(0, 2);
            log.oblige("band_narrow");
            calls.push(narrow);
        }
        run_object(log, "band", "plain", &gap, &calls);
    }

    // (d) homopolymer variant with all hop probabilities zero (bases consistent with the match flags)
    for _ in 0..log.opts.n(500, 4000) {
        case += 1;
        if !log.mine(case) {
            continue;
        }
        let mut rng = Rng::new(seed, 104, case);
        let den = *rng.pick(&[2u32, 3, 4, 5]);
        let gs = *rng.pick(&[0u64, 0, 1, 2, 3]);
        let gap = rand_gap(&mut rng, den, gs);
        let mut calls = vec![];
        for _ in 0..3 {
            let n = std::cmp::min(nmax(den), 6);
            let lx = rng.range(1, std::cmp::min(n - 1, 4) as i64) as usize;
            let ly = rng.range(1, std::cmp::min(n - lx, 3) as i64) as usize;
            let style = *rng.pick(&[0u64, 1, 4]);
            let em = rand_emis(&mut rng, den, lx, ly, style, true);
            let semi = rng.chance(1, 3);
            if semi {
                log.oblige("homopoly_semiglobal");
            }
            let band = match rng.below(6) {
                0 => (lx + ly) as i64,
                1 => rng.range(0, 2),
                _ => -1,
            };
            if band >= 0 {
                log.oblige("homopoly_band");
            }
            calls.push(mode_call(&mut rng, em, semi, semi, false, band));
        }
        log.oblige("homopoly_no_hops");
        run_object(log, "homo", "homopoly", &gap, &calls);
    }

    // (f) a match cell whose diagonal predecessor (3,2) has no match mass (exy = 0 there) while both of
    // its gap states are populated (X from the match mass of (2,2), Y from an alignment that starts at
    // x offset 2): the three-way sum of the match recurrence at (4,3) sees (0, x, y)
    for _ in 0..log.opts.n(200, 1500) {
        case += 1;
        if !log.mine(case) {
            continue;
        }
        let mut rng = Rng::new(seed, 106, case);
        let den = *rng.pick(&[2u32, 3]);
        let gx = 1 + rng.below(den as u64 - 1) as u32;
        let gy = 1 + rng.below((den - gx) as u64) as u32;
        if gx + gy > den {
            continue;
        }
        let gap = Gap { den, gx, gy, gxe: rng.below(den as u64) as u32, gye: rng.below(den as u64) as u32 };
        let style = *rng.pick(&[1u64, 4]);
        let mut em = rand_emis(&mut rng, den, 4, 3, style, false);
        em.exy[2][1] = 0;
        let fe = rng.coin();
        let c = mode_call(&mut rng, em, true, fe, false, -1);
        log.oblige("sum3_gap_origins");
        run_object(log, "sum3", "plain", &gap, &[c]);
    }

    // (e) gx + gy = den: the match state can only be left through a gap (1 - gx - gy is computed with an
    // approximate exp; PairHMM::new must not trip over the rounding error)
    for _ in 0..log.opts.n(200, 1500) {
        case += 1;
        if !log.mine(case) {
            continue;
        }
        let mut rng = Rng::new(seed, 105, case);
        let den = *rng.pick(&[2u32, 3, 4, 5, 10]);
        let gap = rand_gap(&mut rng, den, 4);
        let n = std::cmp::min(nmax(den), 5);
        let lx = rng.range(1, std::cmp::min(n - 1, 3) as i64) as usize;
        let ly = rng.range(1, std::cmp::min(n - lx, 2) as i64) as usize;
        let kind = if rng.chance(1, 3) { "homopoly" } else { "plain" };
        let em = rand_emis(&mut rng, den, lx, ly, 1, true);
        let c = mode_call(&mut rng, em, false, false, false, -1);
        log.oblige("gap_sum_one");
        run_object(log, "g1", kind, &gap, &[c]);
    }
}

fn main() {
    bio_verif_harness::run(drive)
}
