//! C01 — pairwise::Aligner. One run = one Aligner object used for many calls
//! (modes and sizes alternate, so state left behind by one call meets the next).
use bio::alignment::pairwise::{Aligner, MatchParams, Scoring};
use bio_verif_harness::aln::*;
use bio_verif_harness::{Log, Rng};
use serde_json::json;

const MODES: [&str; 4] = ["custom", "global", "semiglobal", "local"];

#[derive(Clone)]
enum Al {
    Tab(Aligner<TabFn>),
    Par(Aligner<MatchParams>),
}

// pseudo modes: operations on the object itself (no alignment is computed)
const OP_CLONE: usize = 10;
const OP_CLONE_FROM: usize = 11;
const OP_SERDE: usize = 12;

/// clip penalties set through Scoring's builder methods (xclip / yclip when both ends agree)
fn via_builder<F: bio::alignment::pairwise::MatchFunc>(mut s: Scoring<F>, c: &[i32; 4]) -> Scoring<F> {
    if c[0] == c[1] {
        if c[0] != MIN_SCORE {
            s = s.xclip(c[0]);
        }
    } else {
        if c[0] != MIN_SCORE {
            s = s.xclip_prefix(c[0]);
        }
        if c[1] != MIN_SCORE {
            s = s.xclip_suffix(c[1]);
        }
    }
    if c[2] == c[3] {
        if c[2] != MIN_SCORE {
            s = s.yclip(c[2]);
        }
    } else {
        if c[3] != MIN_SCORE {
            s = s.yclip_suffix(c[3]);
        }
        if c[2] != MIN_SCORE {
            s = s.yclip_prefix(c[2]);
        }
    }
    s
}

fn make(alpha: &[u8], sc: &Scheme, how: u64, cap: (usize, usize)) -> Al {
    match (sc.simple, how % 2) {
        (Some((m, mm)), 0) => {
            let mut s = Scoring::from_scores(sc.go, sc.ge, m, mm);
            if how % 5 == 4 {
                // the documented way: the builder methods of Scoring
                s = via_builder(s, &sc.clip);
            } else {
                s.xclip_prefix = sc.clip[0];
                s.xclip_suffix = sc.clip[1];
                s.yclip_prefix = sc.clip[2];
                s.yclip_suffix = sc.clip[3];
            }
            Al::Par(if how % 4 == 0 {
                Aligner::with_scoring(s)
            } else {
                Aligner::with_capacity_and_scoring(cap.0, cap.1, s)
            })
        }
        _ => {
            let f = TabFn { al: alpha.to_vec(), tab: sc.table.clone() };
            if sc.clip == [MIN_SCORE; 4] && how % 3 == 2 {
                // the constructors without a Scoring argument
                return Al::Tab(if how % 4 == 1 {
                    Aligner::new(sc.go, sc.ge, f)
                } else {
                    Aligner::with_capacity(cap.0, cap.1, sc.go, sc.ge, f)
                });
            }
            let mut s = Scoring::new(sc.go, sc.ge, f);
            // the public hint field need not describe match_fn (the banded aligner only seeds with it)
            if how % 3 == 0 {
                s.match_scores = Some(((how % 5) as i32, -((how % 4) as i32)));
            }
            if how % 5 == 4 {
                s = via_builder(s, &sc.clip);
            } else {
                s.xclip_prefix = sc.clip[0];
                s.xclip_suffix = sc.clip[1];
                s.yclip_prefix = sc.clip[2];
                s.yclip_suffix = sc.clip[3];
            }
            Al::Tab(if how % 4 == 1 {
                Aligner::with_scoring(s)
            } else {
                Aligner::with_capacity_and_scoring(cap.0, cap.1, s)
            })
        }
    }
}

fn run(log: &mut Log, tag: &str, alpha: &[u8], sc: &Scheme, how: u64, cap: (usize, usize),
       calls: &[(usize, Vec<u8>, Vec<u8>, Option<serde_json::Value>)]) {
    let mut cfg = sc.cfg();
    cfg["cap"] = json!([cap.0, cap.1]);
    cfg["how"] = json!(how % 4);
    if tag == "hv" {
        // scores of the order of MIN_SCORE / 2: judged by the heavy layer of the specification
        cfg["heavy"] = json!(1);
    }
    if !log.begin(tag, cfg) {
        return;
    }
    let mut al = make(alpha, sc, how, cap);
    let mut spare: Option<Al> = None;
    for (ci, (mode, x, y, wit)) in calls.iter().enumerate() {
        if ci % 2 == 0 {
            if let Some(sp) = spare.as_mut() {
                std::mem::swap(&mut al, sp);
            }
        }
        if *mode >= OP_CLONE {
            // the object is replaced by a copy of itself; everything after this runs on the copy
            let name = match *mode {
                OP_CLONE => "clone",
                OP_CLONE_FROM => "clone_from",
                _ => "serde",
            };
            let r = log.call(name, json!({}), || {
                match *mode {
                    OP_CLONE => {
                        // the copy goes on; the original is kept and takes every second call from now on
                        let c = al.clone();
                        spare = Some(std::mem::replace(&mut al, c));
                    }
                    OP_CLONE_FROM => {
                        // another aligner with its own scheme, capacity and one call of history
                        let mut sc2 = sc.clone();
                        for (i, c) in sc2.clip.iter_mut().enumerate() {
                            *c = [0, -1, -2, MIN_SCORE, -7][(ci + i + (how as usize)) % 5];
                        }
                        sc2.go -= 1;
                        let mut other = make(alpha, &sc2, how, (cap.1 + 2, cap.0 + 1));
                        match &mut other {
                            Al::Tab(o) => {
                                o.semiglobal(&alpha[..1], alpha);
                            }
                            Al::Par(o) => {
                                o.semiglobal(&alpha[..1], alpha);
                            }
                        }
                        match (&mut other, &al) {
                            (Al::Tab(o), Al::Tab(a)) => o.clone_from(a),
                            (Al::Par(o), Al::Par(a)) => o.clone_from(a),
                            (o, a) => *o = a.clone(),
                        }
                        al = other;
                    }
                    _ => {
                        if let Al::Par(a) = &al {
                            let txt = serde_json::to_string(a).unwrap();
                            let back: Aligner<MatchParams> = serde_json::from_str(&txt).unwrap();
                            al = Al::Par(back);
                        } else {
                            let c = al.clone();
                            al = c;
                        }
                    }
                }
                json!({})
            });
            if r["st"] != "ok" {
                return;
            }
            continue;
        }
        let mut args = json!({"x": syms(alpha, x), "y": syms(alpha, y)});
        if let Some(w) = wit {
            args["wit"] = w.clone();
        }
        let r = log.call(MODES[*mode], args, || {
            let a = match &mut al {
                Al::Tab(a) => match mode {
                    0 => a.custom(x, y),
                    1 => a.global(x, y),
                    2 => a.semiglobal(x, y),
                    _ => a.local(x, y),
                },
                Al::Par(a) => match mode {
                    0 => a.custom(x, y),
                    1 => a.global(x, y),
                    2 => a.semiglobal(x, y),
                    _ => a.local(x, y),
                },
            };
            alignment_json(&a)
        });
        if r["st"] == "ok" {
            let (m, n) = (x.len() as u64, y.len() as u64);
            if *mode == 0 {
                if r["xstart"].as_u64().unwrap_or(0) > 0 { log.oblige("custom_xclip_prefix_used"); }
                if r["xend"].as_u64().unwrap_or(m) < m { log.oblige("custom_xclip_suffix_used"); }
                if r["ystart"].as_u64().unwrap_or(0) > 0 { log.oblige("custom_yclip_prefix_used"); }
                if r["yend"].as_u64().unwrap_or(n) < n { log.oblige("custom_yclip_suffix_used"); }
                if m > 0 && r["xstart"] == r["xend"] { log.oblige("custom_fully_clipped"); }
            }
        }
        if x.is_empty() && y.is_empty() { log.oblige("both_empty"); }
        else if x.is_empty() { log.oblige("empty_x"); }
        else if y.is_empty() { log.oblige("empty_y"); }
    }
}

/// Input selection for the heavy class (not a verdict): the score of a few trivial alignments (the
/// diagonal anchored at the start or at the end with the rest as one gap or one clip; everything clipped)
/// in 64-bit arithmetic. It is a lower bound of the optimum, so inputs that pass are inside the region
/// where the specification demands an exact answer (optimum above HEAVY_TRUST = -8e8); inputs whose
/// optimum may lie in reach of the MIN_SCORE sentinel are not generated.
fn heavy_lower_bound(sc: &Scheme, x: &[u8], y: &[u8]) -> i64 {
    let idx = |b: u8| if b == b'A' { 0usize } else { 1 };
    let (m, n) = (x.len(), y.len());
    let k = m.min(n);
    let r = (m.max(n) - k) as i64;
    let gap = sc.go as i64 + r * sc.ge as i64;
    let on = |c: i32| if c == MIN_SCORE { i64::MIN / 4 } else { c as i64 };
    let [xp, xs, yp, ys] = sc.clip;
    let rest = |pre: i32, suf: i32, at_end: bool| -> i64 {
        if r == 0 { 0 } else { gap.max(on(if at_end { suf } else { pre })) }
    };
    let diag = |ox: usize, oy: usize| -> i64 { (0..k).map(|i| sc.table[idx(x[ox + i])][idx(y[oy + i])] as i64).sum() };
    // diagonal anchored at the start, the rest of the longer sequence at the end
    let a = diag(0, 0) + if m > n { rest(xp, xs, true) } else { rest(yp, ys, true) };
    // diagonal anchored at the end, the rest in front
    let b = diag(m - k, n - k) + if m > n { rest(xp, xs, false) } else { rest(yp, ys, false) };
    // nothing aligned
    let c = (if m > 0 { on(xp).max(on(xs)) } else { 0 }) + (if n > 0 { on(yp).max(on(ys)) } else { 0 });
    a.max(b).max(c)
}

pub fn drive(log: &mut Log) {
    let seed = log.opts.seed;
    let mut case = 0u64;
    // (a) exhaustive small: all x, y over {A,C} (incl. empty) x schemes x 4 modes
    let ac = b"AC";
    let maxl = if log.opts.thorough() { 3 } else { 2 };
    let strs = all_strings(ac, maxl, true);
    let gaps = [(0, -1), (-1, -1), (-3, 0), (-5, -1), (0, 0)];
    // the last scheme has a match score near the top of the score type (two matches = 2e9 < 2^31)
    let subs = [(1, -1), (0, -2), (2, -1), (1_000_000_000, -1)];
    let clipsets: [[i32; 4]; 8] = [
        [MIN_SCORE, MIN_SCORE, MIN_SCORE, MIN_SCORE],
        [0, 0, 0, 0],
        [-1, -1, -1, -1],
        [0, MIN_SCORE, MIN_SCORE, -1],
        [MIN_SCORE, -1, 0, MIN_SCORE],
        [-4, 0, -1, MIN_SCORE],
        [MIN_SCORE, MIN_SCORE, -1, 0],
        [-1, -4, MIN_SCORE, 0],
    ];
    for (gi, &(go, ge)) in gaps.iter().enumerate() {
        for (si, &(m, mm)) in subs.iter().enumerate() {
            for (ci, clip) in clipsets.iter().enumerate() {
                // a third of the scheme grid per seed-independent rotation keeps the quick tier small
                if !log.opts.thorough() && (gi + si + ci) % 3 != 0 {
                    continue;
                }
                for x in &strs {
                    if m >= 1_000_000_000 && x.len() > 2 {
                        continue;
                    }
                    case += 1;
                    if !log.mine(case) {
                        continue;
                    }
                    if m >= 1_000_000_000 {
                        log.oblige("match_score_near_the_top_of_i32");
                    }
                    let sc = Scheme { table: mm_table(2, m, mm), simple: Some((m, mm)), go, ge, clip: *clip };
                    let mut calls = vec![];
                    for y in strs.iter().filter(|y| m < 1_000_000_000 || y.len() <= 2) {
                        for mode in 0..4 {
                            calls.push((mode, x.clone(), y.clone(), None));
                        }
                    }
                    if ge == 0 {
                        log.oblige("gap_extend_zero");
                    }
                    run(log, "ex", ac, &sc, case, (3, 3), &calls);
                }
            }
        }
    }
    log.oblige("exhaustive_small");
    // (b)+(c) random schemes, one aligner reused for 6-10 calls of alternating modes and sizes
    let acgt = b"ACGT";
    let nrand = log.opts.n(1500, 15000);
    for _ in 0..nrand {
        case += 1;
        if !log.mine(case) {
            continue;
        }
        let mut rng = Rng::new(seed, 1, case);
        let sigma = if rng.chance(1, 3) { 2 } else { 4 };
        // a fifth of the runs use bytes that differ only in the top bit / extreme byte values
        let twins: [u8; 4] = [0x41, 0xC1, 0x43, 0xC3];
        let extremes: [u8; 4] = [0, 255, 128, 127];
        let alpha: &[u8] = if sigma == 2 {
            b"AC"
        } else {
            match rng.below(10) {
                0 => {
                    log.oblige("alphabet_high_bit_twins");
                    &twins
                }
                1 => &extremes,
                _ => acgt,
            }
        };
        let sc = random_scheme(&mut rng, sigma);
        let ncalls = rng.range(6, 10);
        let maxlen = if rng.chance(1, 5) { 12 } else { 7 };
        let mut calls = vec![];
        let mut prevlen = 0usize;
        for c in 0..ncalls {
            let lx = if c % 2 == 0 { rng.range(maxlen / 2, maxlen) } else { rng.range(0, 3) } as usize;
            let ly = match rng.below(3) {
                0 => rng.range(0, 3),
                _ => rng.range(0, maxlen),
            } as usize;
            let x = rng.seq(lx, alpha);
            let y = if rng.chance(1, 2) && lx > 0 {
                let k = rng.range(0, 3) as usize;
                let mut t = mutate(&mut rng, &x, alpha, k);
                t.truncate(maxlen as usize);
                t
            } else {
                rng.seq(ly, alpha)
            };
            if lx < prevlen {
                log.oblige("large_then_small_same_aligner");
            }
            prevlen = lx;
            let mode = rng.below(4) as usize;
            calls.push((mode, x, y, None));
        }
        if sc.ge == 0 {
            log.oblige("gap_extend_zero");
        }
        // a third of the runs copy the object in the middle of its history (clone / clone_from another
        // aligner / serde round trip) and go on with the copy
        if rng.chance(1, 3) {
            let at = rng.range(1, calls.len() as i64 - 1) as usize;
            let op = [OP_CLONE, OP_CLONE_FROM, OP_SERDE][rng.below(3) as usize];
            log.oblige(["clone_mid_history", "clone_from_other_aligner", "serde_round_trip"][op - OP_CLONE]);
            calls.insert(at, (op, vec![], vec![], None));
            // and a clip-sensitive custom call right behind it
            let x = rng.seq(4, alpha);
            let mut y = rng.seq(3, alpha);
            y.extend_from_slice(&x);
            y.extend(rng.seq(3, alpha));
            calls.insert(at + 1, (0, x, y, None));
        }
        let cap = (rng.range(0, 16) as usize, rng.range(0, 16) as usize);
        run(log, "rnd", alpha, &sc, case, cap, &calls);
    }
    // (d) related inputs of more than a thousand symbols (equal; one contained in the other; shifted
    // by one), with witness alignments known by construction, on an aligner that is used for small
    // calls before and afterwards (the small calls are judged exactly, the big one by bounds)
    let nbig = log.opts.n(24, 240);
    for b in 0..nbig {
        case += 1;
        if !log.mine(case) {
            continue;
        }
        let mut rng = Rng::new(seed, 2, case);
        // long inputs over unusual bytes as well (0xFF, 0x00, bytes differing in the top bit)
        let big_twins: [u8; 4] = [0x41, 0xC1, 0x43, 0xC3];
        let big_extremes: [u8; 4] = [0, 255, 128, 127];
        let alpha: &[u8] = match b % 5 {
            1 => {
                log.oblige("big_inputs_with_byte_0xff");
                &big_extremes
            }
            3 => &big_twins,
            _ => acgt,
        };
        let mut sc = random_scheme(&mut rng, 4);
        if (b / 4) % 2 == 0 {
            // finite, pairwise different clip penalties: every one of them can be told from the values the
            // mode entry points install temporarily
            sc.clip = [-2, -3, -1, -4];
        }
        let rel = b % 4;
        // equal inputs under a table whose best partner of a symbol is ANOTHER symbol: x = y = u^r for a
        // unit u of distinct symbols, S[u[i+d]][u[i]] = 2, everything else -2: the alignment shifted by d
        // beats the diagonal by far
        let twisted = rel == 0 && (b / 4) % 2 == 0;
        let l = match rng.below(6) {
            0 => rng.range(2050, 2300),
            _ => rng.range(1024, 1400),
        } as usize;
        let mut shift = 1usize;
        let base: Vec<u8> = if twisted {
            let per = rng.range(2, 4) as usize;
            let mut unit: Vec<u8> = alpha.to_vec();
            for i in 0..3 {
                let j = i + rng.below((4 - i) as u64) as usize;
                unit.swap(i, j);
            }
            unit.truncate(per);
            shift = rng.range(1, per as i64 - 1) as usize;
            let mut t = vec![vec![-2i32; 4]; 4];
            for i in 0..per {
                let a = alpha.iter().position(|&c| c == unit[(i + shift) % per]).unwrap();
                let bb = alpha.iter().position(|&c| c == unit[i]).unwrap();
                t[a][bb] = 2;
            }
            sc.table = t;
            sc.simple = None;
            (0..l).map(|i| unit[i % per]).collect()
        } else {
            match rng.below(4) {
                0 => {
                    let per = rng.range(1, 4) as usize;
                    let unit = rng.seq(per, alpha);
                    (0..l).map(|i| unit[i % per]).collect()
                }
                _ => rng.seq(l, alpha),
            }
        };
        let (lpre, lpost) = (rng.range(0, 200) as usize, rng.range(0, 200) as usize);
        let pre = rng.seq(lpre, alpha);
        let post = rng.seq(lpost, alpha);
        let ops = |v: &[(i64, i64)]| -> serde_json::Value {
            serde_json::Value::Array(v.iter().map(|o| json!([o.0, o.1])).collect())
        };
        let pairs = |x: &[u8], y: &[u8]| -> Vec<(i64, i64)> {
            x.iter().zip(y.iter()).map(|(a, b)| (if a == b { 0 } else { 1 }, 1)).collect()
        };
        let (x, y, wits, mode): (Vec<u8>, Vec<u8>, Vec<serde_json::Value>, usize) = match rel {
            // x == y: the diagonal and the alignment shifted by one symbol
            0 => {
                let x = base.clone();
                let y = base.clone();
                let d = shift;
                let mut sh: Vec<(i64, i64)> = vec![(3, 1); d];
                sh.extend(pairs(&x[d..], &y[..l - d]));
                sh.extend(vec![(2i64, 1i64); d]);
                let mut sh2: Vec<(i64, i64)> = vec![(2, 1); d];
                sh2.extend(pairs(&x[..l - d], &y[d..]));
                sh2.extend(vec![(3i64, 1i64); d]);
                let w0 = json!({"xstart": 0, "xend": l, "ystart": 0, "yend": l, "xlen": l, "ylen": l,
                                "ops": ops(&pairs(&x, &y))});
                let w1 = json!({"xstart": 0, "xend": l, "ystart": 0, "yend": l, "xlen": l, "ylen": l, "ops": ops(&sh)});
                let w2 = json!({"xstart": 0, "xend": l, "ystart": 0, "yend": l, "xlen": l, "ylen": l, "ops": ops(&sh2)});
                let mode = if twisted && (b / 8) % 2 == 0 { 1usize } else { [0usize, 1, 1, 2, 3][rng.below(5) as usize] };
                if twisted && mode == 1 {
                    log.oblige("big_equal_inputs_offdiagonal_table_global");
                }
                log.oblige("big_equal_inputs");
                (x, y, vec![w0, w1, w2], mode)
            }
            // x contained in y: clipped (semiglobal / local) or padded with deletions (global / custom)
            1 => {
                let x = base.clone();
                let mut y = pre.clone();
                y.extend_from_slice(&x);
                y.extend_from_slice(&post);
                let mode = match (b / 4) % 4 {
                    0 => 2usize, // semiglobal
                    1 => 3,      // local
                    _ => [0usize, 1, 2, 2, 3][rng.below(5) as usize],
                };
                let n = y.len();
                let w = if mode >= 2 {
                    let mut o = vec![(5i64, pre.len() as i64)];
                    o.extend(pairs(&x, &x));
                    o.push((5, post.len() as i64));
                    json!({"xstart": 0, "xend": l, "ystart": pre.len(), "yend": pre.len() + l, "xlen": l, "ylen": n,
                           "ops": ops(&o)})
                } else {
                    let mut o: Vec<(i64, i64)> = vec![(2, 1); pre.len()];
                    o.extend(pairs(&x, &x));
                    o.extend(vec![(2i64, 1i64); post.len()]);
                    json!({"xstart": 0, "xend": l, "ystart": 0, "yend": n, "xlen": l, "ylen": n, "ops": ops(&o)})
                };
                log.oblige("big_x_contained_in_y");
                (x, y, vec![w], mode)
            }
            // y contained in x
            2 => {
                let y = base.clone();
                let mut x = pre.clone();
                x.extend_from_slice(&y);
                x.extend_from_slice(&post);
                let m = x.len();
                let mode = [0usize, 1, 3][rng.below(3) as usize];
                let w = if mode == 3 {
                    let mut o = vec![(4i64, pre.len() as i64)];
                    o.extend(pairs(&y, &y));
                    o.push((4, post.len() as i64));
                    json!({"xstart": pre.len(), "xend": pre.len() + l, "ystart": 0, "yend": l, "xlen": m, "ylen": l,
                           "ops": ops(&o)})
                } else {
                    let mut o: Vec<(i64, i64)> = vec![(3, 1); pre.len()];
                    o.extend(pairs(&y, &y));
                    o.extend(vec![(3i64, 1i64); post.len()]);
                    json!({"xstart": 0, "xend": m, "ystart": 0, "yend": l, "xlen": m, "ylen": l, "ops": ops(&o)})
                };
                log.oblige("big_y_contained_in_x");
                (x, y, vec![w], mode)
            }
            // y = x with a few substitutions (witness: the diagonal)
            _ => {
                let x = base.clone();
                let mut y = base.clone();
                for _ in 0..rng.range(1, 6) {
                    let i = rng.below(l as u64) as usize;
                    y[i] = *rng.pick(alpha);
                }
                let w0 = json!({"xstart": 0, "xend": l, "ystart": 0, "yend": l, "xlen": l, "ylen": l,
                                "ops": ops(&pairs(&x, &y))});
                (x, y, vec![w0], rng.below(4) as usize)
            }
        };
        let mut calls = vec![];
        let small = |rng: &mut Rng| -> (usize, Vec<u8>, Vec<u8>, Option<serde_json::Value>) {
            let lx = rng.range(0, 8) as usize;
            let x = rng.seq(lx, alpha);
            let y = if rng.chance(1, 2) {
                let ly = rng.range(0, 6) as usize;
                let mut y = rng.seq(ly, alpha);
                y.extend_from_slice(&x[..lx.min(3)]);
                y
            } else {
                let ly = rng.range(0, 9) as usize;
                rng.seq(ly, alpha)
            };
            ([0usize, 0, 1, 2, 3][rng.below(5) as usize], x, y, None)
        };
        for _ in 0..rng.range(0, 2) {
            calls.push(small(&mut rng));
        }
        calls.push((mode, x, y, Some(serde_json::Value::Array(wits))));
        // right behind the big call: custom calls whose optimum depends on each of the four configured
        // clip penalties (a shared core with junk on one side of one sequence)
        {
            let core: Vec<u8> = vec![alpha[0], alpha[1], alpha[2], alpha[1], alpha[0]];
            let junk: Vec<u8> = vec![alpha[3]; 5];
            let with = |pre: bool, post: bool| -> Vec<u8> {
                let mut v = vec![];
                if pre {
                    v.extend_from_slice(&junk);
                }
                v.extend_from_slice(&core);
                if post {
                    v.extend_from_slice(&junk);
                }
                v
            };
            calls.push((0, with(true, false), core.clone(), None));
            calls.push((0, core.clone(), with(false, true), None));
            calls.push((0, with(false, true), with(true, false), None));
            log.oblige("clip_sensitive_custom_calls_right_after_big_call");
        }
        for _ in 0..3 {
            calls.push(small(&mut rng));
        }
        log.oblige("small_calls_after_big_call_same_aligner");
        let cap = (rng.range(0, 16) as usize, rng.range(0, 16) as usize);
        run(log, "big", alpha, &sc, case, cap, &calls);
    }
    // (e) "heavy" schemes: penalties between MIN_SCORE and MIN_SCORE / 2 are legal parameters (only the
    // value MIN_SCORE itself switches a clip off). Gaps and mismatches are almost forbidden by a penalty
    // of about -4.5e8 and one or more clips are a little cheaper than that, so the optimum clips; tiny
    // inputs (all sums stay inside i32), custom mode, one aligner for all calls of a run.
    // Where a sum of such penalties leaves i32 the input is outside the domain of a 32-bit score type;
    // that boundary is observable only with overflow checks (a panic instead of a wrapped value), so the
    // class runs in the checked build only.
    let hstrs = all_strings(ac, 3, true);
    let nheavy = if cfg!(debug_assertions) { 16 + log.opts.n(120, 1200) } else { 0 };
    if nheavy > 0 {
        log.oblige("clip_penalty_between_sentinel_and_half_sentinel");
    }
    for h in 0..nheavy {
        case += 1;
        if !log.mine(case) {
            continue;
        }
        let mut rng = Rng::new(seed, 7, case);
        let heavy = |rng: &mut Rng| -(430_000_000 + rng.range(0, 20) as i32 * 1_000_000);
        let mut clip = [MIN_SCORE; 4];
        let (m, mm, go, ge);
        if h < 16 {
            // one clip enabled at -4.4e8 (each of the four in turn), everything else at -4.5e8
            clip[(h % 4) as usize] = -440_000_000;
            if h >= 8 {
                clip[((h + 1 + h / 8) % 4) as usize] = [0, -1, -445_000_000, -440_000_000][(h / 4 % 4) as usize];
            }
            m = 1;
            mm = -450_000_000;
            go = if h % 8 < 4 { 0 } else { -1 };
            ge = -450_000_000;
        } else {
            for c in clip.iter_mut() {
                *c = match rng.below(6) {
                    0 | 1 => MIN_SCORE,
                    2 | 3 => heavy(&mut rng),
                    4 => 0,
                    _ => -(rng.range(1, 3) as i32),
                };
            }
            if clip.iter().all(|&c| c == MIN_SCORE || c > -1000) {
                clip[rng.below(4) as usize] = heavy(&mut rng);
            }
            m = rng.range(0, 2) as i32;
            mm = if rng.chance(1, 4) { -(rng.range(1, 3) as i32) } else { heavy(&mut rng) - 5_000_000 };
            // at most one of open / extend is heavy
            if rng.chance(1, 3) {
                go = heavy(&mut rng) - 5_000_000;
                ge = -(rng.range(0, 2) as i32);
            } else {
                go = -(rng.range(0, 2) as i32);
                ge = if rng.chance(1, 5) { -(rng.range(1, 3) as i32) } else { heavy(&mut rng) - 5_000_000 };
            }
        }
        let sc = Scheme { table: mm_table(2, m, mm), simple: Some((m, mm)), go, ge, clip };
        let mut calls = vec![];
        if h < 16 {
            // all pairs with |x| <= 2, |y| <= 3 or the other way round
            for x in hstrs.iter() {
                for y in hstrs.iter() {
                    if x.len().min(y.len()) <= 2 && (calls.len() as u64 + h) % 3 != 0 {
                        calls.push((0usize, x.clone(), y.clone(), None));
                    }
                }
            }
        } else {
            for _ in 0..rng.range(8, 14) {
                let x = hstrs[rng.below(hstrs.len() as u64) as usize].clone();
                let y = if rng.chance(1, 3) && !x.is_empty() {
                    // x with one symbol appended / prepended / dropped: the optimum clips one end
                    let mut y = x.clone();
                    match rng.below(3) {
                        0 => y.push(ac[rng.below(2) as usize]),
                        1 => y.insert(0, ac[rng.below(2) as usize]),
                        _ => {
                            y.pop();
                        }
                    }
                    y.truncate(3);
                    y
                } else {
                    hstrs[rng.below(hstrs.len() as u64) as usize].clone()
                };
                if rng.chance(1, 2) {
                    calls.push((0usize, x, y, None));
                } else {
                    calls.push((0usize, y, x, None));
                }
            }
        }
        calls.retain(|(_, x, y, _)| heavy_lower_bound(&sc, x, y) > -790_000_000);
        if calls.is_empty() {
            continue;
        }
        run(log, "hv", ac, &sc, case, (3, 3), &calls);
    }
}

fn main() {
    bio_verif_harness::run(drive)
}
