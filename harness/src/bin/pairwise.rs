//! C01 — pairwise::Aligner. One run = one Aligner object used for many calls
//! (modes and sizes alternate, so state left behind by one call meets the next).
use bio::alignment::pairwise::{Aligner, MatchParams, Scoring};
use bio_verif_harness::aln::*;
use bio_verif_harness::{Log, Rng};
use serde_json::json;

const MODES: [&str; 4] = ["custom", "global", "semiglobal", "local"];

enum Al {
    Tab(Aligner<Box<dyn Fn(u8, u8) -> i32>>),
    Par(Aligner<MatchParams>),
}

fn make(alpha: &[u8], sc: &Scheme, how: u64, cap: (usize, usize)) -> Al {
    match (sc.simple, how % 2) {
        (Some((m, mm)), 0) => {
            let mut s = Scoring::from_scores(sc.go, sc.ge, m, mm);
            s.xclip_prefix = sc.clip[0];
            s.xclip_suffix = sc.clip[1];
            s.yclip_prefix = sc.clip[2];
            s.yclip_suffix = sc.clip[3];
            Al::Par(if how % 4 == 0 {
                Aligner::with_scoring(s)
            } else {
                Aligner::with_capacity_and_scoring(cap.0, cap.1, s)
            })
        }
        _ => {
            let al = alpha.to_vec();
            let tab = sc.table.clone();
            let f: Box<dyn Fn(u8, u8) -> i32> = Box::new(move |a: u8, b: u8| {
                let i = al.iter().position(|&x| x == a).unwrap();
                let j = al.iter().position(|&x| x == b).unwrap();
                tab[i][j]
            });
            let mut s = Scoring::new(sc.go, sc.ge, f);
            // the public hint field need not describe match_fn (the banded aligner only seeds with it)
            if how % 3 == 0 {
                s.match_scores = Some(((how % 5) as i32, -((how % 4) as i32)));
            }
            s.xclip_prefix = sc.clip[0];
            s.xclip_suffix = sc.clip[1];
            s.yclip_prefix = sc.clip[2];
            s.yclip_suffix = sc.clip[3];
            Al::Tab(if how % 4 == 1 {
                Aligner::with_scoring(s)
            } else {
                Aligner::with_capacity_and_scoring(cap.0, cap.1, s)
            })
        }
    }
}

fn run(log: &mut Log, tag: &str, alpha: &[u8], sc: &Scheme, how: u64, cap: (usize, usize),
       calls: &[(usize, Vec<u8>, Vec<u8>)]) {
    let mut cfg = sc.cfg();
    cfg["cap"] = json!([cap.0, cap.1]);
    cfg["how"] = json!(how % 4);
    if !log.begin(tag, cfg) {
        return;
    }
    let mut al = make(alpha, sc, how, cap);
    for (mode, x, y) in calls {
        let r = log.call(MODES[*mode], json!({"x": syms(alpha, x), "y": syms(alpha, y)}), || {
            let a = match &mut al {
                Al::Tab(a) => match mode {
                    0 => a.custom(x, y),
                    1 => a.global(x, y),
                    2 => a.semiglobal(x, y),
                    _ => a.local(x, y),
                },
                Al::Par(a) => match mode {
                    0 => a.custom(x, y),
                    1 => a.global(x, y),
                    2 => a.semiglobal(x, y),
                    _ => a.local(x, y),
                },
            };
            alignment_json(&a)
        });
        if r["st"] == "ok" {
            let (m, n) = (x.len() as u64, y.len() as u64);
            if *mode == 0 {
                if r["xstart"].as_u64().unwrap_or(0) > 0 { log.oblige("custom_xclip_prefix_used"); }
                if r["xend"].as_u64().unwrap_or(m) < m { log.oblige("custom_xclip_suffix_used"); }
                if r["ystart"].as_u64().unwrap_or(0) > 0 { log.oblige("custom_yclip_prefix_used"); }
                if r["yend"].as_u64().unwrap_or(n) < n { log.oblige("custom_yclip_suffix_used"); }
                if m > 0 && r["xstart"] == r["xend"] { log.oblige("custom_fully_clipped"); }
            }
        }
        if x.is_empty() && y.is_empty() { log.oblige("both_empty"); }
        else if x.is_empty() { log.oblige("empty_x"); }
        else if y.is_empty() { log.oblige("empty_y"); }
    }
}

pub fn drive(log: &mut Log) {
    let seed = log.opts.seed;
    let mut case = 0u64;
    // (a) exhaustive small: all x, y over {A,C} (incl. empty) x schemes x 4 modes
    let ac = b"AC";
    let maxl = if log.opts.thorough() { 3 } else { 2 };
    let strs = all_strings(ac, maxl, true);
    let gaps = [(0, -1), (-1, -1), (-3, 0), (-5, -1), (0, 0)];
    let subs = [(1, -1), (0, -2), (2, -1)];
    let clipsets: [[i32; 4]; 8] = [
        [MIN_SCORE, MIN_SCORE, MIN_SCORE, MIN_SCORE],
        [0, 0, 0, 0],
        [-1, -1, -1, -1],
        [0, MIN_SCORE, MIN_SCORE, -1],
        [MIN_SCORE, -1, 0, MIN_SCORE],
        [-4, 0, -1, MIN_SCORE],
        [MIN_SCORE, MIN_SCORE, -1, 0],
        [-1, -4, MIN_SCORE, 0],
    ];
    for (gi, &(go, ge)) in gaps.iter().enumerate() {
        for (si, &(m, mm)) in subs.iter().enumerate() {
            for (ci, clip) in clipsets.iter().enumerate() {
                // a third of the scheme grid per seed-independent rotation keeps the quick tier small
                if !log.opts.thorough() && (gi + si + ci) % 3 != 0 {
                    continue;
                }
                for x in &strs {
                    case += 1;
                    if !log.mine(case) {
                        continue;
                    }
                    let sc = Scheme { table: mm_table(2, m, mm), simple: Some((m, mm)), go, ge, clip: *clip };
                    let mut calls = vec![];
                    for y in &strs {
                        for mode in 0..4 {
                            calls.push((mode, x.clone(), y.clone()));
                        }
                    }
                    if ge == 0 {
                        log.oblige("gap_extend_zero");
                    }
                    run(log, "ex", ac, &sc, case, (3, 3), &calls);
                }
            }
        }
    }
    log.oblige("exhaustive_small");
    // (b)+(c) random schemes, one aligner reused for 6-10 calls of alternating modes and sizes
    let acgt = b"ACGT";
    let nrand = log.opts.n(1500, 15000);
    for _ in 0..nrand {
        case += 1;
        if !log.mine(case) {
            continue;
        }
        let mut rng = Rng::new(seed, 1, case);
        let sigma = if rng.chance(1, 3) { 2 } else { 4 };
        // a fifth of the runs use bytes that differ only in the top bit / extreme byte values
        let twins: [u8; 4] = [0x41, 0xC1, 0x43, 0xC3];
        let extremes: [u8; 4] = [0, 255, 128, 127];
        let alpha: &[u8] = if sigma == 2 {
            b"AC"
        } else {
            match rng.below(10) {
                0 => {
                    log.oblige("alphabet_high_bit_twins");
                    &twins
                }
                1 => &extremes,
                _ => acgt,
            }
        };
        let sc = random_scheme(&mut rng, sigma);
        let ncalls = rng.range(6, 10);
        let maxlen = if rng.chance(1, 5) { 12 } else { 7 };
        let mut calls = vec![];
        let mut prevlen = 0usize;
        for c in 0..ncalls {
            let lx = if c % 2 == 0 { rng.range(maxlen / 2, maxlen) } else { rng.range(0, 3) } as usize;
            let ly = match rng.below(3) {
                0 => rng.range(0, 3),
                _ => rng.range(0, maxlen),
            } as usize;
            let x = rng.seq(lx, alpha);
            let y = if rng.chance(1, 2) && lx > 0 {
                let k = rng.range(0, 3) as usize;
                let mut t = mutate(&mut rng, &x, alpha, k);
                t.truncate(maxlen as usize);
                t
            } else {
                rng.seq(ly, alpha)
            };
            if lx < prevlen {
                log.oblige("large_then_small_same_aligner");
            }
            prevlen = lx;
            let mode = rng.below(4) as usize;
            calls.push((mode, x, y));
        }
        if sc.ge == 0 {
            log.oblige("gap_extend_zero");
        }
        let cap = (rng.range(0, 16) as usize, rng.range(0, 16) as usize);
        run(log, "rnd", alpha, &sc, case, cap, &calls);
    }
}

fn main() {
    bio_verif_harness::run(drive)
}
