//! C16 — partial-order alignment. One run = one poa::Aligner.
//! Symbols are logged as indices 1..sigma into the run's alphabet; the substitution
//! function handed to rust-bio reads the same sigma x sigma table that is logged.
use bio::alignment::pairwise::Scoring;
use bio::alignment::poa::{Aligner, AlignmentOperation, POAGraph};
use bio_verif_harness::{Log, Rng};
use serde_json::{json, Value};

fn sym(alpha: &[u8], b: u8) -> i64 {
    alpha.iter().position(|&a| a == b).map(|p| p as i64 + 1).unwrap_or(0)
}
fn syms(alpha: &[u8], s: &[u8]) -> Value {
    Value::Array(s.iter().map(|&b| json!(sym(alpha, b))).collect())
}
fn graph_json(alpha: &[u8], g: &POAGraph) -> Value {
    let labels: Vec<Value> = g.raw_nodes().iter().map(|n| json!(sym(alpha, n.weight))).collect();
    let edges: Vec<Value> = g
        .raw_edges()
        .iter()
        .map(|e| json!([e.source().index(), e.target().index(), e.weight]))
        .collect();
    json!({"labels": labels, "edges": edges})
}
fn ops_json(ops: &[AlignmentOperation]) -> Value {
    let o = |x: Option<i64>| x.unwrap_or(-1);
    Value::Array(
        ops.iter()
            .map(|op| match *op {
                AlignmentOperation::Match(None) => json!([0, -1, -1]),
                AlignmentOperation::Match(Some((a, b))) => json!([0, a, b]),
                AlignmentOperation::Del(None) => json!([1, -1, -1]),
                AlignmentOperation::Del(Some((a, b))) => json!([1, a, b]),
                AlignmentOperation::Ins(x) => json!([2, o(x.map(|v| v as i64)), -1]),
                AlignmentOperation::Xclip(a) => json!([3, a, -1]),
                AlignmentOperation::Yclip(a, b) => json!([4, a, b]),
            })
            .collect(),
    )
}

struct Sc {
    table: Vec<Vec<i32>>, // [ref symbol][query symbol]
    gap: i32,
    gap_extend: i32,
    // clip penalties configured on the Scoring object: global() / global_banded() are documented to
    // ignore them, so they are logged but play no role in the specification
    clips: Option<[i32; 4]>,
}

fn table_json(t: &[Vec<i32>]) -> Value {
    Value::Array(t.iter().map(|r| Value::Array(r.iter().map(|&v| json!(v)).collect())).collect())
}

/// ops: ("global", q) | ("banded", q, bw) | ("add") | ("consensus")
enum Op {
    /// another mode (0 semiglobal, 1 local, 2 custom) with the query, result not judged: the following
    /// `global` must not be influenced by it
    OtherMode(usize, Vec<u8>),
    /// go on with a copy of the aligner (0 clone, 1 clone_from into an aligner with another scoring)
    Copy(usize),
    Global(Vec<u8>),
    Banded(Vec<u8>, usize),
    Add,
    Consensus,
}

fn run(log: &mut Log, tag: &str, alpha: &[u8], reference: &[u8], sc: &Sc, ops: &[Op]) {
    let clipj = match sc.clips {
        Some(c) => json!([c[0], c[1], c[2], c[3]]),
        None => json!([]),
    };
    let cfg = json!({"ref": syms(alpha, reference), "S": table_json(&sc.table), "gap": sc.gap,
                     "gap_extend": sc.gap_extend, "clips": clipj});
    if !log.begin(tag, cfg) {
        return;
    }
    let f = bio_verif_harness::aln::TabFn { al: alpha.to_vec(), tab: sc.table.clone() };
    let mut scoring = Scoring::new(sc.gap, sc.gap_extend, f);
    if let Some(c) = sc.clips {
        scoring.xclip_prefix = c[0];
        scoring.xclip_suffix = c[1];
        scoring.yclip_prefix = c[2];
        scoring.yclip_suffix = c[3];
    }
    let mut aligner = None;
    let r = log.call("new", json!({}), || {
        let a = Aligner::new(scoring, reference);
        let g = graph_json(alpha, a.graph());
        aligner = Some(a);
        g
    });
    if r["st"] != "ok" {
        return;
    }
    let mut aligner = aligner.unwrap();
    for op in ops {
        let r = match op {
            Op::OtherMode(mode, q) => log.call("other_mode", json!({"mode": mode, "q": syms(alpha, q)}), || {
                let a = match mode {
                    0 => aligner.semiglobal(q).alignment(),
                    1 => aligner.local(q).alignment(),
                    _ => aligner.custom(q).alignment(),
                };
                json!({"score": a.score})
            }),
            Op::Copy(how) => log.call("copy", json!({"how": how}), || {
                if *how == 0 {
                    let c = aligner.clone();
                    aligner = c;
                } else {
                    // an aligner of the same type with another scoring, another graph and a history
                    let t2: Vec<Vec<i32>> = sc.table.iter().map(|r| r.iter().map(|v| v * 2 + 1).collect()).collect();
                    let f2 = bio_verif_harness::aln::TabFn { al: alpha.to_vec(), tab: t2 };
                    let mut other = Aligner::new(Scoring::new(sc.gap - 2, sc.gap_extend, f2), &alpha[..1]);
                    other.global(&alpha[..2]).add_to_graph();
                    other.clone_from(&aligner);
                    aligner = other;
                }
                graph_json(alpha, aligner.graph())
            }),
            Op::Global(q) => log.call("global", json!({"q": syms(alpha, q)}), || {
                let a = aligner.global(q).alignment();
                json!({"score": a.score, "ops": ops_json(a.verif_operations())})
            }),
            Op::Banded(q, bw) => log.call("banded", json!({"q": syms(alpha, q), "bw": bw}), || {
                let a = aligner.global_banded(q, *bw).alignment();
                json!({"score": a.score})
            }),
            Op::Add => log.call("add", json!({}), || {
                aligner.add_to_graph();
                graph_json(alpha, aligner.graph())
            }),
            Op::Consensus => log.call("consensus", json!({}), || {
                let c = aligner.consensus();
                json!({"v": syms(alpha, &c)})
            }),
        };
        if r["st"] != "ok" {
            return;
        }
    }
}

fn all_strings(alpha: &[u8], maxlen: usize) -> Vec<Vec<u8>> {
    let mut out = vec![];
    let mut cur: Vec<Vec<u8>> = vec![vec![]];
    for _ in 1..=maxlen {
        let mut nxt = vec![];
        for s in &cur {
            for &c in alpha {
                let mut t = s.clone();
                t.push(c);
                nxt.push(t);
            }
        }
        out.extend(nxt.iter().cloned());
        cur = nxt;
    }
    out
}

fn mm_table(sigma: usize, m: i32, mm: i32) -> Vec<Vec<i32>> {
    (0..sigma).map(|i| (0..sigma).map(|j| if i == j { m } else { mm }).collect()).collect()
}

fn mutate(rng: &mut Rng, s: &[u8], alpha: &[u8], k: usize) -> Vec<u8> {
    let mut t = s.to_vec();
    for _ in 0..k {
        match rng.below(3) {
            0 if !t.is_empty() => {
                let i = rng.below(t.len() as u64) as usize;
                t[i] = *rng.pick(alpha);
            }
            1 if t.len() > 1 => {
                let i = rng.below(t.len() as u64) as usize;
                t.remove(i);
            }
            _ => {
                let i = rng.below(t.len() as u64 + 1) as usize;
                t.insert(i, *rng.pick(alpha));
            }
        }
    }
    t
}

pub fn drive(log: &mut Log) {
    let seed = log.opts.seed;
    let mut case = 0u64;
    // (a) linear graphs, exhaustive over {A,C}
    let ac = b"AC";
    let maxl = if log.opts.thorough() { 4 } else { 3 };
    let strs = all_strings(ac, maxl);
    let schemes: Vec<(i32, i32, i32)> = vec![(1, -1, -1), (1, -1, 0), (2, -3, -2), (0, -1, -4), (1, 1, -1), (3, -2, -1)];
    // two schemes whose match score is close to the top of the score type (an alignment of two or three
    // matches scores 1.8e9 .. 2e9, just below 2^31): only for strings short enough for that
    let schemes: Vec<(i32, i32, i32)> = {
        let mut v = schemes;
        v.push((1_000_000_000, -1, -1));
        v.push((600_000_000, -2, -1));
        v
    };
    for r in &strs {
        for &(m, mm, g) in &schemes {
            let cap = if m >= 1_000_000_000 { 2 } else if m >= 600_000_000 { 3 } else { usize::MAX };
            if r.len() > cap {
                continue;
            }
            if cap != usize::MAX {
                log.oblige("match_score_near_the_top_of_i32");
            }
            case += 1;
            if !log.mine(case) {
                continue;
            }
            let sc = Sc { table: mm_table(2, m, mm), gap: g, gap_extend: -7, clips: if (case % 3) == 0 { log.oblige("scoring_with_clip_penalties"); Some([-1, -1, -1, -1]) } else { None } };
            let mut ops = vec![];
            for (qi, q) in strs.iter().enumerate() {
                if q.len() > cap {
                    continue;
                }
                if case % 2 == 0 {
                    // the same query in a clipping mode right before the judged global alignment
                    ops.push(Op::OtherMode((qi + case as usize) % 3, q.clone()));
                    log.oblige("same_query_in_another_mode_before_global");
                }
                if (qi as u64 + case) % 5 == 0 {
                    ops.push(Op::Copy((qi + case as usize) % 2));
                    log.oblige("aligner_copied_mid_history");
                }
                ops.push(Op::Global(q.clone()));
                ops.push(Op::Banded(q.clone(), r.len().max(q.len())));
                if case % 4 == 1 {
                    // banded with a band that is too narrow, then global of the same query
                    ops.push(Op::Banded(q.clone(), 1));
                    ops.push(Op::Global(q.clone()));
                }
            }
            run(log, "lin", ac, r, &sc, &ops);
        }
    }
    log.oblige("linear_exhaustive");
    // (b) linear graphs, random, asymmetric tables
    let acgt = b"ACGT";
    let nlin = log.opts.n(150, 1500);
    for _ in 0..nlin {
        case += 1;
        if !log.mine(case) {
            continue;
        }
        let mut rng = Rng::new(seed, 16, case);
        let m = rng.range(1, 30) as usize;
        let r = rng.seq(m, acgt);
        let table: Vec<Vec<i32>> = (0..4)
            .map(|i| (0..4).map(|j| if i == j { rng.range(0, 5) as i32 } else { rng.range(-6, 1) as i32 }).collect())
            .collect();
        let clips = if rng.chance(1, 2) {
            Some([-(rng.range(0, 4) as i32), -(rng.range(0, 4) as i32), -(rng.range(0, 4) as i32), -(rng.range(0, 4) as i32)])
        } else {
            None
        };
        let sc = Sc { table, gap: -(rng.range(0, 5) as i32), gap_extend: -(rng.range(0, 9) as i32), clips };
        if sc.gap == 0 {
            log.oblige("gap_zero");
        }
        let mut ops = vec![];
        for _ in 0..4 {
            let q = match rng.below(4) {
                0 => { let l = rng.range(1, 30) as usize; rng.seq(l, acgt) }
                1 => r.clone(),
                _ => { let k = rng.range(1, 5) as usize; mutate(&mut rng, &r, acgt, k) }
            };
            let q = if q.is_empty() { vec![b'A'] } else { q };
            let bw = r.len().max(q.len()) + rng.below(3) as usize;
            ops.push(Op::Global(q.clone()));
            ops.push(Op::Banded(q, bw));
        }
        run(log, "rl", acgt, &r, &sc, &ops);
    }
    // (c) growth histories
    let nh = log.opts.n(300, 3000);
    for _ in 0..nh {
        case += 1;
        if !log.mine(case) {
            continue;
        }
        let mut rng = Rng::new(seed, 17, case);
        let kind = rng.below(5);
        let m = match kind {
            0 => 1,
            _ => rng.range(1, 14) as usize,
        };
        let r = rng.seq(m, acgt);
        let sc = Sc {
            table: mm_table(4, rng.range(1, 3) as i32, -(rng.range(0, 4) as i32)),
            gap: -(rng.range(0, 4) as i32),
            gap_extend: -1,
            clips: if rng.chance(1, 3) { Some([-1, -2, 0, -1]) } else { None },
        };
        let mut ops = vec![Op::Consensus];
        let nadd = rng.range(1, 6);
        for _ in 0..nadd {
            let q = match kind {
                1 => r.clone(), // identical copies only
                0 => { let l = rng.range(1, 2) as usize; rng.seq(l, acgt) } // length-1 reference, tiny queries
                2 => { let k = rng.range(0, 3) as usize; mutate(&mut rng, &r, acgt, k) }
                3 => { let l = rng.range(1, 14) as usize; rng.seq(l, acgt) } // unrelated
                _ => {
                    if rng.coin() {
                        r.clone()
                    } else {
                        mutate(&mut rng, &r, acgt, 1)
                    }
                }
            };
            let q = if q.is_empty() { vec![b'C'] } else { q };
            if rng.chance(1, 4) {
                ops.push(Op::OtherMode(rng.below(3) as usize, q.clone()));
            }
            if rng.chance(1, 5) {
                ops.push(Op::Copy(rng.below(2) as usize));
            }
            ops.push(Op::Global(q));
            if rng.chance(1, 6) {
                ops.push(Op::Copy(rng.below(2) as usize));
            }
            ops.push(Op::Add);
            ops.push(Op::Consensus);
        }
        match kind {
            0 => log.oblige("length1_reference_edgeless"),
            1 => log.oblige("identical_copies"),
            3 => log.oblige("unrelated_sequences"),
            _ => {}
        }
        run(log, "hist", acgt, &r, &sc, &ops);
    }
}

fn main() {
    bio_verif_harness::run(drive)
}
