//! C15 — log-space probability arithmetic (bio::stats::probs). Floats never reach TLC:
//! the harness projects them to fixed point (std exp / ln, the ONLY arithmetic done here):
//!   relative scale : x_i = round(exp(lp_i - lp_max) * 1e6)   (lp_max = largest operand)
//!                    r   = round(exp(res - lp_max) * 1e6)
//!   absolute scale : round(exp(lp) * 1e6)   (complement, accumulator chains)
//!   1e9 scale      : conversions
//! plus the flags nan / posinf / neginf of every result. No expected value is computed.
use bio::stats::{LogProb, PHREDProb, Prob};
use bio_verif_harness::{i64s, Log, Rng};
use serde_json::{json, Value};

const UNIT: f64 = 1.0e6;
const UNIT9: f64 = 1.0e9;

fn fix(lp: f64, lpmax: f64, unit: f64) -> Value {
    // projection of a result
    if lp.is_nan() {
        json!({"v": -1, "nan": 1, "posinf": 0, "neginf": 0})
    } else if lp == f64::INFINITY {
        json!({"v": -1, "nan": 0, "posinf": 1, "neginf": 0})
    } else if lp == f64::NEG_INFINITY {
        json!({"v": 0, "nan": 0, "posinf": 0, "neginf": 1})
    } else {
        let v = ((lp - lpmax).exp() * unit).round();
        let v = if v > 2.0e9 { 2_000_000_000i64 } else { v as i64 };
        json!({"v": v, "nan": 0, "posinf": 0, "neginf": 0})
    }
}

fn fixop(lp: f64, lpmax: f64) -> i64 {
    if lp == f64::NEG_INFINITY {
        0
    } else {
        ((lp - lpmax).exp() * UNIT).round() as i64
    }
}

fn lpmax_of(lps: &[f64]) -> f64 {
    let m = lps.iter().cloned().fold(f64::NEG_INFINITY, f64::max);
    if m == f64::NEG_INFINITY {
        0.0
    } else {
        m
    }
}

fn ops_json(lps: &[f64], m: f64) -> Value {
    let xs: Vec<i64> = lps.iter().map(|&l| fixop(l, m)).collect();
    let zs: Vec<i64> = lps.iter().map(|&l| (l == f64::NEG_INFINITY) as i64).collect();
    json!({"xs": i64s(&xs), "zs": i64s(&zs)})
}

/// a log-probability: magnitudes over a log grid down to far below f64's linear range
fn rand_lp(rng: &mut Rng) -> f64 {
    match rng.below(12) {
        0 => f64::NEG_INFINITY,
        1 => 0.0,
        2 => (0.5f64).ln(),
        3 => -(rng.below(300) as f64) * std::f64::consts::LN_10, // 10^-k
        4 => -(rng.below(700_000) as f64) / 1000.0,
        5 => -(rng.below(2000) as f64) / 1000.0,
        6 => -1000.0 - rng.below(1_000_000) as f64,
        7 => (rng.range(1, 999_999) as f64 / 1.0e6).ln(),
        8 => -500.0 + (rng.range(-20, 20) as f64) / 10.0, // around fastexp's MIN_VAL
        _ => -(rng.below(30_000) as f64) / 1000.0,
    }
}

/// an operand close to `base`: ratios 1 ... 1e-300 and beyond
fn near(rng: &mut Rng, base: f64) -> f64 {
    if base == f64::NEG_INFINITY {
        return rand_lp(rng);
    }
    match rng.below(8) {
        0 => base,
        1 => base - (rng.below(1000) as f64) / 1000.0,
        2 => base - (rng.below(40_000) as f64) / 1000.0,
        3 => base - 499.0 - (rng.below(20) as f64) / 10.0, // straddles MIN_VAL = -500
        4 => base - 690.0 - rng.below(30) as f64,          // ratio ~1e-300 .. below f64 range
        5 => base - 1000.0 - rng.below(100_000) as f64,
        6 => base - 1.0e-9 * (1 + rng.below(1000)) as f64,
        _ => base - 0.693 + (rng.range(-50, 50) as f64) / 1000.0,
    }
}

fn call_add(log: &mut Log, a: f64, b: f64) {
    let m = lpmax_of(&[a, b]);
    log.call("add", ops_json(&[a, b], m), || fix(*LogProb(a).ln_add_exp(LogProb(b)), m, UNIT));
}

fn call_sum(log: &mut Log, lps: &[f64]) {
    let m = lpmax_of(lps);
    let v: Vec<LogProb> = lps.iter().map(|&l| LogProb(l)).collect();
    log.call("sum", ops_json(lps, m), || fix(*LogProb::ln_sum_exp(&v), m, UNIT));
}

fn call_cumsum(log: &mut Log, lps: &[f64]) {
    let m = lpmax_of(lps);
    let v: Vec<LogProb> = lps.iter().map(|&l| LogProb(l)).collect();
    log.call("cumsum", ops_json(lps, m), || {
        let out: Vec<Value> = LogProb::ln_cumsum_exp(v.clone()).map(|s| fix(*s, m, UNIT)).collect();
        json!({"vs": Value::Array(out)})
    });
}

fn call_sub(log: &mut Log, a: f64, b: f64) {
    // precondition of ln_sub_exp: a >= b
    let m = lpmax_of(&[a, b]);
    log.call("sub", ops_json(&[a, b], m), || fix(*LogProb(a).ln_sub_exp(LogProb(b)), m, UNIT));
}

fn call_complement(log: &mut Log, a: f64) {
    let x = fixop(a, 0.0);
    log.call("complement", json!({"x": x, "z": (a == f64::NEG_INFINITY) as i64}), || {
        fix(*LogProb(a).ln_one_minus_exp(), 0.0, UNIT)
    });
}

/// log-densities (evaluated in log space: no exp in the harness)
fn density(shape: u64, x: f64) -> f64 {
    match shape {
        0 => (0.1f64).ln(),                       // constant
        1 => -0.5 * (x - 5.0) * (x - 5.0) / 4.0,  // gaussian bump
        2 => -0.7 * x,                            // exponential decay
        3 => (1.0 + x).ln(),                      // linear
        4 => -0.5 * (x - 2.0) * (x - 2.0) / 0.25, // narrow bump
        _ => (1.0 + x * x).ln() - 3.0,            // quadratic
    }
}

/// samples = (grid position of the abscissa, returned log-density, index handed to the density)
fn integ_result(samples: &[(i64, f64, i64)], res: f64, width: f64) -> Value {
    let m = lpmax_of(&samples.iter().map(|s| s.1).collect::<Vec<f64>>());
    let calls: Vec<Value> = samples.iter().map(|&(k, lp, i)| json!([k, fixop(lp, m), i])).collect();
    // normalised by (width * largest sample)
    let mut v = fix(res - width.ln(), m, UNIT);
    v["calls"] = Value::Array(calls);
    v
}

fn call_trapz_simpson(log: &mut Log, op: &str, shape: u64, a: f64, b: f64, n: usize) {
    log.call(op, json!({"n": n, "shape": shape}), || {
        let mut samples: Vec<(i64, f64, i64)> = vec![];
        let dens = |i: usize, x: f64| {
            let lp = density(shape, x);
            // projection of the abscissa onto its grid index
            let k = ((x - a) / (b - a) * (n as f64 - 1.0)).round() as i64;
            samples.push((k, lp, i as i64));
            LogProb(lp)
        };
        let res = if op == "trapz" {
            LogProb::ln_trapezoidal_integrate_exp(dens, a, b, n)
        } else {
            LogProb::ln_simpsons_integrate_exp(dens, a, b, n)
        };
        integ_result(&samples, *res, b - a)
    });
}

fn call_grid(log: &mut Log, shape: u64, grid: &[i64]) {
    let g: Vec<f64> = grid.iter().map(|&x| x as f64).collect();
    log.call("grid", json!({"gs": i64s(grid), "shape": shape}), || {
        let mut seen: Vec<(i64, f64, i64)> = vec![];
        let dens = |i: usize, x: f64| {
            let lp = density(shape, x / 10.0);
            seen.push((i as i64, lp, i as i64));
            LogProb(lp)
        };
        let res = LogProb::ln_trapezoidal_integrate_grid_exp(dens, &g);
        // the rule evaluates inner points twice: report each grid index once (its first value)
        let mut samples: Vec<(i64, f64, i64)> = vec![];
        let mut dup = 0;
        for &(k, lp, i) in &seen {
            if samples.iter().any(|s| s.0 == k) {
                dup += 1;
            } else {
                samples.push((k, lp, i));
            }
        }
        let mut v = integ_result(&samples, *res, g[g.len() - 1] - g[0]);
        v["dup"] = json!(dup);
        v
    });
}

/// index-driven density: a table looked up by the index argument (the abscissa is only used to
/// report which grid point the call was for). table has one spare slot because the helpers
/// announce the right boundary as index n.
fn call_idx(log: &mut Log, op: &str, shape: u64, a: f64, b: f64, n: usize) {
    let h = (b - a) / (n as f64 - 1.0);
    let mut table: Vec<f64> = (0..n).map(|k| density(shape, a + k as f64 * h)).collect();
    table.push(table[n - 1]);
    let m = lpmax_of(&table);
    let tab: Vec<i64> = table[..n].iter().map(|&lp| fixop(lp, m)).collect();
    log.call(op, json!({"n": n, "shape": shape, "table": i64s(&tab)}), || {
        let mut calls: Vec<Value> = vec![];
        let dens = |i: usize, x: f64| {
            let k = ((x - a) / (b - a) * (n as f64 - 1.0)).round() as i64;
            calls.push(json!([k, 0, i as i64]));
            LogProb(table[std::cmp::min(i, n)])
        };
        let res = if op == "trapz_idx" {
            LogProb::ln_trapezoidal_integrate_exp(dens, a, b, n)
        } else {
            LogProb::ln_simpsons_integrate_exp(dens, a, b, n)
        };
        let mut v = fix(*res - (b - a).ln(), m, UNIT);
        v["calls"] = Value::Array(calls);
        v
    });
}

fn call_grid_idx(log: &mut Log, shape: u64, grid: &[i64]) {
    let g: Vec<f64> = grid.iter().map(|&x| x as f64).collect();
    let table: Vec<f64> = g.iter().map(|&x| density(shape, x / 10.0)).collect();
    let m = lpmax_of(&table);
    let tab: Vec<i64> = table.iter().map(|&lp| fixop(lp, m)).collect();
    log.call("grid_idx", json!({"gs": i64s(grid), "shape": shape, "table": i64s(&tab)}), || {
        let mut calls: Vec<Value> = vec![];
        let dens = |i: usize, x: f64| {
            let k = g.iter().position(|&y| y == x).map(|p| p as i64).unwrap_or(-1);
            calls.push(json!([k, 0, i as i64]));
            LogProb(table[std::cmp::min(i, table.len() - 1)])
        };
        let res = LogProb::ln_trapezoidal_integrate_grid_exp(dens, &g);
        let mut v = fix(*res - (g[g.len() - 1] - g[0]).ln(), m, UNIT);
        v["calls"] = Value::Array(calls);
        v
    });
}

/// log of a two-dimensional density on the unit-ish square
fn lnf2(f: u64, x: f64, y: f64) -> f64 {
    match f {
        0 => (x + y + 0.25).ln(),            // linear in each argument: exact for every rule
        1 => -0.8 * x - 0.3 * y * y,         // a product density
        _ => (1.0 + x * y).ln(),
    }
}

/// nested one-dimensional integrals = a two-dimensional one: the density of the outer helper
/// itself calls an integration helper (re-entrance)
fn call_nested(log: &mut Log, outer: &str, inner: &str, f: u64, n1: usize, n2: usize) {
    let (a1, b1, a2, b2) = (0.0f64, 2.0f64, 0.0f64, 1.0f64);
    let h1 = (b1 - a1) / (n1 as f64 - 1.0);
    let h2 = (b2 - a2) / (n2 as f64 - 1.0);
    let tab: Vec<Vec<f64>> = (0..n1).map(|i| (0..n2).map(|j| lnf2(f, a1 + i as f64 * h1, a2 + j as f64 * h2)).collect()).collect();
    let m = lpmax_of(&tab.iter().flatten().cloned().collect::<Vec<f64>>());
    let tj: Vec<Value> = tab.iter().map(|r| i64s(&r.iter().map(|&lp| fixop(lp, m)).collect::<Vec<i64>>())).collect();
    log.call("nested", json!({"outer": outer, "inner": inner, "f": f, "n1": n1, "n2": n2, "table": tj}), || {
        let inner_int = |x: f64| -> LogProb {
            let d = |_: usize, y: f64| LogProb(lnf2(f, x, y));
            match inner {
                "trapz" => LogProb::ln_trapezoidal_integrate_exp(d, a2, b2, n2),
                "simpson" => LogProb::ln_simpsons_integrate_exp(d, a2, b2, n2),
                _ => {
                    let g: Vec<f64> = (0..n2).map(|j| a2 + j as f64 * h2).collect();
                    LogProb::ln_trapezoidal_integrate_grid_exp(d, &g)
                }
            }
        };
        let od = |_: usize, x: f64| inner_int(x);
        let res = match outer {
            "trapz" => LogProb::ln_trapezoidal_integrate_exp(od, a1, b1, n1),
            "simpson" => LogProb::ln_simpsons_integrate_exp(od, a1, b1, n1),
            _ => {
                let g: Vec<f64> = (0..n1).map(|i| a1 + i as f64 * h1).collect();
                LogProb::ln_trapezoidal_integrate_grid_exp(od, &g)
            }
        };
        fix(*res - ((b1 - a1) * (b2 - a2)).ln(), m, UNIT)
    });
}

/// fine grid far from the origin: density c0 + c1 * (x - a) (both rules are exact for it); the
/// abscissae of a sample of calls are reported as their distance from a + i*h in ulps of the
/// largest end point (projection of the abscissa, like the grid index elsewhere)
fn call_fargrid(log: &mut Log, rule: &str, aname: &str, a: f64, w: i64, n: usize, c0: i64, c1: i64) {
    let b = a + w as f64;
    let h = (b - a) / (n as f64 - 1.0);
    let big = a.abs().max(b.abs());
    let ulp = f64::from_bits(big.to_bits() + 1) - big;
    let lmax = ((c0 + c1 * w) as f64).ln();
    log.call("fargrid", json!({"rule": rule, "a": aname, "w": w, "n": n, "c0": c0, "c1": c1}), || {
        let mut ncalls: i64 = 0;
        let mut samples: Vec<Value> = vec![];
        let dens = |i: usize, x: f64| {
            ncalls += 1;
            if i <= 2 || i + 3 >= n || i % 50_000 == 0 {
                let ii = std::cmp::min(i, n - 1); // the right boundary is announced as n
                let ideal = a + ii as f64 * h;
                samples.push(json!([i, ((x - ideal) / ulp).round().max(-1.0e9).min(1.0e9) as i64]));
            }
            LogProb((c0 as f64 + c1 as f64 * (x - a)).ln())
        };
        let res = if rule == "trapz" {
            LogProb::ln_trapezoidal_integrate_exp(dens, a, b, n)
        } else {
            LogProb::ln_simpsons_integrate_exp(dens, a, b, n)
        };
        let mut v = fix(*res - (w as f64).ln(), lmax, UNIT);
        v["ncalls"] = json!(ncalls);
        v["samples"] = Value::Array(samples);
        v
    });
}

fn conv_chain(start: f64, chain: &[&str]) -> f64 {
    // start is a probability; returns the probability represented at the end (std functions
    // for entering / leaving the chain = projection)
    #[derive(Clone, Copy)]
    enum V {
        P(Prob),
        L(LogProb),
        Q(PHREDProb),
    }
    let mut v = match chain[0] {
        "p2l" | "p2q" => V::P(Prob(start)),
        "l2p" | "l2q" => V::L(LogProb(start.ln())),
        _ => V::Q(PHREDProb(-10.0 * start.log10())),
    };
    for s in chain {
        v = match (*s, v) {
            ("p2l", V::P(p)) => V::L(LogProb::from(p)),
            ("p2q", V::P(p)) => V::Q(PHREDProb::from(p)),
            ("l2p", V::L(l)) => V::P(Prob::from(l)),
            ("l2q", V::L(l)) => V::Q(PHREDProb::from(l)),
            ("q2p", V::Q(q)) => V::P(Prob::from(q)),
            ("q2l", V::Q(q)) => V::L(LogProb::from(q)),
            _ => panic!("ill-typed chain"),
        };
    }
    match v {
        V::P(p) => *p,
        V::L(l) => l.exp(),
        V::Q(q) => 10f64.powf(-*q / 10.0),
    }
}

pub fn drive(log: &mut Log) {
    let seed = log.opts.seed;
    let mut case: u64 = 0;

    // (a) binary operations over the magnitude grid
    for _ in 0..log.opts.n(400, 4000) {
        case += 1;
        if !log.mine(case) {
            continue;
        }
        let mut rng = Rng::new(seed, 15, case);
        if !log.begin("bin", json!({"kind": "ops"})) {
            continue;
        }
        for _ in 0..12 {
            let a = rand_lp(&mut rng);
            let b = near(&mut rng, a);
            let (hi, lo) = if a >= b { (a, b) } else { (b, a) };
            if a == b {
                log.oblige("equal_operands");
            }
            if lo == f64::NEG_INFINITY {
                log.oblige("zero_operand");
            }
            if hi == f64::NEG_INFINITY {
                log.oblige("both_zero");
            }
            if lo > f64::NEG_INFINITY && hi - lo > 500.0 {
                log.oblige("below_fastexp_min");
            }
            if lo > f64::NEG_INFINITY && hi - lo > 745.0 {
                log.oblige("gap_beyond_f64");
            }
            if lo > f64::NEG_INFINITY && (hi - lo - 500.0).abs() < 2.5 {
                log.oblige("around_fastexp_min");
            }
            if rng.coin() {
                call_add(log, a, b);
            } else {
                call_add(log, hi, lo);
            }
            call_add(log, lo, hi); // swapped argument order
            call_sub(log, hi, lo);
            let d = lo - hi;
            if lo > f64::NEG_INFINITY {
                if d < -0.693 {
                    log.oblige("sub_fast_branch");
                } else {
                    log.oblige("sub_exact_branch");
                }
            }
        }
    }

    // (a2) subtraction of two log-probabilities of large magnitude that are nearly equal AS LOGS
    // (relative difference 1e-6 .. 1e-5 of |lp|) but differ by 0.5 % .. 60 % as probabilities
    {
        case += 1;
        if log.mine(case) && log.begin("subnear", json!({"kind": "ops"})) {
            for &a in &[-600.0f64, -650.0, -700.0, -740.0, -1000.0, -5000.0, -1.0e5, -9.0e5] {
                for &r in &[9.0e-6f64, 5.0e-6, 2.0e-6, 1.0e-6, 9.9e-6] {
                    let b = a + a * r; // b < a
                    call_sub(log, a, b);
                    call_add(log, a, b);
                    log.oblige("sub_nearly_equal_logs_large_magnitude");
                }
            }
        }
    }

    // (a3) the value types themselves: operators vs their documented meaning (LogProb + / - are
    // product / quotient, Prob + - * / are linear), Sum impls, Default / Zero, PartialOrd, serde
    // round trip, cap_numerical_overshoot with every epsilon relation. Operands are exact
    // per-mille values k / 1000.
    for _ in 0..log.opts.n(40, 400) {
        case += 1;
        if !log.mine(case) {
            continue;
        }
        let mut rng = Rng::new(seed, 25, case);
        if !log.begin("types", json!({"kind": "ops"})) {
            continue;
        }
        let to9 = |x: f64| -> Value {
            if x.is_nan() {
                json!({"v": 0, "nan": 1, "inf": 0})
            } else if x.is_infinite() {
                json!({"v": if x > 0.0 { 1 } else { -1 }, "nan": 0, "inf": 1})
            } else {
                json!({"v": (x * UNIT9).round().max(-2.0e9).min(2.0e9) as i64, "nan": 0, "inf": 0})
            }
        };
        for _ in 0..10 {
            let k0 = match rng.below(5) { 0 => 0, 1 => 1000, _ => rng.range(1, 999) };
            let k1 = match rng.below(5) { 0 => 1000, 1 => std::cmp::max(k0, 1), _ => rng.range(1, 1000) };
            let (p0, p1) = (k0 as f64 / 1000.0, k1 as f64 / 1000.0);
            let (l0, l1) = (LogProb::from(Prob(p0)), LogProb::from(Prob(p1)));
            let (q0, q1) = (PHREDProb::from(Prob(p0)), PHREDProb::from(Prob(p1)));
            log.call("operators", json!({"k0": k0, "k1": k1}), || {
                let mut la = l0;
                la += l1;
                let mut ls = l0;
                ls -= l1;
                json!({
                    "l_add": to9((*(l0 + l1)).exp()), "l_sub": to9((*(l0 - l1)).exp()),
                    "l_add_assign": to9((*la).exp()), "l_sub_assign": to9((*ls).exp()),
                    "p_add": to9(*(Prob(p0) + Prob(p1))), "p_sub": to9(*(Prob(p0) - Prob(p1))),
                    "p_mul": to9(*(Prob(p0) * Prob(p1))), "p_div": to9(*(Prob(p0) / Prob(p1))),
                    "l_sum_ref": to9((*[l0, l1, l1].iter().sum::<LogProb>()).exp()),
                    "l_sum_val": to9((*vec![l0, l1].into_iter().sum::<LogProb>()).exp()),
                    "lt": [(l0 < l1) as u8, (Prob(p0) < Prob(p1)) as u8, (q0 < q1) as u8],
                    "eq": [(l0 == l1) as u8, (Prob(p0) == Prob(p1)) as u8, (q0 == q1) as u8],
                    "gt": [(l0 > l1) as u8, (Prob(p0) > Prob(p1)) as u8, (q0 > q1) as u8],
                    "valid": l0.is_valid() as u8,
                })
            });
            // serde round trip (finite values only: JSON has no infinities)
            let kf = rng.range(1, 1000);
            log.call("serde", json!({"k": kf}), || {
                let p = Prob(kf as f64 / 1000.0);
                let l = LogProb::from(p);
                let q = PHREDProb::from(p);
                let p2: Prob = serde_json::from_str(&serde_json::to_string(&p).unwrap()).unwrap();
                let l2: LogProb = serde_json::from_str(&serde_json::to_string(&l).unwrap()).unwrap();
                let q2: PHREDProb = serde_json::from_str(&serde_json::to_string(&q).unwrap()).unwrap();
                json!({"p": to9(*p2), "l": to9((*l2).exp()), "q": to9(10f64.powf(-*q2 / 10.0))})
            });
        }
        log.call("defaults", json!({}), || {
            use num_traits::Zero;
            json!({
                "logprob_default_neginf": (*LogProb::default() == f64::NEG_INFINITY) as u8,
                "phred_default_posinf": (*PHREDProb::default() == f64::INFINITY) as u8,
                "prob_default": to9(*Prob::default()),
                "logprob_zero_is_zero": LogProb::zero().is_zero() as u8,
                "prob_zero_is_zero": Prob::zero().is_zero() as u8,
                "phred_zero_is_zero": PHREDProb::zero().is_zero() as u8,
                "ln_one_is_zero": LogProb::ln_one().is_zero() as u8,
                "half_is_zero": LogProb(-0.7).is_zero() as u8,
                "tiny_is_zero": LogProb(-1.0e6).is_zero() as u8,
                "ln_one": to9((*LogProb::ln_one()).exp()),
                "ln_zero_neginf": (*LogProb::ln_zero() == f64::NEG_INFINITY) as u8,
                "zero_plus": to9((*(LogProb::zero() + LogProb(-1.0))).exp()),
            })
        });
        // cap_numerical_overshoot(v, eps) in units of 1e-9
        for _ in 0..8 {
            let en = *rng.pick(&[0i64, 1, 100, 100_000]);
            let vn = match rng.below(6) {
                0 => en,
                1 => en + 1,
                2 => en - 1,
                3 => 0,
                4 => -rng.range(1, 1_000_000),
                _ => rng.range(1, 200_000),
            };
            log.call("cap", json!({"vn": vn, "en": en}), || {
                let r = LogProb(vn as f64 * 1.0e-9).cap_numerical_overshoot(en as f64 * 1.0e-9);
                json!({"v": (*r * UNIT9).round() as i64})
            });
        }
        log.oblige("operators_vs_named_methods");
        log.oblige("cap_overshoot_epsilon_relations");
    }

    // (b) complement around the switch point of ln_1m_exp and over the whole range
    for _ in 0..log.opts.n(150, 1500) {
        case += 1;
        if !log.mine(case) {
            continue;
        }
        let mut rng = Rng::new(seed, 16, case);
        if !log.begin("compl", json!({"kind": "ops"})) {
            continue;
        }
        for _ in 0..20 {
            let a = match rng.below(6) {
                0 => -0.693 + (rng.range(-2000, 2000) as f64) * 1.0e-6,
                1 => -0.693,
                2 => (rng.range(0, 1_000_000) as f64 / 1.0e6).ln(),
                3 => -(rng.below(10_000) as f64) * 1.0e-7,
                4 => 0.0,
                _ => rand_lp(&mut rng),
            };
            if a < -0.693 {
                log.oblige("ln1m_fast_branch");
            } else {
                log.oblige("ln1m_exact_branch");
            }
            if (a + 0.693).abs() < 0.0021 {
                log.oblige("ln1m_switch_neighbourhood");
            }
            call_complement(log, a);
        }
    }

    // (c) n-ary sums and cumulative sums, 0..200 elements
    for i in 0..log.opts.n(300, 3000) {
        case += 1;
        if !log.mine(case) {
            continue;
        }
        let mut rng = Rng::new(seed, 17, case);
        if !log.begin("list", json!({"kind": "ops"})) {
            continue;
        }
        let n = match i % 8 {
            0 => 0,
            1 => 1,
            2 => 2,
            3 => 200,
            4 => rng.range(100, 200) as usize,
            _ => rng.range(3, 40) as usize,
        };
        let base = rand_lp(&mut rng);
        let lps: Vec<f64> = match rng.below(4) {
            0 => (0..n).map(|_| base).collect(), // all equal
            1 => (0..n).map(|_| near(&mut rng, base)).collect(),
            2 => (0..n).map(|_| if rng.chance(2, 3) { f64::NEG_INFINITY } else { near(&mut rng, base) }).collect(),
            _ => (0..n).map(|_| rand_lp(&mut rng)).collect(),
        };
        match n {
            0 => log.oblige("sum_empty"),
            1 => log.oblige("sum_single"),
            200 => log.oblige("sum_200"),
            _ => {}
        }
        if n > 1 && lps.iter().filter(|l| **l > f64::NEG_INFINITY).count() <= 1 {
            log.oblige("sum_neutral");
        }
        call_sum(log, &lps);
        call_cumsum(log, &lps);
        // the maximum at another position
        let mut rev = lps.clone();
        rev.reverse();
        call_sum(log, &rev);
        call_cumsum(log, &rev);
        // a random permutation (order independence within the tolerance), and the cumulative sum
        // over iterators without an exact size hint (filter / flat_map)
        let mut perm = lps.clone();
        for i in (1..perm.len()).rev() {
            let j = rng.below(i as u64 + 1) as usize;
            perm.swap(i, j);
        }
        call_sum(log, &perm);
        if n > 0 {
            log.oblige("sum_permuted");
        }
        {
            let m = lpmax_of(&perm);
            let v: Vec<LogProb> = perm.iter().map(|&l| LogProb(l)).collect();
            log.call("cumsum", ops_json(&perm, m), || {
                let it = v.iter().cloned().filter(|p| !p.is_nan());
                let out: Vec<Value> = LogProb::ln_cumsum_exp(it).map(|s| fix(*s, m, UNIT)).collect();
                json!({"vs": Value::Array(out)})
            });
            log.call("cumsum", ops_json(&perm, m), || {
                let it = v.chunks(3).flat_map(|c| c.iter().cloned());
                let out: Vec<Value> = LogProb::ln_cumsum_exp(it).map(|s| fix(*s, m, UNIT)).collect();
                json!({"vs": Value::Array(out)})
            });
            log.oblige("cumsum_inexact_size_hint");
        }
    }

    // (d) integration rules on smooth densities
    for _ in 0..log.opts.n(60, 600) {
        case += 1;
        if !log.mine(case) {
            continue;
        }
        let mut rng = Rng::new(seed, 18, case);
        if !log.begin("integ", json!({"kind": "ops"})) {
            continue;
        }
        for &n in &[3usize, 5, 11, 101] {
            let shape = rng.below(6);
            let a = rng.below(4) as f64;
            let b = a + 1.0 + rng.below(9) as f64;
            call_trapz_simpson(log, "trapz", shape, a, b, n);
            call_trapz_simpson(log, "simpson", shape, a, b, n);
            // the same rules with a density that is a table looked up by the announced index
            let ishape = 1 + rng.below(5); // non-constant
            call_idx(log, "trapz_idx", ishape, a, b, n);
            call_idx(log, "simpson_idx", ishape, a, b, n);
            log.oblige("index_driven_density");
            log.oblige(match n {
                3 => "grid_n3",
                5 => "grid_n5",
                11 => "grid_n11",
                _ => "grid_n101",
            });
            // non-uniform integer grid (total width <= 400)
            let mut g: Vec<i64> = vec![rng.below(5) as i64];
            for _ in 1..std::cmp::min(n, 60) {
                let last = *g.last().unwrap();
                g.push(last + 1 + rng.below(6) as i64);
            }
            call_grid(log, shape, &g);
            call_grid_idx(log, 1 + rng.below(5), &g);
        }
        call_trapz_simpson(log, "trapz", rng.below(6), 0.0, 7.0, 4); // even n is fine for the trapezoid
        // nested helpers (2-D integrals): every outer / inner combination over the run's lifetime
        let rules = ["trapz", "simpson", "grid"];
        for _ in 0..2 {
            let (o, i) = (*rng.pick(&rules), *rng.pick(&rules));
            call_nested(log, o, i, rng.below(3), *rng.pick(&[3usize, 5, 9]), *rng.pick(&[3usize, 5, 11]));
            log.oblige("integration_helper_reentered_from_density");
        }
        log.oblige("grid_nonuniform");
    }

    // (e) conversions and Prob::checked
    let chains: [&[&str]; 12] = [
        &["p2l"], &["p2q"], &["l2q"], &["q2l"], &["q2p"], &["l2p"],
        &["p2l", "l2q", "q2p"], &["p2q", "q2l", "l2p"], &["p2l", "l2p"], &["p2q", "q2p"],
        &["l2q", "q2l"], &["q2l", "l2q", "q2p", "p2l", "l2p"],
    ];
    for _ in 0..log.opts.n(60, 600) {
        case += 1;
        if !log.mine(case) {
            continue;
        }
        let mut rng = Rng::new(seed, 19, case);
        if !log.begin("conv", json!({"kind": "ops"})) {
            continue;
        }
        for ch in chains.iter() {
            for _ in 0..3 {
                let x9: i64 = match rng.below(6) {
                    0 => 1_000_000_000,
                    1 => 0,
                    2 => 500_000_000,
                    3 => rng.range(1, 1000),
                    _ => rng.range(1, 999_999_999),
                };
                let p = x9 as f64 / UNIT9;
                if ch.contains(&"l2p") {
                    log.oblige("conv_approx");
                } else {
                    log.oblige("conv_exact");
                }
                if x9 == 0 {
                    log.oblige("conv_zero");
                }
                let chain: Vec<&str> = ch.to_vec();
                log.call("conv", json!({"chain": chain, "x": x9}), || {
                    let r = conv_chain(p, ch);
                    if r.is_nan() {
                        json!({"v": -1, "nan": 1})
                    } else {
                        json!({"v": (r * UNIT9).round().min(2.0e9) as i64, "nan": 0})
                    }
                });
            }
        }
        // checked construction
        let specials: [(&str, f64); 8] = [
            ("nan", f64::NAN), ("posinf", f64::INFINITY), ("neginf", f64::NEG_INFINITY), ("negzero", -0.0),
            ("min_positive", f64::MIN_POSITIVE), ("minus_min_positive", -f64::MIN_POSITIVE),
            ("one_plus_ulp", 1.0 + f64::EPSILON), ("one_minus_ulp", 1.0 - f64::EPSILON / 2.0),
        ];
        for (kind, val) in specials.iter() {
            log.call("checked", json!({"kind": kind, "num": 0, "den": 1}), || match Prob::checked(*val) {
                Ok(p) => json!({"ok": 1, "v": (*p * UNIT).round() as i64}),
                Err(_) => json!({"ok": 0, "v": -1}),
            });
        }
        log.oblige("checked_special");
        for _ in 0..12 {
            let den = *rng.pick(&[1i64, 2, 4, 10, 1000, 1_000_000]);
            let num = match rng.below(6) {
                0 => 0,
                1 => den,
                2 => den + 1,
                3 => -1,
                4 => rng.range(-2 * den, 3 * den),
                _ => rng.range(0, den),
            };
            if num == 0 || num == den {
                log.oblige("checked_boundary");
            }
            if num < 0 || num > den {
                log.oblige("checked_outside");
            }
            let val = num as f64 / den as f64;
            log.call("checked", json!({"kind": "ratio", "num": num, "den": den}), || match Prob::checked(val) {
                Ok(p) => json!({"ok": 1, "v": (*p * UNIT).round() as i64}),
                Err(_) => json!({"ok": 0, "v": -1}),
            });
        }
    }

    // (g) dense sweep of log-differences across the region where exp() leaves the normal f64
    // range (exp(-708.4) is the smallest normal, exp(-745.13) the smallest subnormal f64):
    // d from -746 to -699 in steps of 0.05, plus the exact edges; every binary / n-ary
    // operation in both argument orders, complement, and the conversion LogProb -> Prob
    {
        let mut ds: Vec<f64> = (0..=940).map(|i| -746.0 + 0.05 * i as f64).collect();
        ds.extend_from_slice(&[-709.78, -709.79, -709.782_712_893_384, -710.0, -745.13, -745.14, -744.44, -708.39, -708.4]);
        for chunk in ds.chunks(40) {
            case += 1;
            if !log.mine(case) {
                continue;
            }
            let mut rng = Rng::new(seed, 21, case);
            if !log.begin("sweep", json!({"kind": "ops"})) {
                continue;
            }
            for &d in chunk {
                let a = *rng.pick(&[0.0f64, -0.693_147_180_559_945_3, -3.7, -41.5]);
                let b = a + d;
                call_add(log, a, b);
                call_add(log, b, a);
                call_sub(log, a, b);
                call_sum(log, &[b, a, b]);
                call_sum(log, &[a, b]);
                call_cumsum(log, &[b, a, b]);
                call_complement(log, d);
                let x9 = (d.exp() * UNIT9).round() as i64; // 0 everywhere in this region
                log.call("l2p_at", json!({"x": x9}), || {
                    let p = *Prob::from(LogProb(d));
                    if p.is_nan() {
                        json!({"v": -1, "nan": 1, "inf": 0})
                    } else if p.is_infinite() {
                        json!({"v": -1, "nan": 0, "inf": 1})
                    } else {
                        json!({"v": (p * UNIT9).round().max(-2.0e9).min(2.0e9) as i64, "nan": 0, "inf": 0})
                    }
                });
                if d > -710.0 && d < -709.78 {
                    log.oblige("exp_biased_exponent_minus_one");
                }
            }
            log.oblige("exp_range_edge_sweep");
        }
    }

    // (h) closed-form families with 10^5 .. 10^6 operands (never written down): one dominant
    // element at position `pos` plus classes <<x, mult>>, x in units of 1e-9 of the dominant one
    // (the harness builds lp = lp_dom + ln(x * 1e-9)); tail totals between 1 % and 60 % of the
    // dominant element although every tail element is below 1.2e-7 of it
    {
        let lists: [(&[(i64, i64)], &str); 7] = [
            (&[(41, 300_000)], "e-17 x 300000"),
            (&[(118, 1_000_000)], "just below ln(f32 eps)"),
            (&[(119, 500_000), (120, 400_000)], "around ln(f32 eps)"),
            (&[(10, 999_999)], "1e-8 x 10^6"),
            (&[(41, 100_000), (100, 200_000), (1, 50_000)], "three classes"),
            (&[(500, 200_000), (41, 250_000)], "one class above the single precision ratio"),
            (&[(100, 42_500)], "barely 0.4 %"),
        ];
        for (li, (cl, _what)) in lists.iter().enumerate() {
            for posk in 0..3u64 {
                case += 1;
                if !log.mine(case) {
                    continue;
                }
                if !log.opts.thorough() && (li as u64 + posk + seed) % 2 == 1 {
                    continue; // quick: half of the (list, position) pairs, rotating with the seed
                }
                let mut rng = Rng::new(seed, 22, case);
                if !log.begin("big", json!({"kind": "ops"})) {
                    continue;
                }
                let ntail: i64 = cl.iter().map(|c| c.1).sum();
                let n = ntail + 1;
                let pos: i64 = match posk {
                    0 => 1,
                    1 => n,
                    _ => 1 + rng.range(1, ntail - 1),
                };
                let lp_dom = *rng.pick(&[0.0f64, -0.693_147_180_559_945_3, -20.0, -300.0]);
                let mut lps: Vec<LogProb> = Vec::with_capacity(n as usize);
                for &(x, mult) in cl.iter() {
                    let lp = lp_dom + (x as f64 * 1.0e-9).ln();
                    for _ in 0..mult {
                        lps.push(LogProb(lp));
                    }
                }
                lps.insert((pos - 1) as usize, LogProb(lp_dom));
                let cls: Vec<Value> = cl.iter().map(|c| json!([c.0, c.1])).collect();
                log.call("bigsum", json!({"cl": cls.clone(), "pos": pos, "n": n}), || {
                    fix(*LogProb::ln_sum_exp(&lps), lp_dom, UNIT)
                });
                let mut at: Vec<i64> = vec![1, pos - 1, pos, pos + 1, n / 2, n - 1, n];
                at.retain(|&k| k >= 1 && k <= n);
                at.sort();
                at.dedup();
                log.call("bigcumsum", json!({"cl": cls, "pos": pos, "n": n, "at": i64s(&at)}), || {
                    let mut out: Vec<Value> = vec![];
                    let mut next = 0usize;
                    for (i, sres) in LogProb::ln_cumsum_exp(lps.iter().cloned()).enumerate() {
                        if next < at.len() && (i as i64 + 1) == at[next] {
                            out.push(fix(*sres, lp_dom, UNIT));
                            next += 1;
                        }
                    }
                    json!({"vs": Value::Array(out)})
                });
                log.oblige("more_than_42000_summands");
            }
        }
        // lists up to 10^7 elements: classes <<xm, xe, mult>> (value xm * 10^-xe of the dominant
        // element): per-term ratios from e^-15 down to e^-40, totals n * r from negligible to 50 %
        let huge: [&[(i64, i64, i64)]; 6] = [
            &[(206, 11, 8_000_000)],                      // e^-20 x 8e6 = 1.65 %
            &[(42, 19, 10_000_000)],                      // e^-40 x 1e7: negligible
            &[(1, 9, 10_000_000)],                        // 1e-9 x 1e7 = 1 %
            &[(306, 9, 1_000_000)],                       // e^-15 x 1e6 = 30.6 %
            &[(100, 11, 5_000_000), (5, 9, 4_000_000)],   // e^-20.7 and e^-19.1: 0.5 % + 2 %
            &[(206, 11, 2_500_000)],                      // e^-20 x 2.5e6 = 0.52 %
        ];
        for (hi, cl) in huge.iter().enumerate() {
            case += 1;
            if !log.mine(case) {
                continue;
            }
            if !log.opts.thorough() && (hi as u64 + seed) % 3 != 0 {
                continue; // quick: two of the six lists, rotating with the seed
            }
            let mut rng = Rng::new(seed, 24, case);
            if !log.begin("huge", json!({"kind": "ops"})) {
                continue;
            }
            let ntail: i64 = cl.iter().map(|c| c.2).sum();
            let n = ntail + 1;
            let pos: i64 = match rng.below(3) {
                0 => 1,
                1 => n,
                _ => 1 + rng.range(1, ntail - 1),
            };
            let lp_dom = *rng.pick(&[0.0f64, -0.693_147_180_559_945_3, -100.0]);
            let mut lps: Vec<LogProb> = Vec::with_capacity(n as usize);
            for &(xm, xe, mult) in cl.iter() {
                let lp = lp_dom + (xm as f64).ln() - xe as f64 * std::f64::consts::LN_10;
                for _ in 0..mult {
                    lps.push(LogProb(lp));
                }
            }
            lps.insert((pos - 1) as usize, LogProb(lp_dom));
            let cls: Vec<Value> = cl.iter().map(|c| json!([c.0, c.1, c.2])).collect();
            log.call("hugesum", json!({"cl": cls.clone(), "pos": pos, "n": n}), || {
                fix(*LogProb::ln_sum_exp(&lps), lp_dom, UNIT)
            });
            let mut at: Vec<i64> = vec![1, pos - 1, pos, pos + 1, n / 2, n - 1, n];
            at.retain(|&k| k >= 1 && k <= n);
            at.sort();
            at.dedup();
            log.call("hugecumsum", json!({"cl": cls, "pos": pos, "n": n, "at": i64s(&at)}), || {
                let mut out: Vec<Value> = vec![];
                let mut next = 0usize;
                for (i, sres) in LogProb::ln_cumsum_exp(lps.iter().cloned()).enumerate() {
                    if next < at.len() && (i as i64 + 1) == at[next] {
                        out.push(fix(*sres, lp_dom, UNIT));
                        next += 1;
                    }
                }
                json!({"vs": Value::Array(out)})
            });
            log.oblige("more_than_2400000_summands");
        }

        // integration grids with 10^5 .. 10^6 points: one peak cell on a piecewise constant floor
        // (the last two: 8 000 001 points with a floor of 2e-9 = e^-20.03 of the peak)
        let grids: [(usize, i64, i64); 6] = [(1_000_001, 41, 41), (300_001, 118, 60), (100_001, 100, 119), (1_000_001, 10, 100),
            (8_000_001, 2, 2), (8_000_001, 2, 1)];
        for (gi, &(n, x1, x2)) in grids.iter().enumerate() {
            for rule in ["bigtrapz", "bigsimpson"].iter() {
                case += 1;
                if !log.mine(case) {
                    continue;
                }
                if !log.opts.thorough() && (gi as u64 + seed + (*rule == "bigsimpson") as u64) % 2 == 1 {
                    continue;
                }
                let mut rng = Rng::new(seed, 23, case);
                if !log.begin("biggrid", json!({"kind": "ops"})) {
                    continue;
                }
                let kp = match rng.below(4) {
                    0 => 0,
                    1 => n - 1,
                    _ => rng.range(1, n as i64 - 2) as usize,
                };
                let h = rng.range(0, n as i64) as usize;
                let peak_lp = *rng.pick(&[0.0f64, -2.0, -250.0]);
                let step = 0.001f64;
                let a = 0.0f64;
                let b = step * (n as f64 - 1.0);
                log.call(rule, json!({"n": n, "kp": kp, "h": h, "x1": x1, "x2": x2}), || {
                    let mut ncalls: i64 = 0;
                    let dens = |_i: usize, x: f64| {
                        ncalls += 1;
                        let k = ((x - a) / (b - a) * (n as f64 - 1.0)).round() as usize; // abscissa -> grid index
                        if k == kp {
                            LogProb(peak_lp)
                        } else if k < h {
                            LogProb(peak_lp + (x1 as f64 * 1.0e-9).ln())
                        } else {
                            LogProb(peak_lp + (x2 as f64 * 1.0e-9).ln())
                        }
                    };
                    let (res, wtot) = if *rule == "bigtrapz" {
                        (LogProb::ln_trapezoidal_integrate_exp(dens, a, b, n), 2.0 * (n as f64 - 1.0))
                    } else {
                        (LogProb::ln_simpsons_integrate_exp(dens, a, b, n), 3.0 * (n as f64 - 1.0))
                    };
                    // the weighted sum of the rule relative to the peak value
                    let mut v = fix(*res - (b - a).ln() + wtot.ln(), peak_lp, UNIT);
                    v["ncalls"] = json!(ncalls);
                    v
                });
                log.oblige("grid_more_than_100000_points");
                if n > 2_400_000 {
                    log.oblige("grid_more_than_2400000_points");
                }
            }
        }
    }

    // (i) fine grids far from the origin: the step is close to (or below) the spacing of f64 there
    {
        let places: [(&str, f64, i64); 3] = [("2^30", 1073741824.0, 1), ("-2^40", -1099511627776.0, 4), ("10^9", 1.0e9, 10)];
        for (pi, &(aname, a, w)) in places.iter().enumerate() {
            for (ri, rule) in ["trapz", "simpson"].iter().enumerate() {
                case += 1;
                if !log.mine(case) {
                    continue;
                }
                if !log.opts.thorough() && (pi as u64 + ri as u64 + seed) % 2 == 1 {
                    continue;
                }
                let mut rng = Rng::new(seed, 26, case);
                if !log.begin("far", json!({"kind": "ops"})) {
                    continue;
                }
                let n = *rng.pick(&[100_001usize, 500_001, 1_000_001]);
                call_fargrid(log, rule, aname, a, w, n, rng.range(1, 5), rng.range(1, 9));
                log.oblige("fine_grid_far_from_origin");
            }
        }
    }

    // (f) accumulator chains: one LogProb value driven through add / sub / complement
    // (absolute scale; the machine layer of ProbAlgebra)
    for _ in 0..log.opts.n(200, 2000) {
        case += 1;
        if !log.mine(case) {
            continue;
        }
        let mut rng = Rng::new(seed, 20, case);
        if !log.begin("chain", json!({"kind": "chain"})) {
            continue;
        }
        let x0 = rng.range(0, 1_000_000);
        let mut acc = LogProb::ln_zero();
        log.call("acc_new", json!({"x": x0}), || {
            acc = LogProb::from(Prob(x0 as f64 / UNIT));
            fix(*acc, 0.0, UNIT)
        });
        let steps = rng.range(3, 14);
        for _ in 0..steps {
            let x = match rng.below(5) {
                0 => 0,
                1 => rng.range(0, 100),
                _ => rng.range(0, 400_000),
            };
            let xl = LogProb::from(Prob(x as f64 / UNIT));
            let cur = acc;
            match rng.below(4) {
                0 | 1 => {
                    log.call("acc_add", json!({"x": x}), || {
                        acc = cur.ln_add_exp(xl);
                        fix(*acc, 0.0, UNIT)
                    });
                }
                2 => {
                    // precondition of ln_sub_exp
                    if cur >= xl {
                        log.call("acc_sub", json!({"x": x}), || {
                            acc = cur.ln_sub_exp(xl);
                            fix(*acc, 0.0, UNIT)
                        });
                    }
                }
                _ => {
                    // precondition of ln_one_minus_exp: a valid log-probability
                    if cur.is_valid() {
                        log.call("acc_compl", json!({}), || {
                            acc = cur.ln_one_minus_exp();
                            fix(*acc, 0.0, UNIT)
                        });
                    }
                }
            }
        }
        log.oblige("accumulator_chain");
    }
}

fn main() {
    bio_verif_harness::run(drive)
}
