//! X02 — position-specific scoring matrices (`bio::pattern_matching::pssm`).
//!
//! One run = one motif object: `build` (DNAMotif / ProtMotif `from_seqs`, or `From<Array2<f32>>`),
//! then `len`, `minmax`, `consensus`, `info`, and several `raw_score` / `score` queries on it.
//!
//! Counts and pseudocounts are logged in units of 1/1000; the harness does only the projection
//!   in : milli k -> f32 k / 1000
//!   out: f32 x   -> round(x * 10^4)   (information content: round(x * 1000))   + nan flag
//! No expected value is computed anywhere.
use bio::pattern_matching::pssm::{DNAMotif, Error, Motif, ProtMotif};
use bio_verif_harness::{bytes, Log, Rng};
use ndarray::Array2;
use serde_json::{json, Value};

const S: f64 = 10000.0;

fn fp(x: f32) -> i64 {
    if x.is_nan() {
        -999_999_999
    } else {
        let v = (x as f64 * S).round();
        if v > 2.0e9 {
            2_000_000_000
        } else if v < -2.0e9 {
            -2_000_000_000
        } else {
            v as i64
        }
    }
}

fn err_json(e: &Error) -> Value {
    match e {
        Error::QueryTooShort { motif_len, query_len } => {
            json!({"err": "QueryTooShort", "mono": -1, "x": *motif_len, "y": *query_len})
        }
        Error::InconsistentLen => json!({"err": "InconsistentLen", "mono": -1, "x": -1, "y": -1}),
        Error::InvalidMonomer { mono } => json!({"err": "InvalidMonomer", "mono": *mono, "x": -1, "y": -1}),
        Error::EmptyMotif => json!({"err": "EmptyMotif", "mono": -1, "x": -1, "y": -1}),
        Error::NullMotif => json!({"err": "NullMotif", "mono": -1, "x": -1, "y": -1}),
        Error::InvalidPseudos { expected, received } => {
            json!({"err": "InvalidPseudos", "mono": -1, "x": *expected, "y": *received})
        }
    }
}

enum Obj {
    D(DNAMotif),
    P(ProtMotif),
}

macro_rules! with {
    ($o:expr, $m:ident, $e:expr) => {
        match $o {
            Obj::D($m) => $e,
            Obj::P($m) => $e,
        }
    };
}

#[derive(Clone)]
struct Spec {
    kind: &'static str,
    ctor: &'static str, // seqs | array
    seqs: Vec<Vec<u8>>,
    pdef: bool,
    ps: Vec<u32>,      // milli
    w: Vec<Vec<u32>>,  // milli (ctor = array)
}

fn scores_json(a: &Array2<f32>) -> Value {
    Value::Array(a.rows().into_iter().map(|r| Value::Array(r.iter().map(|x| json!(fp(*x))).collect())).collect())
}

fn run_motif(log: &mut Log, tag: &str, sp: &Spec, queries: &[Vec<u8>]) {
    let cfg = json!({"kind": sp.kind, "ctor": sp.ctor,
        "seqs": Value::Array(sp.seqs.iter().map(|s| bytes(s)).collect()),
        "pdef": sp.pdef as u32, "ps": sp.ps,
        "w": Value::Array(sp.w.iter().map(|r| json!(r)).collect())});
    if !log.begin(tag, cfg) {
        return;
    }
    let mut obj: Option<Obj> = None;
    log.call("build", json!({}), || {
        let ps: Vec<f32> = sp.ps.iter().map(|&k| k as f32 / 1000.0).collect();
        let pso: Option<&[f32]> = if sp.pdef { None } else { Some(&ps) };
        let res: Result<Obj, Error> = if sp.ctor == "array" {
            let rows = sp.w.len();
            let cols = if sp.kind == "dna" { 4 } else { 20 };
            let a = Array2::from_shape_fn((rows, cols), |(i, j)| sp.w[i][j] as f32 / 1000.0);
            Ok(if sp.kind == "dna" { Obj::D(DNAMotif::from(a)) } else { Obj::P(ProtMotif::from(a)) })
        } else if sp.kind == "dna" {
            DNAMotif::from_seqs(&sp.seqs, pso).map(Obj::D)
        } else {
            ProtMotif::from_seqs(&sp.seqs, pso).map(Obj::P)
        };
        match res {
            Ok(o) => {
                let v = with!(&o, m, json!({"err": "", "mono": -1, "x": -1, "y": -1, "len": m.len(),
                    "scores": scores_json(m.get_scores()),
                    "min": fp(m.get_min_score()), "max": fp(m.get_max_score())}));
                obj = Some(o);
                v
            }
            Err(e) => {
                let mut v = err_json(&e);
                v["len"] = json!(-1);
                v["scores"] = json!([]);
                v["min"] = json!(0);
                v["max"] = json!(0);
                v
            }
        }
    });
    let obj = match obj {
        Some(o) => o,
        None => return,
    };
    log.call("consensus", json!({}), || with!(&obj, m, json!({"cs": bytes(&m.degenerate_consensus())})));
    log.call("info", json!({}), || {
        let x = with!(&obj, m, m.info_content());
        json!({"milli": if x.is_nan() { -999_999_999 } else { (x as f64 * 1000.0).round() as i64 }, "nan": x.is_nan() as u32})
    });
    for q in queries {
        log.call("raw_score", json!({"q": bytes(q)}), || {
            match with!(&obj, m, m.raw_score(q.iter())) {
                Ok((loc, sum, sc)) => json!({"err": "", "mono": -1, "x": -1, "y": -1, "loc": loc, "sum": fp(sum),
                    "scores": sc.iter().map(|x| fp(*x)).collect::<Vec<i64>>()}),
                Err(e) => {
                    let mut v = err_json(&e);
                    v["loc"] = json!(-1);
                    v["sum"] = json!(0);
                    v["scores"] = json!([]);
                    v
                }
            }
        });
        log.call("score", json!({"q": bytes(q)}), || {
            match with!(&obj, m, m.score(q.iter())) {
                Ok(sp) => json!({"err": "", "mono": -1, "x": -1, "y": -1, "loc": sp.loc, "sum": fp(sp.sum),
                    "scores": sp.scores.iter().map(|x| fp(*x)).collect::<Vec<i64>>()}),
                Err(e) => {
                    let mut v = err_json(&e);
                    v["loc"] = json!(-1);
                    v["sum"] = json!(0);
                    v["scores"] = json!([]);
                    v
                }
            }
        });
    }
}

const DNA: &[u8] = b"ATGC";
const DNA_AMB: &[u8] = b"MRWSYKVHDBN0";
const PROT: &[u8] = b"ARNDCEQGHILKMFPSTWYV";
const BAD_DNA_MOTIF: &[u8] = b"aXxZ1 -\xC8\x7F";       // lower case is not accepted by DNAMotif::incr
const BAD_PROT_MOTIF: &[u8] = b"BJOUZxbj1*\xC8\x7F";
const BAD_DNA_QUERY: &[u8] = b"NXM0u1 \xC8\x7F\xFF";
const BAD_PROT_QUERY: &[u8] = b"BJOUZXx1 \xC8\x7F\xFF";

fn pseudo_vec(rng: &mut Rng, k: usize, style: u64) -> Vec<u32> {
    match style {
        0 => vec![0; k],
        1 => vec![250 * (1 + rng.below(4)) as u32; k],
        2 => (0..k).map(|_| 250 * rng.below(5) as u32).collect(),
        3 => (0..k).map(|_| rng.below(2001) as u32).collect(),
        _ => (0..k).map(|_| 1 + rng.below(3) as u32).collect(), // tiny: 0.001 .. 0.003
    }
}

/// a column-structured set of motif sequences: per position a "profile" decides the letters
fn motif_seqs(rng: &mut Rng, kind: &str, n: usize, len: usize, amb: bool) -> Vec<Vec<u8>> {
    let alpha: &[u8] = if kind == "dna" { DNA } else { PROT };
    let mut seqs = vec![vec![0u8; len]; n];
    for pos in 0..len {
        let style = rng.below(6);
        let a = *rng.pick(alpha);
        let b = *rng.pick(alpha);
        for s in 0..n {
            seqs[s][pos] = match style {
                0 => a,                                             // conserved
                1 => if s % 2 == 0 { a } else { b },                // exactly half / half
                2 => if s * 4 < n * 3 { a } else { b },             // about 75 % : 25 %
                3 => alpha[s % alpha.len()],                        // uniform over the alphabet
                4 => if s == 0 { b } else { a },                    // one outlier
                _ => *rng.pick(alpha),
            };
            if amb && rng.chance(1, 6) {
                seqs[s][pos] = if kind == "dna" { *rng.pick(DNA_AMB) } else { b'X' };
            }
        }
    }
    seqs
}

fn has_mass(kind: &str, seqs: &[Vec<u8>], ps: &[u32], pdef: bool) -> bool {
    // every position must have a positive total (precondition of the normalisation)
    if pdef || ps.iter().any(|&p| p > 0) {
        return true;
    }
    if seqs.is_empty() {
        return true;
    }
    (0..seqs[0].len()).all(|pos| seqs.iter().any(|s| s.len() > pos && !(kind == "dna" && s[pos] == b'0')))
}

fn queries_for(rng: &mut Rng, kind: &str, seqs: &[Vec<u8>], len: usize, log: &mut Log) -> Vec<Vec<u8>> {
    let alpha: &[u8] = if kind == "dna" { DNA } else { PROT };
    let bad: &[u8] = if kind == "dna" { BAD_DNA_QUERY } else { BAD_PROT_QUERY };
    let mut qs: Vec<Vec<u8>> = vec![];
    let planted: Vec<u8> = if !seqs.is_empty() && seqs[0].len() == len {
        seqs[rng.below(seqs.len() as u64) as usize].iter().map(|&c| if alpha.contains(&c) { c } else { alpha[0] }).collect()
    } else {
        rng.seq(len, alpha)
    };
    // random background with one planted occurrence
    {
        let pre = rng.range(0, 6) as usize;
        let post = rng.range(0, 6) as usize;
        let mut q = rng.seq(pre, alpha);
        q.extend_from_slice(&planted);
        q.extend(rng.seq(post, alpha));
        qs.push(q);
    }
    // the same window twice (ties: the first one must be reported), also overlapping periodic text
    {
        let mut q = planted.clone();
        let gap = rng.range(0, 3) as usize;
        q.extend(rng.seq(gap, alpha));
        q.extend_from_slice(&planted);
        if rng.coin() {
            q.extend_from_slice(&planted);
        }
        qs.push(q);
        log.oblige("repeated_window");
        let c = *rng.pick(alpha);
        let extra = rng.range(1, 4) as usize;
        qs.push(vec![c; len + extra]);
    }
    // exactly the motif length; one shorter; empty
    qs.push(rng.seq(len, alpha));
    log.oblige("query_len_eq_motif");
    if len > 0 {
        qs.push(rng.seq(len - 1, alpha));
        log.oblige("query_too_short");
    }
    if rng.chance(1, 3) {
        qs.push(vec![]);
    }
    // invalid monomers: one or two, anywhere (also in the last position); lower case is valid
    {
        let n = len + rng.range(0, 6) as usize;
        let mut q = rng.seq(n, alpha);
        if n > 0 {
            let i = rng.below(n as u64) as usize;
            q[i] = *rng.pick(bad);
            if rng.coin() {
                let j = rng.below(n as u64) as usize;
                q[j] = *rng.pick(bad);
            }
            if rng.chance(1, 4) {
                q[n - 1] = *rng.pick(bad);
            }
            log.oblige("query_invalid_monomer");
        }
        qs.push(q);
        let extra = rng.range(0, 4) as usize;
        let mut q2 = rng.seq(len + extra, alpha);
        for c in q2.iter_mut() {
            if rng.coin() {
                *c = c.to_ascii_lowercase();
            }
        }
        log.oblige("query_lower_case");
        qs.push(q2);
    }
    // invalid monomer AND too short (the length error has precedence)
    if len > 1 && rng.chance(1, 3) {
        let mut q = rng.seq(len - 1, alpha);
        q[0] = *rng.pick(bad);
        qs.push(q);
    }
    qs
}

pub fn drive(log: &mut Log) {
    let seed = log.opts.seed;
    let mut case: u64 = 0;

    // (0) spec -> impl: the input family of the MC run (DNA; <= 2 sequences of length <= 2 over A T W !;
    // three pseudocount choices), each with every query of length <= 3 over A T ! (quick: a third of it)
    {
        let letters: [u8; 4] = [b'A', b'T', b'W', b'!'];
        let mut all: Vec<Vec<u8>> = vec![vec![]];
        for &a in &letters {
            all.push(vec![a]);
        }
        for &a in &letters {
            for &b in &letters {
                all.push(vec![a, b]);
            }
        }
        let qletters: [u8; 3] = [b'A', b'T', b'!'];
        let mut queries: Vec<Vec<u8>> = vec![vec![]];
        for l in 1..=3usize {
            for code in 0..3usize.pow(l as u32) {
                let mut c = code;
                let mut q = vec![];
                for _ in 0..l {
                    q.push(qletters[c % 3]);
                    c /= 3;
                }
                queries.push(q);
            }
        }
        let mut lists: Vec<Vec<Vec<u8>>> = vec![vec![]];
        for a in &all {
            lists.push(vec![a.clone()]);
        }
        for a in &all {
            for b in &all {
                lists.push(vec![a.clone(), b.clone()]);
            }
        }
        let mut k = 0u64;
        for l in &lists {
            for pv in 0..3 {
                k += 1;
                case += 1;
                if !log.opts.thorough() && k % 3 != seed % 3 {
                    continue;
                }
                if !log.mine(case) {
                    continue;
                }
                let (pdef, ps) = match pv {
                    0 => (true, vec![]),
                    1 => (false, vec![1000, 0, 0, 0]),
                    _ => (false, vec![500, 500]),
                };
                let sp = Spec { kind: "dna", ctor: "seqs", seqs: l.clone(), pdef, ps, w: vec![] };
                log.oblige("mc_family");
                run_motif(log, "ex", &sp, &queries);
            }
        }
    }

    // (a) DNA and protein motifs from sequences
    for _ in 0..log.opts.n(700, 6000) {
        case += 1;
        if !log.mine(case) {
            continue;
        }
        let mut rng = Rng::new(seed, 201, case);
        let kind = if rng.chance(2, 3) { "dna" } else { "prot" };
        let k = if kind == "dna" { 4 } else { 20 };
        let n = rng.range(1, 12) as usize;
        let len = if rng.chance(1, 25) { 0 } else { rng.range(1, 6) as usize };
        let amb = rng.chance(1, 3);
        let seqs = motif_seqs(&mut rng, kind, n, len, amb);
        let pdef = rng.chance(1, 3);
        let pstyle = rng.below(5);
        let ps = if pdef { vec![] } else { pseudo_vec(&mut rng, k, pstyle) };
        if !has_mass(kind, &seqs, &ps, pdef) {
            continue;
        }
        if len == 0 {
            log.oblige("empty_motif_len0");
        }
        if amb {
            log.oblige("ambiguous_codes");
        }
        if !pdef && pstyle == 0 {
            log.oblige("zero_pseudocounts");
        }
        if kind == "prot" {
            log.oblige("protein");
        }
        let sp = Spec { kind, ctor: "seqs", seqs: seqs.clone(), pdef, ps, w: vec![] };
        let qs = queries_for(&mut rng, kind, &seqs, len, log);
        run_motif(log, "seq", &sp, &qs);
    }

    // (b) information-free motifs (NullMotif), and motifs that are null at all but one position
    for _ in 0..log.opts.n(120, 900) {
        case += 1;
        if !log.mine(case) {
            continue;
        }
        let mut rng = Rng::new(seed, 202, case);
        let kind = if rng.chance(2, 3) { "dna" } else { "prot" };
        let alpha: &[u8] = if kind == "dna" { DNA } else { PROT };
        let k = alpha.len();
        let len = rng.range(1, 4) as usize;
        let reps = rng.range(1, 2) as usize;
        let mut seqs: Vec<Vec<u8>> = vec![];
        for _ in 0..reps {
            for s in 0..k {
                seqs.push((0..len).map(|p| alpha[(s + p) % k]).collect());
            }
        }
        let almost = rng.coin();
        if almost {
            let p = rng.below(len as u64) as usize;
            seqs[0][p] = seqs[1][p];
            log.oblige("almost_null_motif");
        } else {
            log.oblige("null_motif");
        }
        if kind == "dna" && rng.coin() {
            seqs.push(vec![b'N'; len]);
        }
        let pdef = rng.coin();
        let ps = if pdef { vec![] } else { vec![250 * rng.below(3) as u32; k] };
        let sp = Spec { kind, ctor: "seqs", seqs: seqs.clone(), pdef, ps, w: vec![] };
        let qs = queries_for(&mut rng, kind, &seqs, len, log);
        run_motif(log, "null", &sp, &qs);
    }

    // (c) construction errors: wrong pseudocount length, no sequences, unequal lengths, invalid monomers
    // (first error in sequence order wins)
    for _ in 0..log.opts.n(400, 3000) {
        case += 1;
        if !log.mine(case) {
            continue;
        }
        let mut rng = Rng::new(seed, 203, case);
        let kind = if rng.coin() { "dna" } else { "prot" };
        let k = if kind == "dna" { 4 } else { 20 };
        let n = rng.range(1, 6) as usize;
        let len = rng.range(1, 5) as usize;
        let amb = rng.chance(1, 4);
        let mut seqs = motif_seqs(&mut rng, kind, n, len, amb);
        let mut pdef = rng.coin();
        let mut ps = if pdef { vec![] } else { pseudo_vec(&mut rng, k, 1) };
        let bad: &[u8] = if kind == "dna" { BAD_DNA_MOTIF } else { BAD_PROT_MOTIF };
        let what = rng.below(6);
        match what {
            0 => {
                pdef = false;
                let l = *rng.pick(&[0usize, 1, 3, 5, 19, 21]);
                ps = vec![500; if l == k { l + 1 } else { l }];
                log.oblige("err_invalid_pseudos");
            }
            1 => {
                seqs.clear();
                log.oblige("err_empty_motif");
            }
            2 => {
                let s = rng.below(n as u64) as usize;
                if rng.coin() {
                    seqs[s].push(b'A');
                } else {
                    seqs[s].pop();
                }
                log.oblige("err_inconsistent_len");
            }
            3 => {
                let s = rng.below(n as u64) as usize;
                let p = rng.below(len as u64) as usize;
                seqs[s][p] = *rng.pick(bad);
                log.oblige("err_invalid_monomer");
            }
            4 => {
                // two errors: an invalid monomer and a length mismatch in different sequences
                let s = rng.below(n as u64) as usize;
                let p = rng.below(len as u64) as usize;
                seqs[s][p] = *rng.pick(bad);
                let s2 = rng.below(n as u64) as usize;
                seqs[s2].push(b'A');
                log.oblige("err_two_errors");
            }
            _ => {
                // everything at once
                pdef = false;
                ps = vec![500; k + 1];
                seqs.clear();
            }
        }
        if !has_mass(kind, &seqs, &ps, pdef) {
            continue;
        }
        let sp = Spec { kind, ctor: "seqs", seqs, pdef, ps, w: vec![] };
        run_motif(log, "err", &sp, &[]);
    }

    // (d) consensus boundaries: DNA columns built from small exact counts without pseudocounts
    // (exactly 50 %, exactly twice the runner-up, exactly 75 % for the top two, a zero count) and
    // with tiny pseudocounts (just off the boundary)
    for _ in 0..log.opts.n(300, 2500) {
        case += 1;
        if !log.mine(case) {
            continue;
        }
        let mut rng = Rng::new(seed, 204, case);
        let len = rng.range(1, 5) as usize;
        let n = *rng.pick(&[4usize, 8, 10, 12]);
        let mut seqs = vec![vec![0u8; len]; n];
        for pos in 0..len {
            // split n into four counts
            let mut perm: Vec<u8> = DNA.to_vec();
            for i in (1..4).rev() {
                let j = rng.below(i as u64 + 1) as usize;
                perm.swap(i, j);
            }
            let c0 = match rng.below(4) {
                0 => n / 2,
                1 => n * 3 / 4,
                2 => n / 2 + 1,
                _ => rng.range(1, n as i64) as usize,
            };
            let rest = n - c0;
            let c1 = match rng.below(3) {
                0 => rest,
                1 => rest / 2,
                _ => rng.range(0, rest as i64) as usize,
            };
            let c2 = if rng.coin() { n - c0 - c1 } else { (n - c0 - c1) / 2 };
            for s in 0..n {
                seqs[s][pos] = if s < c0 {
                    perm[0]
                } else if s < c0 + c1 {
                    perm[1]
                } else if s < c0 + c1 + c2 {
                    perm[2]
                } else {
                    perm[3]
                };
            }
        }
        let pst = rng.below(3);
        let (pdef, ps) = match pst {
            0 => (false, vec![0u32; 4]),
            1 => (false, pseudo_vec(&mut rng, 4, 4)),
            _ => (true, vec![]),
        };
        log.oblige("consensus_boundaries");
        let sp = Spec { kind: "dna", ctor: "seqs", seqs: seqs.clone(), pdef, ps, w: vec![] };
        let qs = queries_for(&mut rng, "dna", &seqs, len, log);
        run_motif(log, "cons", &sp, &qs[..2]);
    }

    // (e) motifs wrapped around a weight matrix (From<Array2<f32>>): positive weights
    for _ in 0..log.opts.n(200, 1500) {
        case += 1;
        if !log.mine(case) {
            continue;
        }
        let mut rng = Rng::new(seed, 205, case);
        let kind = if rng.chance(2, 3) { "dna" } else { "prot" };
        let k = if kind == "dna" { 4 } else { 20 };
        let len = rng.range(1, 5) as usize;
        let w: Vec<Vec<u32>> = (0..len)
            .map(|_| {
                let st = rng.below(3);
                (0..k).map(|_| match st {
                    0 => 1 + rng.below(10_000) as u32,
                    1 => 250 * (1 + rng.below(8)) as u32,
                    _ => if rng.chance(1, 4) { 9000 } else { 1 + rng.below(300) as u32 },
                }).collect()
            })
            .collect();
        log.oblige("from_array");
        let sp = Spec { kind, ctor: "array", seqs: vec![], pdef: true, ps: vec![], w };
        let qs = queries_for(&mut rng, kind, &[], len, log);
        run_motif(log, "arr", &sp, &qs);
    }
}

fn main() {
    bio_verif_harness::run(drive)
}
