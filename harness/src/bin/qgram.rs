//! C19 — q-gram codes and q-gram index.
//! kind "index": one run = one QGramIndex (alphabet, q, text, max_count); events `new`,
//!   `qgram_matches(g)`, `matches(p, min_count)`, `exact_matches(p)`.
//! kind "codes": one run = one RankTransform (alphabet, q); events `codes(t)`, `rev_codes(t)`;
//!   a code is written as its q fields of `bits` bits (a change of representation, because codes
//!   reach 2^64), plus the integer itself when it is below 2^30.
use bio::alphabets::{Alphabet, RankTransform};
use bio::data_structures::qgram_index::QGramIndex;
use bio_verif_harness::{bytes, usizes, Log, Rng};
use serde_json::{json, Value};

/// smallest b with 2^b >= sigma (width of one field of the packed code)
fn field_bits(sigma: usize) -> u32 {
    let mut b = 0u32;
    while (1usize << b) < sigma {
        b += 1;
    }
    b
}

fn split_code(code: usize, q: u32, bits: u32) -> (Vec<usize>, u8) {
    let mask: u128 = (1u128 << bits) - 1;
    let c = code as u128;
    let d: Vec<usize> = (0..q).map(|i| ((c >> (bits * (q - 1 - i))) & mask) as usize).collect();
    let hi = (c >> (bits * q)) != 0;
    (d, hi as u8)
}

fn codes_json(codes: &[usize], q: u32, bits: u32) -> Value {
    let mut d = vec![];
    let mut hi = vec![];
    for &c in codes {
        let (dd, h) = split_code(c, q, bits);
        d.push(usizes(&dd));
        hi.push(h);
    }
    let v: Vec<usize> = if bits * q <= 30 { codes.to_vec() } else { vec![] };
    json!({"d": d, "hi": hi, "v": v})
}

fn random_alphabet(rng: &mut Rng, sigma: usize) -> Vec<u8> {
    // distinct bytes in random order; sometimes a familiar one
    if sigma == 4 && rng.coin() {
        return b"TGCA".to_vec();
    }
    if sigma == 256 {
        return (0..=255u8).collect();
    }
    let mut pool: Vec<u8> = (0..=255u8).collect();
    let mut out = vec![];
    for _ in 0..sigma {
        let i = rng.below(pool.len() as u64) as usize;
        out.push(pool.swap_remove(i));
    }
    out
}

fn codes_run(log: &mut Log, rng: &mut Rng, alpha: &[u8], q: u32) {
    if !log.begin("cd", json!({"kind": "codes", "alpha": bytes(alpha), "q": q})) {
        return;
    }
    let bits = field_bits(alpha.len());
    if bits * q == 64 {
        log.oblige("codes_full_word");
    }
    if alpha.len() == 1 {
        log.oblige("codes_sigma1");
    }
    if bits * q > 30 {
        log.oblige("codes_beyond_2p30");
    }
    let mut rt: Option<RankTransform> = None;
    log.call("rt_new", json!({}), || {
        rt = Some(RankTransform::new(&Alphabet::new(alpha)));
        json!({})
    });
    let rt = match rt {
        Some(r) => r,
        None => return,
    };
    let q_us = q as usize;
    let mut texts: Vec<Vec<u8>> = vec![vec![]];
    for n in [q_us.saturating_sub(1), q_us, q_us + 1] {
        texts.push(rng.seq(n, alpha));
    }
    // extreme ranks: all-highest, all-lowest symbol
    let mut sorted = alpha.to_vec();
    sorted.sort_unstable();
    texts.push(vec![*sorted.last().unwrap(); q_us + 2]);
    texts.push(vec![sorted[0]; q_us + 2]);
    for _ in 0..3 {
        let n = rng.range(q as i64, q as i64 + 40) as usize;
        texts.push(rng.seq(n, alpha));
    }
    log.call("width", json!({}), || json!({"v": rt.get_width()}));
    if alpha.len() == 256 {
        log.oblige("alphabet_of_all_256_bytes");
    }
    if alpha.len() == 255 {
        log.oblige("alphabet_of_255_bytes");
    }
    // a copy of the transform made mid-history (clone / serde round trip / clone_from into a used
    // transform of another alphabet) answers the reverse iteration, the original the forward one
    let mut rt2: RankTransform = rt.clone();
    match (alpha.len() + q as usize) % 3 {
        0 => log.oblige("ranktransform_clone"),
        1 => {
            log.call("serde", json!({}), || {
                let text = serde_json::to_string(&rt).expect("serialize");
                rt2 = serde_json::from_str(&text).expect("deserialize");
                json!({"len": text.len()})
            });
            log.oblige("ranktransform_serde_roundtrip");
        }
        _ => {
            let mut used = RankTransform::new(&Alphabet::new(b"xyz"));
            let _ = used.get(b'y');
            used.clone_from(&rt);
            rt2 = used;
            log.oblige("ranktransform_clone_from_into_used_object");
        }
    }
    for t in &texts {
        log.call("codes", json!({"t": bytes(t)}), || {
            let c: Vec<usize> = rt.qgrams(q, t).collect();
            codes_json(&c, q, bits)
        });
        log.call("rev_codes", json!({"t": bytes(t)}), || {
            let c: Vec<usize> = rt2.rev_qgrams(q, t).collect();
            codes_json(&c, q, bits)
        });
        if bits * q > 30 {
            continue;
        }
        // the same code sequence consumed in other ways and fed from other kinds of iterators
        let opt = |x: Option<usize>| x.map(|v| v as i64).unwrap_or(-1);
        log.call("codes_iter", json!({"t": bytes(t)}), || {
            let it = rt.qgrams(q, t);
            let (lo, hi) = it.size_hint();
            let len = it.len();
            let rit = rt2.rev_qgrams(q, t);
            let (rlo, rhi) = rit.size_hint();
            let mut forks = vec![];
            let total = rt.qgrams(q, t).count();
            for k in [0usize, 1, total / 2, total] {
                if k > total {
                    continue;
                }
                let mut a = rt.qgrams(q, t);
                let h: Vec<usize> = a.by_ref().take(k).collect();
                let b = a.clone();
                let mut ra = rt2.rev_qgrams(q, t);
                let rh: Vec<usize> = ra.by_ref().take(k).collect();
                let rb = ra.clone();
                forks.push(json!({"h": h, "a": a.collect::<Vec<usize>>(), "b": b.collect::<Vec<usize>>(),
                                  "rh": rh, "ra": ra.collect::<Vec<usize>>(), "rb": rb.collect::<Vec<usize>>()}));
            }
            json!({"count": total, "lo": lo, "hi": opt(hi), "len": len, "rlo": rlo, "rhi": opt(rhi),
                   "rcount": rt2.rev_qgrams(q, t).count(),
                   "last": opt(rt.qgrams(q, t).last()), "rlast": opt(rt2.rev_qgrams(q, t).last()),
                   "nth": (0..4usize).map(|k| opt(rt.qgrams(q, t).nth(k))).collect::<Vec<i64>>(),
                   "rnth": (0..4usize).map(|k| opt(rt2.rev_qgrams(q, t).nth(k))).collect::<Vec<i64>>(),
                   "skip2": rt.qgrams(q, t).skip(2).collect::<Vec<usize>>(),
                   "step3": rt.qgrams(q, t).step_by(3).collect::<Vec<usize>>(),
                   "rstep2": rt2.rev_qgrams(q, t).step_by(2).collect::<Vec<usize>>(),
                   "forks": forks})
        });
        log.call("codes_variants", json!({"t": bytes(t)}), || {
            // by-value items, inexact size hints (filter / flat_map / take_while), chained halves
            let half = t.len() / 2;
            let f: Vec<Vec<usize>> = vec![
                rt.qgrams(q, t.iter().cloned()).collect(),
                rt.qgrams(q, t.iter().filter(|_| true)).collect(),
                rt.qgrams(q, t.iter().flat_map(|b| std::iter::once(*b))).collect(),
                rt.qgrams(q, t.iter().take_while(|_| true)).collect(),
                rt.qgrams(q, t[..half].iter().chain(t[half..].iter())).collect(),
                rt.qgrams(q, t.clone()).collect(),
            ];
            let r: Vec<Vec<usize>> = vec![
                rt2.rev_qgrams(q, t.iter().cloned()).collect(),
                rt2.rev_qgrams(q, t.iter().filter(|_| true)).collect(),
                rt2.rev_qgrams(q, t[..half].iter().chain(t[half..].iter())).collect(),
                rt2.rev_qgrams(q, t.clone()).collect(),
            ];
            json!({"f": f, "r": r})
        });
        log.oblige("qgram_iterators_forked_and_consumed_by_adaptors");
        log.oblige("qgram_input_iterators_by_value_and_inexact_hints");
    }
}

struct IndexCase {
    alpha: Vec<u8>,
    q: u32,
    text: Vec<u8>,
    max_count: i64, // -1: QGramIndex::new
    patterns: Vec<Vec<u8>>,
    grams: Vec<Vec<u8>>,
}

fn index_run(log: &mut Log, tag: &str, c: &IndexCase) {
    if !log.begin(
        tag,
        json!({"kind": "index", "alpha": bytes(&c.alpha), "q": c.q, "text": bytes(&c.text), "max_count": c.max_count}),
    ) {
        return;
    }
    let q = c.q as usize;
    let sigma = c.alpha.len();
    if !sigma.is_power_of_two() {
        log.oblige("nonpow2_alphabet");
        // the text contains the highest-rank symbol q times in a row: its code is the largest one
        let top = *c.alpha.iter().max().unwrap();
        if q >= 2 && c.text.windows(q).any(|w| w.iter().all(|&b| b == top)) {
            log.oblige("nonpow2_top_rank_qgram");
        }
    }
    if c.text.len() < q {
        log.oblige("text_shorter_than_q");
    }
    if sigma == 256 {
        log.oblige("index_over_all_256_bytes");
    }
    if c.max_count >= 0 && c.max_count <= 2 {
        log.oblige("max_count_small");
    }
    let alphabet = Alphabet::new(&c.alpha);
    let mut index: Option<QGramIndex> = None;
    let mut rt0: Option<RankTransform> = None;
    log.call("new", json!({}), || {
        rt0 = Some(RankTransform::new(&alphabet));
        index = Some(if c.max_count < 0 {
            QGramIndex::new(c.q, &c.text, &alphabet)
        } else {
            QGramIndex::with_max_count(c.q, &c.text, &alphabet, c.max_count as usize)
        });
        json!({})
    });
    let index = match index {
        Some(i) => i,
        None => return,
    };
    let rt = match rt0 {
        Some(r) => r,
        None => return,
    };
    if q == 1 {
        log.oblige("q_equals_1");
    }
    if c.text.len() == q {
        log.oblige("text_length_equals_q");
    }
    // a copy of the index made mid-history; the original and the copy both go on answering
    let salt = c.text.len() * 3 + c.patterns.len() + q + sigma;
    let orig = index;
    let mut copy: Option<QGramIndex> = None;
    match salt % 4 {
        1 => {
            log.call("clone", json!({}), || {
                copy = Some(orig.clone());
                json!({})
            });
            log.oblige("qgramindex_clone");
        }
        2 => {
            log.call("serde", json!({}), || {
                let text = serde_json::to_string(&orig).expect("serialize");
                copy = Some(serde_json::from_str(&text).expect("deserialize"));
                json!({"len": text.len()})
            });
            log.oblige("qgramindex_serde_roundtrip");
        }
        3 => {
            log.call("clone_from", json!({}), || {
                let mut used = QGramIndex::new(2, b"xyzzyx", &Alphabet::new(b"xyz"));
                let _ = used.matches(b"zzy", 1);
                used.clone_from(&orig);
                copy = Some(used);
                json!({})
            });
            log.oblige("qgramindex_clone_from_into_used_object");
        }
        _ => {}
    }
    if salt % 4 != 0 && copy.is_none() {
        return;
    }
    // the queries in an order that depends on the case (forward, reverse, interleaved); each goes to the
    // copy or to the original in turn
    enum Q<'a> {
        Gram(&'a Vec<u8>),
        Pat(usize, &'a Vec<u8>),
    }
    let mut qs: Vec<Q> = c.grams.iter().map(Q::Gram).collect();
    qs.extend(c.patterns.iter().enumerate().map(|(i, p)| Q::Pat(i, p)));
    match salt % 3 {
        1 => qs.reverse(),
        2 => {
            let half = qs.len() / 2;
            let tail = qs.split_off(half);
            let mut mixed = vec![];
            let mut a = qs.into_iter();
            let mut b = tail.into_iter();
            loop {
                match (b.next(), a.next()) {
                    (None, None) => break,
                    (x, y) => {
                        mixed.extend(x);
                        mixed.extend(y);
                    }
                }
            }
            qs = mixed;
        }
        _ => {}
    }
    if salt % 3 != 0 {
        log.oblige("index_queries_in_varying_order");
    }
    let mjson = |v: &[bio::data_structures::qgram_index::Match]| {
        json!({"v": v.iter().map(|m| json!({"ps": m.pattern.start, "pe": m.pattern.stop,
               "ts": m.text.start, "te": m.text.stop, "count": m.count})).collect::<Vec<_>>()})
    };
    let mut turn = 0usize;
    for qu in &qs {
        turn += 1;
        let index: &QGramIndex = match &copy {
            Some(cp) if turn % 2 == 0 => cp,
            _ => &orig,
        };
        if copy.is_some() && turn == 2 {
            log.oblige("qgramindex_original_and_copy_both_continue");
        }
        match qu {
            Q::Gram(g) => {
                log.call("qgram_matches", json!({"g": bytes(g)}), || {
                    let code = rt.qgrams(c.q, g.iter()).next().unwrap();
                    json!({"v": usizes(index.qgram_matches(code))})
                });
            }
            Q::Pat(pi, p) => {
                if p.len() < q {
                    log.oblige("pattern_shorter_than_q");
                }
                if p.len() == q {
                    log.oblige("pattern_length_equals_q");
                }
                let min_count = [1usize, 2, 5, 0, 1][pi % 5];
                let mut counts: Vec<usize> = vec![];
                log.call("matches", json!({"p": bytes(p), "min_count": min_count}), || {
                    let v = index.matches(p, min_count);
                    counts = v.iter().map(|m| m.count).collect();
                    mjson(&v)
                });
                // min_count exactly at / one above a count that was reported (taken from the answer)
                if let Some(&cnt) = counts.iter().max() {
                    if pi % 2 == 0 {
                        for mc in [cnt, cnt + 1] {
                            log.call("matches", json!({"p": bytes(p), "min_count": mc}), || mjson(&index.matches(p, mc)));
                        }
                        log.oblige("min_count_equals_a_diagonal_count");
                    }
                }
                log.call("exact_matches", json!({"p": bytes(p)}), || {
                    let v = index.exact_matches(p);
                    json!({"v": v.iter().map(|m| json!({"ps": m.pattern.start, "pe": m.pattern.stop,
                           "ts": m.text.start, "te": m.text.stop})).collect::<Vec<_>>()})
                });
            }
        }
    }
}

/// all strings of length n over alpha
fn all_strings(alpha: &[u8], n: usize) -> Vec<Vec<u8>> {
    let mut cur: Vec<Vec<u8>> = vec![vec![]];
    for _ in 0..n {
        let mut nxt = vec![];
        for s in &cur {
            for &c in alpha {
                let mut t = s.clone();
                t.push(c);
                nxt.push(t);
            }
        }
        cur = nxt;
    }
    cur
}

fn make_case(log: &mut Log, rng: &mut Rng, sigma: usize, q: u32, variant: u64) -> IndexCase {
    let alpha = random_alphabet(rng, sigma);
    let qs = q as usize;
    let n = match variant % 5 {
        0 => [qs, qs.saturating_sub(1), qs + 1, 0][(variant / 5 % 4) as usize], // around q
        1 => rng.range(qs as i64, 20) as usize,
        2 | 3 => rng.range(20, 80) as usize,
        _ => rng.range(80, 200) as usize,
    };
    // low-entropy texts make repeats (max_count) and long diagonals
    let text: Vec<u8> = if variant % 3 == 0 && sigma > 2 {
        // the two highest-rank symbols: the largest codes of the table
        let mut sorted = alpha.clone();
        sorted.sort_unstable();
        let sub: Vec<u8> = sorted.iter().rev().take(2).cloned().collect();
        rng.seq(n, &sub)
    } else {
        rng.seq(n, &alpha)
    };
    let mut max_count: i64 = match variant % 4 {
        0 => -1,
        1 => 1,
        2 => 2,
        _ => rng.range(3, 6),
    };
    // max_count exactly at / one below the number of occurrences of a q-gram of the text (the count is
    // asked from an unrestricted index: an answer used to choose the next input)
    if variant % 4 == 3 && n >= qs {
        let tmp = QGramIndex::new(q, &text, &Alphabet::new(&alpha));
        let rt = RankTransform::new(&Alphabet::new(&alpha));
        let p = rng.below((n - qs + 1) as u64) as usize;
        let code = rt.qgrams(q, &text[p..p + qs]).next().unwrap();
        let occ = tmp.qgram_matches(code).len() as i64;
        if variant % 8 == 3 {
            max_count = occ;
            log.oblige("max_count_equals_an_occurrence_count");
        } else if occ >= 1 {
            max_count = occ - 1;
            log.oblige("max_count_one_below_an_occurrence_count");
        }
    }
    // q-grams asked: those of the text (capped), random ones, all when there are few
    let mut grams: Vec<Vec<u8>> = vec![];
    if sigma.pow(q) <= 32 {
        grams = all_strings(&alpha, qs);
    } else {
        let mut seen = std::collections::BTreeSet::new();
        for w in text.windows(qs) {
            if seen.len() >= 25 {
                break;
            }
            seen.insert(w.to_vec());
        }
        grams.extend(seen.into_iter());
        for _ in 0..5 {
            grams.push(rng.seq(qs, &alpha));
        }
    }
    // patterns
    let mut patterns: Vec<Vec<u8>> = vec![];
    let l0 = rng.range(0, 30) as usize;
    patterns.push(rng.seq(l0, &alpha)); // unrelated
    patterns.push(text.clone());
    if n >= qs + 1 {
        // planted: junk of length `off`, a piece of the text from position p, junk
        for j in 0..4u64 {
            let p = rng.below((n - qs) as u64) as usize;
            let len = rng.range(qs as i64, (n - p).min(40) as i64) as usize;
            let off = match j {
                0 => 0,
                1 => p,
                2 => p + 1 + rng.below(5) as usize, // pattern offset > text position: negative diagonal
                _ => rng.below(8) as usize,
            };
            if off > p {
                log.oblige("pattern_offset_exceeds_text_position");
            }
            let mut pat = rng.seq(off, &alpha);
            pat.extend_from_slice(&text[p..p + len]);
            // one mismatch in the middle sometimes: two runs on one diagonal
            if j == 3 && len > 2 * qs {
                let m = pat.len() - len / 2;
                pat[m] = *rng.pick(&alpha);
            }
            let tail = rng.below(4) as usize;
            pat.extend(rng.seq(tail, &alpha));
            patterns.push(pat);
        }
    }
    patterns.push(rng.seq(qs.saturating_sub(1), &alpha)); // shorter than q
    if n >= qs {
        let p = rng.below((n - qs + 1) as u64) as usize;
        patterns.push(text[p..p + qs].to_vec()); // exactly one q-gram, taken from the text
    }
    patterns.push(rng.seq(qs, &alpha)); // exactly one q-gram, random
    IndexCase { alpha, q, text, max_count, patterns, grams }
}

pub fn drive(log: &mut Log) {
    let seed = log.opts.seed;
    let thorough = log.opts.thorough();
    let mut case: u64 = 0;

    // (a) exhaustive small: alphabets of size 1..3, every text up to length 4 (5 thorough), q in {1,2},
    //     max_count in {none,1}; patterns = every string up to length 3
    let maxt = if thorough { 5 } else { 4 };
    for sigma in 1..=3usize {
        let alpha: Vec<u8> = [b'a', b'c', 200u8][..sigma].to_vec();
        let pats: Vec<Vec<u8>> = (0..=3).flat_map(|n| all_strings(&alpha, n)).collect();
        for n in 0..=maxt {
            for text in all_strings(&alpha, n) {
                for q in 1..=2u32 {
                    for &mc in &[-1i64, 1] {
                        case += 1;
                        if !log.mine(case) {
                            continue;
                        }
                        let c = IndexCase {
                            alpha: alpha.clone(),
                            q,
                            text: text.clone(),
                            max_count: mc,
                            patterns: pats.iter().filter(|p| (p.len() + n + q as usize) % 3 == (case % 3) as usize).cloned().collect(),
                            grams: all_strings(&alpha, q as usize),
                        };
                        index_run(log, "ex", &c);
                    }
                }
            }
        }
    }
    log.oblige("index_exhaustive_small");

    // (b) alphabets of size 1,2,3,4,5,7,8,20; q in 1..4; texts up to 200
    let reps = log.opts.n(3, 30);
    for &sigma in &[1usize, 2, 3, 4, 5, 7, 8, 20] {
        for q in 1..=4u32 {
            for rep in 0..reps {
                case += 1;
                if !log.mine(case) {
                    continue;
                }
                let mut rng = Rng::new(seed, 51, case);
                let c = make_case(log, &mut rng, sigma, q, rep + q as u64 + sigma as u64);
                index_run(log, "rd", &c);
            }
        }
    }

    // (u) single-symbol alphabets: bits = ceil(log2 1) = 0, so bits*q = 0 <= 64 holds for EVERY q; all codes
    //     are 0 and the table has one slot. q on both sides of the word size.
    for &q in &[1u32, 2, 63, 64, 65, 70, 200] {
        for variant in 0..3u64 {
            case += 1;
            if !log.mine(case) {
                continue;
            }
            let mut rng = Rng::new(seed, 55, case);
            let sym = [b'A', 0u8, 255u8][variant as usize];
            let alpha = vec![sym];
            let qs = q as usize;
            let n = match variant {
                0 => 200,
                1 => qs + rng.range(0, 3) as usize,
                _ => rng.range(0, 260) as usize,
            };
            let text = vec![sym; n];
            let ngrams = if n >= qs { n - qs + 1 } else { 0 };
            // max_count exactly at / just below the number of windows, and none
            let max_count: i64 = match (q + variant as u32) % 3 {
                0 => -1,
                1 => ngrams as i64,
                _ => (ngrams as i64 - 1).max(0),
            };
            let patterns: Vec<Vec<u8>> = vec![
                vec![sym; qs + 2],
                vec![sym; qs],
                vec![sym; qs.saturating_sub(1)],
                vec![sym; n],
                vec![],
            ];
            let c = IndexCase { alpha: alpha.clone(), q, text, max_count, patterns, grams: vec![vec![sym; qs]] };
            index_run(log, "un", &c);
            codes_run(log, &mut rng, &alpha, q);
            if q > 64 {
                log.oblige("unary_alphabet_q_above_64");
            }
            log.oblige("unary_alphabet");
        }
    }

    // (w) the widest alphabets: 255 symbols and all 256 byte values (ranks fill a u8, 8 bits per rank);
    //     codes for q = 1..8 (8 * q <= 64), index for q = 1, 2
    for &sigma in &[255usize, 256] {
        for q in 1..=8u32 {
            case += 1;
            if !log.mine(case) {
                continue;
            }
            let mut rng = Rng::new(seed, 57, case);
            let alpha = random_alphabet(&mut rng, sigma);
            codes_run(log, &mut rng, &alpha, q);
            if q <= 2 {
                let c = make_case(log, &mut rng, sigma, q, q as u64 + sigma as u64);
                index_run(log, "wd", &c);
            }
        }
    }

    // (c) codes only: up to the full machine word
    let combos: [(usize, u32); 14] = [
        (1, 1), (1, 5), (2, 1), (2, 30), (2, 31), (2, 64), (3, 2), (3, 32), (4, 32), (5, 21), (7, 10),
        (20, 12), (256, 8), (200, 3),
    ];
    for &(sigma, q) in combos.iter() {
        for _rep in 0..log.opts.n(1, 6) {
            case += 1;
            if !log.mine(case) {
                continue;
            }
            let mut rng = Rng::new(seed, 53, case);
            let alpha = random_alphabet(&mut rng, sigma);
            codes_run(log, &mut rng, &alpha, q);
        }
    }
}

fn main() {
    bio_verif_harness::run(drive)
}
