//! C17 — rank/select. One run = one RankSelect object over (bits, k); events:
//! `new`, `get`, `rank_1`, `rank_0` (every i in 0..=n+1), `select_1`, `select_0`
//! (every j in 0..=n+1). `None` is written as -1. No expected values here.
use bio::data_structures::rank_select::RankSelect;
use bio_verif_harness::{Log, Rng};
use bv::{BitVec, BitsMut};
use serde_json::{json, Value};

fn opt(v: Option<u64>) -> i64 {
    match v {
        Some(x) => x as i64,
        None => -1,
    }
}

/// k as a number, or as a decimal string when it does not fit the 31-bit integers of the trace
fn k_json(k: usize) -> Value {
    if k < (1 << 30) {
        json!(k)
    } else {
        json!(k.to_string())
    }
}

fn bits_json(b: &[bool]) -> Value {
    Value::Array(b.iter().map(|&x| json!(x as u8)).collect())
}

/// five ways to build the same BitVec<u8> (fill-false + set, fill-true + clear, push,
/// longer vector truncated, pushed ones popped again)
fn build(bits: &[bool], ctor: u32) -> BitVec<u8> {
    let n = bits.len() as u64;
    match ctor {
        0 => {
            let mut v: BitVec<u8> = BitVec::new_fill(false, n);
            for (i, &b) in bits.iter().enumerate() {
                if b {
                    v.set_bit(i as u64, true);
                }
            }
            v
        }
        1 => {
            let mut v: BitVec<u8> = BitVec::new_fill(true, n);
            for (i, &b) in bits.iter().enumerate() {
                if !b {
                    v.set_bit(i as u64, false);
                }
            }
            v
        }
        2 => {
            let mut v: BitVec<u8> = BitVec::new();
            for &b in bits {
                v.push(b);
            }
            v
        }
        3 => {
            // a longer vector with ones behind position n, shortened by truncate: the storage keeps
            // stale one bits behind the end (same byte and following bytes)
            let extra = (n * 7 + 3) % 12 + 1;
            let mut v: BitVec<u8> = BitVec::new_fill(true, n + extra);
            for (i, &b) in bits.iter().enumerate() {
                if !b {
                    v.set_bit(i as u64, false);
                }
            }
            v.truncate(n);
            v
        }
        _ => {
            // pushed ones popped again: stale one bits behind the end
            let extra = (n * 5 + 1) % 9 + 1;
            let mut v: BitVec<u8> = BitVec::new();
            for &b in bits {
                v.push(b);
            }
            for _ in 0..extra {
                v.push(true);
            }
            for _ in 0..extra {
                v.pop();
            }
            v
        }
    }
}

fn run_one(log: &mut Log, tag: &str, bits: &[bool], k: usize, ctor: u32, via: u32) {
    // which query kinds stay with the original when a copy exists (one run in four: none)
    let mask: u32 = if (bits.len() + k) % 4 == 0 { 0 } else { ((bits.len() * 7 + k * 3 + ctor as usize) % 31) as u32 };
    let n = bits.len();
    if !log.begin(tag, json!({"n": n, "k": k_json(k), "ctor": ctor, "via": via, "bits": bits_json(bits)})) {
        return;
    }
    // driver-side coverage counters (which boundary regions did the inputs reach)
    let s = k.saturating_mul(32);
    if k >= usize::MAX / 32 - 1 {
        log.oblige("largest_legal_superblock_factor");
    }
    if k >= 1 << 32 {
        log.oblige("superblock_factor_beyond_2p32");
    }
    if n % s == 0 {
        log.oblige("n_multiple_of_superblock");
    }
    if n % s >= 1 && n % s <= 8 && n > s {
        log.oblige("n_just_above_superblock");
    }
    if n % 8 != 0 {
        // select_0(total zeros + 1) then reaches the bit scan of the padded byte
        log.oblige("padded_last_byte");
    }
    if n > s.saturating_mul(2) {
        log.oblige("three_or_more_superblocks");
    }
    if bits.iter().all(|&b| !b) {
        log.oblige("all_zero");
    }
    if bits.iter().all(|&b| b) {
        log.oblige("all_one");
    }
    // a superblock (not the first) that starts with the same 1-rank as the one before it: Some(..) entry
    let mut some1 = false;
    let mut some0 = false;
    let mut sb = 1;
    while sb * s < n {
        let seg = &bits[(sb - 1) * s..sb * s];
        if seg.iter().all(|&b| !b) {
            some1 = true;
        }
        if seg.iter().all(|&b| b) {
            some0 = true;
        }
        sb += 1;
    }
    // two or more consecutive complete superblocks without a one / without a zero (three entries tie)
    let mut run1 = 0;
    let mut run0 = 0;
    let mut sbi = 0;
    while (sbi + 1) * s <= n {
        let seg = &bits[sbi * s..(sbi + 1) * s];
        run1 = if seg.iter().all(|&b| !b) { run1 + 1 } else { 0 };
        run0 = if seg.iter().all(|&b| b) { run0 + 1 } else { 0 };
        if run1 >= 2 && (sbi + 1) * s < n {
            log.oblige("two_consecutive_superblocks_without_ones");
        }
        if run0 >= 2 && (sbi + 1) * s < n {
            log.oblige("two_consecutive_superblocks_without_zeros");
        }
        sbi += 1;
    }
    if some1 {
        log.oblige("equal_rank_run_ones");
    }
    if some0 {
        log.oblige("equal_rank_run_zeros");
    }
    if k >= 8 {
        log.oblige("k8");
    }
    if ctor == 1 {
        log.oblige("ctor_fill_true");
        if n % 8 != 0 {
            // raw last byte has one bits in its padding; select_1(total ones + 1) must not find them
            log.oblige("fill_true_with_padded_last_byte");
        }
    }
    if (ctor == 3 || ctor == 4) && n % 8 != 0 {
        log.oblige("stale_ones_behind_end_after_truncate_or_pop");
    }

    let mut rs: Option<RankSelect> = None;
    log.call("new", json!({}), || {
        rs = Some(RankSelect::new(build(bits, ctor), k));
        json!({})
    });
    let rs = match rs {
        Some(r) => r,
        None => return,
    };
    // the queries go to the object itself or are split between it and a copy made mid-history: a clone,
    // a serde round trip through JSON (a self-describing format), or clone_from into an object that was
    // built for another vector and another k and already used -- every object must answer alike
    let orig = rs;
    let mut copy: Option<RankSelect> = None;
    match via {
        1 => {
            log.call("clone", json!({}), || {
                copy = Some(orig.clone());
                json!({})
            });
            log.oblige("rs_clone_queried");
        }
        2 => {
            log.call("serde", json!({}), || {
                let text = serde_json::to_string(&orig).expect("serialize");
                copy = Some(serde_json::from_str(&text).expect("deserialize"));
                json!({"len": text.len()})
            });
            log.oblige("rs_serde_roundtrip_queried");
            if some1 || some0 {
                log.oblige("rs_serde_roundtrip_with_equal_rank_run");
            }
        }
        3 => {
            log.call("clone_from", json!({}), || {
                let other: Vec<bool> = (0..(n * 2 + 13)).map(|i| i % 3 == 0).collect();
                let mut used = RankSelect::new(build(&other, 0), k / 2 + 1);
                let _ = used.select_1(2);
                let _ = used.rank_0(5);
                used.clone_from(&orig);
                copy = Some(used);
                json!({})
            });
            log.oblige("rs_clone_from_into_used_object");
        }
        _ => {}
    }
    if via != 0 && copy.is_none() {
        return;
    }
    // bit i of `mask` set: query kind i is answered by the original although a copy exists
    let pick = |kind: u32| -> &RankSelect {
        match &copy {
            Some(c) if (mask >> kind) & 1 == 0 => c,
            _ => &orig,
        }
    };
    if via != 0 && mask & 31 != 0 && mask & 31 != 31 {
        log.oblige("rs_original_and_copy_both_continue");
    }
    let n64 = n as u64;
    log.call("get", json!({}), || {
        let rs = pick(0);
        let v: Vec<u8> = (0..n64).map(|i| rs.get(i) as u8).collect();
        json!({ "v": v })
    });
    log.call("rank_1", json!({}), || {
        let rs = pick(1);
        let v: Vec<i64> = (0..=n64 + 1).map(|i| opt(rs.rank_1(i))).collect();
        json!({ "v": v })
    });
    log.call("rank_0", json!({}), || {
        let rs = pick(2);
        let v: Vec<i64> = (0..=n64 + 1).map(|i| opt(rs.rank_0(i))).collect();
        json!({ "v": v })
    });
    log.call("select_1", json!({}), || {
        let rs = pick(3);
        let v: Vec<i64> = (0..=n64 + 1).map(|j| opt(rs.select_1(j))).collect();
        json!({ "v": v })
    });
    log.call("select_0", json!({}), || {
        let rs = pick(4);
        let v: Vec<i64> = (0..=n64 + 1).map(|j| opt(rs.select_0(j))).collect();
        json!({ "v": v })
    });
}

/// fill classes; `which` selects the class, the rng the details
fn fill(rng: &mut Rng, n: usize, s: usize, which: u64) -> Vec<bool> {
    let mut b = vec![false; n];
    match which {
        0 => {}                                  // all zero
        1 => b.iter_mut().for_each(|x| *x = true), // all one
        2 | 3 => {
            // a single 1 (2) / a single 0 (3) at a boundary position
            let cands = [0, n - 1, s.saturating_sub(1), s, s.saturating_mul(2).saturating_sub(1), s.saturating_mul(2), n.saturating_sub(2), n / 8 * 8, (n / 8 * 8).saturating_sub(1), 7, 8];
            let mut p = *rng.pick(&cands);
            if p >= n {
                p = n - 1;
            }
            if which == 3 {
                b.iter_mut().for_each(|x| *x = true);
                b[p] = false;
            } else {
                b[p] = true;
            }
        }
        4 => b.iter_mut().for_each(|x| *x = rng.coin()),
        5 => b.iter_mut().for_each(|x| *x = rng.chance(1, 16)),
        6 => b.iter_mut().for_each(|x| *x = rng.chance(15, 16)),
        8 => {
            // a few ones / zeros, then two to four whole superblocks of equal bits, then a few again:
            // several superblock entries start with the same rank
            let val = rng.coin();
            b.iter_mut().for_each(|x| *x = if rng.chance(1, 8) { !val } else { val });
            let nsb = n / s;
            if nsb >= 3 {
                let len = (2 + rng.below(3) as usize).min(nsb - 1);
                let from = 1 + rng.below((nsb - len) as u64) as usize;
                for j in from * s..(from + len) * s {
                    b[j] = val;
                }
                // make sure something of the other kind precedes the run
                b[rng.below((from * s) as u64) as usize] = !val;
            }
        }
        _ => {
            // whole superblocks / bytes of equal bits: runs of equal superblock ranks, all-0 / all-1 blocks
            let unit = if rng.coin() { s } else { 8 };
            let mut i = 0;
            while i < n {
                let kind = rng.below(3);
                for j in i..(i + unit).min(n) {
                    b[j] = match kind {
                        0 => false,
                        1 => true,
                        _ => rng.coin(),
                    };
                }
                i += unit;
            }
        }
    }
    b
}

pub fn drive(log: &mut Log) {
    let seed = log.opts.seed;
    let thorough = log.opts.thorough();
    let mut case: u64 = 0;
    const NFILL: u64 = 9;
    // (a) every n in 1..=130 for k = 1 (and k = 2 in the thorough tier)
    let ks_a: &[usize] = if thorough { &[1, 2] } else { &[1] };
    for &k in ks_a {
        for n in 1..=130usize {
            let reps = if thorough { NFILL } else { 3 };
            for rep in 0..reps {
                case += 1;
                if !log.mine(case) {
                    continue;
                }
                let mut rng = Rng::new(seed, 17, case);
                let which = if thorough { rep } else { (n as u64 + rep * 3 + seed) % NFILL };
                let bits = fill(&mut rng, n, 32 * k, which);
                run_one(log, "sm", &bits, k, (case % 5) as u32, (case / 5 % 4) as u32);
            }
        }
    }
    // (b) n around 32k * {1,2,3} +- 9 for k in {1,2,3,8}
    for &k in &[1usize, 2, 3, 8] {
        for mult in 1..=3usize {
            for d in -9i64..=9 {
                let n = (32 * k * mult) as i64 + d;
                if n < 1 {
                    continue;
                }
                let n = n as usize;
                let reps = if thorough { NFILL } else { 3 };
                for rep in 0..reps {
                    case += 1;
                    if !log.mine(case) {
                        continue;
                    }
                    let mut rng = Rng::new(seed, 18, case);
                    let which = if thorough { rep } else { ((d + 9) as u64 + rep * 3 + seed + mult as u64) % NFILL };
                    let bits = fill(&mut rng, n, 32 * k, which);
                    run_one(log, "bd", &bits, k, (case % 5) as u32, (case / 5 % 4) as u32);
                }
            }
        }
    }
    // (d) the largest legal superblock factors (k * 32 must fit usize) and other values beyond 2^32, on small
    //     vectors: one superblock; every query as usual (the definition does not depend on k)
    for &k in &[usize::MAX / 32, usize::MAX / 32 - 1, 1usize << 58, 1usize << 40, (1usize << 32) + 1] {
        for &n in &[1usize, 8, 32, 33, 64, 100] {
            case += 1;
            if !log.mine(case) {
                continue;
            }
            let mut rng = Rng::new(seed, 20, case);
            let bits = fill(&mut rng, n, 32, [4, 1, 0, 7, 6][(case % 5) as usize]);
            run_one(log, "hk", &bits, k, (case % 5) as u32, (case / 5 % 4) as u32);
        }
    }

    // (c) k larger than the vector, and a few long random vectors
    for &(n, k) in &[(1usize, 5usize), (9, 4), (40, 2), (64, 3), (200, 7), (1000, 1), (1500, 5), (330, 1), (645, 2), (384, 1)] {
        for rep in 0..4u64 {
            case += 1;
            if !log.mine(case) {
                continue;
            }
            let mut rng = Rng::new(seed, 19, case);
            let bits = fill(&mut rng, n, 32 * k, [4, 7, 8, 8][rep as usize]);
            if n < 32 * k {
                log.oblige("k_larger_than_vector");
            }
            run_one(log, "lg", &bits, k, (case % 5) as u32, (case / 5 % 4) as u32);
        }
    }
}

fn main() {
    bio_verif_harness::run(drive)
}
