//! C17 — rank/select on huge STRUCTURED bit vectors (closed-form family).
//! The vector is never logged: run.cfg = {n, k, P, R, X} means
//!   bit i = 1  iff  (i % P in R) != (i in X)
//! (periodic pattern flipped at a few explicit positions; sparse vector: P=1, R=[], X = the ones;
//! its complement: P=1, R=[0], X = the zeros). Events: `new`, `get(is)`, `rank(is)` (rank_1 and
//! rank_0 at the listed positions), `select(js)` (select_1 and select_0). The specification has
//! rank in closed form and verifies select answers through it. Some query positions are taken
//! from earlier answers (select -> rank around it); nothing is compared here.
use bio::data_structures::rank_select::RankSelect;
use bio_verif_harness::{Log, Rng};
use bv::{BitVec, BitsMut};
use serde_json::json;

fn opt(v: Option<u64>) -> i64 {
    match v {
        Some(x) => x as i64,
        None => -1,
    }
}

struct Shape {
    n: u64,
    p: u64,
    r: Vec<u64>,
    x: Vec<u64>,
}

fn build(sh: &Shape) -> (BitVec<u8>, u64) {
    let mut inr = vec![false; sh.p as usize];
    for &r in &sh.r {
        inr[r as usize] = true;
    }
    let mut bits: BitVec<u8> = BitVec::new_fill(false, sh.n);
    let mut ones = 0u64;
    for i in 0..sh.n {
        if inr[(i % sh.p) as usize] {
            bits.set_bit(i, true);
            ones += 1;
        }
    }
    for &x in &sh.x {
        let b = bits.get(x);
        bits.set_bit(x, !b);
        if b {
            ones -= 1;
        } else {
            ones += 1;
        }
    }
    (bits, ones)
}


fn uniq(mut v: Vec<u64>) -> Vec<u64> {
    v.sort_unstable();
    v.dedup();
    v
}

fn run_one(log: &mut Log, rng: &mut Rng, sh: &Shape, k: usize) {
    if !log.begin("big", json!({"n": sh.n, "k": k, "P": sh.p, "R": sh.r, "X": sh.x})) {
        return;
    }
    let n = sh.n;
    let s = 32 * k as u64;
    let (bits, ones) = build(sh);
    let zeros = n - ones;
    let nsb = (n + s - 1) / s;
    // coverage counters (from the parameters only)
    let per_sb_ones = if sh.p > 0 { s.min(n) * sh.r.len() as u64 / sh.p } else { 0 };
    if k >= 2048 && per_sb_ones > 65_535 + 70 {
        log.oblige("more_than_65535_ones_in_a_superblock");
    }
    if k >= 2048 && s.min(n) - per_sb_ones > 65_535 + 70 {
        log.oblige("more_than_65535_zeros_in_a_superblock");
    }
    if nsb > 128 && (ones <= 16 || zeros <= 16) {
        log.oblige("more_than_128_superblocks_sparse");
    }
    if nsb > 128 {
        log.oblige("more_than_128_superblocks");
    }
    if s > n {
        log.oblige("big_single_superblock");
    }
    let mut rs: Option<RankSelect> = None;
    log.call("new", json!({}), || {
        rs = Some(RankSelect::new(bits, k));
        json!({})
    });
    let rs = match rs {
        Some(r) => r,
        None => return,
    };
    // select: first/last, 65535/65536/65537-th, around multiples of the per-superblock count, the
    // explicit positions' ranks (sparse: every j), beyond the total
    let mut js: Vec<u64> = vec![0, 1, 2, 3, 4, 5, 6, 65_535, 65_536, 65_537, 100_000, 131_071, 131_072];
    for t in [ones, zeros] {
        for d in 0..3u64 {
            js.push(t.saturating_sub(d));
            js.push(t + d);
        }
        js.push(t / 2);
    }
    for m in 1..4u64 {
        for base in [per_sb_ones * m, (s.min(n) - per_sb_ones) * m] {
            for d in 0..3u64 {
                js.push(base.saturating_sub(d));
                js.push(base + d);
            }
        }
    }
    for _ in 0..6 {
        js.push(rng.below(n + 2));
    }
    let js = uniq(js.into_iter().filter(|&j| j <= n + 1).collect());
    let mut s1: Vec<i64> = vec![];
    let mut s0: Vec<i64> = vec![];
    log.call("select", json!({ "js": js }), || {
        s1 = js.iter().map(|&j| opt(rs.select_1(j))).collect();
        s0 = js.iter().map(|&j| opt(rs.select_0(j))).collect();
        json!({"s1": s1, "s0": s0})
    });
    // rank: first/last bit, superblock seams, 65535..65537 and ~70000 bits into a superblock, the flipped
    // positions, around every select answer
    let mut is: Vec<u64> = vec![0, 1, 7, 8, 31, 32, n - 1, n, n + 1, n.saturating_sub(2)];
    let sbs: Vec<u64> = uniq(vec![0, 1, 2, nsb / 2, nsb.saturating_sub(2), nsb - 1]);
    for &m in &sbs {
        let st = m * s;
        for off in [0u64, 1, 8, 65_534, 65_535, 65_536, 65_537, 69_904, 69_905, 69_906, 70_000, 100_000,
                    131_070, 131_071, s / 2, s - 9, s - 8, s - 2, s - 1] {
            if off < s {
                is.push(st + off);
            }
        }
        if st > 0 {
            is.push(st - 1);
        }
    }
    for &x in &sh.x {
        is.push(x);
        is.push(x + 1);
        is.push(x.saturating_sub(1));
    }
    for v in s1.iter().chain(s0.iter()) {
        if *v >= 0 {
            let v = *v as u64;
            is.push(v);
            is.push(v + 1);
            is.push(v.saturating_sub(1));
        }
    }
    for _ in 0..8 {
        is.push(rng.below(n));
    }
    let is = uniq(is.into_iter().filter(|&i| i <= n + 1).collect());
    log.call("rank", json!({ "is": is }), || {
        let v1: Vec<i64> = is.iter().map(|&i| opt(rs.rank_1(i))).collect();
        let v0: Vec<i64> = is.iter().map(|&i| opt(rs.rank_0(i))).collect();
        json!({"v1": v1, "v0": v0})
    });
    let gi: Vec<u64> = is.iter().cloned().filter(|&i| i < n).take(60).collect();
    log.call("get", json!({ "is": gi }), || {
        let v: Vec<u8> = gi.iter().map(|&i| rs.get(i) as u8).collect();
        json!({ "v": v })
    });
}

/// both tiers (quick since the last session: 17 s, 526 MB): an all-ones vector of 2^32 + 16 bits (512 MiB) in ONE superblock (k = 2^28): more
/// than 2^32 one bits are summed inside a superblock. Positions and answers are logged minus 2^32 (the
/// trace holds 31-bit integers): rank_1(2^32 + d) - 2^32 must be d + 1, rank_0 must be 0.
fn beyond_2p32(log: &mut Log) {
    const BASE: u64 = 1 << 32;
    let extra: u64 = 16;
    let k: usize = 1 << 28;
    if !log.begin("b32", json!({"n": extra, "k": k.to_string(), "P": 1, "R": [0], "X": [], "base": BASE.to_string()})) {
        return;
    }
    let mut rs: Option<RankSelect> = None;
    log.call("new", json!({}), || {
        let bits: BitVec<u8> = BitVec::new_fill(true, BASE + extra);
        rs = Some(RankSelect::new(bits, k));
        json!({})
    });
    let rs = match rs {
        Some(r) => r,
        None => return,
    };
    let ds: Vec<i64> = vec![-1, 0, 15, 16];
    log.call("rank_hi", json!({ "ds": ds }), || {
        let mut none = vec![];
        let mut v1 = vec![];
        let mut v0 = vec![];
        for &d in &ds {
            let i = (BASE as i64 + d) as u64;
            let r1 = rs.rank_1(i);
            let r0 = if d == 0 { rs.rank_0(i) } else { r1.map(|_| 0) };
            none.push(r1.is_none() as u8);
            v1.push(r1.map(|x| x as i64 - BASE as i64).unwrap_or(0));
            v0.push(r0.map(|x| x as i64).unwrap_or(0).min(1 << 30));
        }
        json!({"none": none, "v1d": v1, "v0": v0})
    });
    log.oblige("more_than_2p32_ones_in_a_superblock");
}

pub fn drive(log: &mut Log) {
    let seed = log.opts.seed;
    let thorough = log.opts.thorough();
    let mut case: u64 = 0;
    if log.mine(0) && std::env::var("VERIF_RS_HUGE").map(|v| v != "0").unwrap_or(true) {
        beyond_2p32(log);
    }
    let ks: [usize; 5] = [1, 3, 2048, 4096, 70_000];
    let ns: Vec<u64> = if thorough { vec![20_000, 150_000, 300_001, 1_000_000] } else { vec![20_000, 150_000, 1_000_000] };
    for &n in &ns {
        for &k in &ks {
            if n >= 1_000_000 && !thorough && k != 1 && k != 4096 {
                continue;
            }
            let nshapes = 8u64;
            for shape in 0..nshapes {
                case += 1;
                if !log.mine(case) {
                    continue;
                }
                let mut rng = Rng::new(seed, 71, case);
                let sparse = |rng: &mut Rng, cnt: u64| -> Vec<u64> {
                    let mut v: Vec<u64> = vec![5, n - 1];
                    for _ in 0..cnt {
                        v.push(rng.below(n));
                    }
                    // one next to a superblock seam
                    let s = 32 * k as u64;
                    if s < n {
                        v.push(s * (1 + rng.below((n - 1) / s)));
                    }
                    uniq(v)
                };
                let sh = match shape {
                    // dense: all bits but one residue of 16 (the shape that overflows a 16-bit counter)
                    0 => Shape { n, p: 16, r: (0..16).filter(|&r| r != 7).collect(), x: vec![] },
                    // its complement-like: one residue of 16 set
                    1 => Shape { n, p: 16, r: vec![7], x: vec![] },
                    // all ones / all zeros with a few flips
                    2 => Shape { n, p: 1, r: vec![0], x: sparse(&mut rng, 2) },
                    3 => Shape { n, p: 1, r: vec![], x: sparse(&mut rng, 2) },
                    // sparse ones at the positions of the reported example
                    4 => Shape { n, p: 1, r: vec![], x: uniq(vec![5, 7000 % n, 13_001 % n, n - 1]) },
                    5 => Shape { n, p: 1, r: vec![0], x: uniq(vec![5, 7000 % n, 13_001 % n, n - 1]) },
                    // long period: whole superblocks without a one (k small) plus flips
                    6 => {
                        let p = rng.range(900, 9000) as u64;
                        Shape { n, p, r: uniq(vec![rng.below(p), rng.below(p)]), x: sparse(&mut rng, 1) }
                    }
                    // random period and residues
                    _ => {
                        let p = rng.range(2, 70) as u64;
                        let cnt = rng.range(1, p as i64) as u64;
                        let r = uniq((0..cnt).map(|_| rng.below(p)).collect());
                        Shape { n, p, r, x: sparse(&mut rng, 3) }
                    }
                };
                run_one(log, &mut rng, &sh, k);
            }
        }
    }
}

fn main() {
    // the 2^32-bit vector of the thorough tier needs seconds per call
    if std::env::var("VERIF_CALL_TIMEOUT_MS").is_err() {
        std::env::set_var("VERIF_CALL_TIMEOUT_MS", "180000");
    }
    bio_verif_harness::run(drive)
}
