//! C03 — suffix array, LCP, shortest unique substrings, sampled suffix array.
//! One run = one text; events: `suffix_array` | `suffix_array_int`, `lcp`, `sus`,
//! `sample` (one per (sampling rate s, Occ rate k, ownership): every `get(i)`).
//! No expected value is computed here; obligations are named after the way the input
//! was constructed (never after what the code answered).
use bio::alphabets::Alphabet;
use bio::data_structures::bwt::{bwt, less, Occ};
use bio::data_structures::bwt::{Less, BWT};
use bio::data_structures::suffix_array::{
    lcp, shortest_unique_substrings, suffix_array, suffix_array_int, SampledSuffixArray, SuffixArray,
};
use bio_verif_harness::{bytes, i64s, usizes, Log, Rng};
use serde_json::json;

#[derive(Clone, Default)]
struct Plan {
    lcp: bool,
    sus: bool,
    samples: Vec<(usize, u32, u8)>, // (s, k, ownership 0 = borrowed, 1 = owned)
}

fn run_bytes(log: &mut Log, tag: &str, text: &[u8], plan: &Plan) {
    let n = text.len();
    if !log.begin(tag, json!({"kind": "bytes", "text": bytes(text)})) {
        return;
    }
    let mut sa: Vec<usize> = vec![];
    let r = log.call("suffix_array", json!({}), || {
        sa = suffix_array(text);
        json!({"sa": usizes(&sa)})
    });
    if r["st"] != "ok" || sa.len() != n {
        return;
    }
    let sent = text[n - 1];
    let single = text.iter().filter(|&&c| c == sent).count() == 1;
    if n == 1 {
        log.oblige("text_len_1");
    }
    if n == 2 {
        log.oblige("text_len_2");
    }
    if plan.lcp && single && n >= 2 {
        let mut lcp_arr = None;
        // the position argument is anything that derefs to the raw array: &Vec, Box, Rc, Arc
        let wrap = (text.iter().map(|&c| c as usize).sum::<usize>() + n) % 4;
        log.call("lcp", json!({"sa": usizes(&sa), "wrap": wrap}), || {
            let l = match wrap {
                0 => lcp(text, &sa),
                1 => lcp(text, Box::new(sa.clone())),
                2 => lcp(text, std::rc::Rc::new(sa.clone())),
                _ => lcp(text, std::sync::Arc::new(sa.clone())),
            };
            // three views of the same array: decompress(), iter(), get(i)
            let d: Vec<i64> = l.decompress().iter().map(|&x| x as i64).collect();
            let it: Vec<i64> = l.iter().map(|x| x as i64).collect();
            let gets: Vec<i64> = (0..l.len()).map(|i| l.get(i).map(|x| x as i64).unwrap_or(-99)).collect();
            let oob = l.get(l.len()).map(|x| x as i64).unwrap_or(-99);
            let len = l.len();
            lcp_arr = Some(l);
            json!({"lcp": i64s(&d), "it": i64s(&it), "gets": i64s(&gets), "oob": oob, "len": len})
        });
        log.oblige("lcp_three_views");
        if n == 2 {
            log.oblige("lcp_n2");
        }
        if n == 3 {
            log.oblige("lcp_n3");
        }
        if plan.sus {
            if let Some(l) = &lcp_arr {
                log.call("sus", json!({"sa": usizes(&sa)}), || {
                    let s = shortest_unique_substrings(&sa, l);
                    let d: Vec<i64> = s.iter().map(|x| x.map(|v| v as i64).unwrap_or(-1)).collect();
                    // the suffix-array argument is any SuffixArray: also through a sampled one
                    let alphabet = Alphabet::new(text);
                    let b = bwt(text, &sa);
                    let ls = less(&b, &alphabet);
                    let occ = Occ::new(&b, 3, &alphabet);
                    let smp = sa.sample(text, &b, &ls, &occ, 2);
                    let s2 = shortest_unique_substrings(&smp, l);
                    let d2: Vec<i64> = s2.iter().map(|x| x.map(|v| v as i64).unwrap_or(-1)).collect();
                    json!({"sus": i64s(&d), "sus_s": i64s(&d2)})
                });
                log.oblige("sus_through_sampled_sa");
                if n == 2 {
                    log.oblige("sus_n2");
                }
                if n == 3 {
                    log.oblige("sus_n3");
                }
            }
        }
    }
    if !plan.samples.is_empty() {
        let alphabet = Alphabet::new(text);
        let b = bwt(text, &sa);
        let l = less(&b, &alphabet);
        let multi = !single;
        for &(s, k, own) in &plan.samples {
            log.call("sample", json!({"sa": usizes(&sa), "s": s, "k": k, "own": own}), || {
                let occ = Occ::new(&b, k, &alphabet);
                let (v, oob): (Vec<usize>, i64) = if own == 1 {
                    let smp = sa.sample(text, b.clone(), l.clone(), occ, s);
                    (
                        (0..smp.len()).map(|i| smp.get(i).unwrap_or(usize::MAX >> 34)).collect(),
                        smp.get(n).map(|x| x as i64).unwrap_or(-1),
                    )
                } else {
                    let smp = sa.sample(text, &b, &l, &occ, s);
                    (
                        (0..smp.len()).map(|i| smp.get(i).unwrap_or(usize::MAX >> 34)).collect(),
                        smp.get(n).map(|x| x as i64).unwrap_or(-1),
                    )
                };
                json!({"v": usizes(&v), "oob": oob})
            });
            if multi && s > 1 {
                log.oblige("sample_multi_sentinel");
            }
            if s > n {
                log.oblige("sample_rate_gt_n");
            }
            if s == n {
                log.oblige("sample_rate_eq_n");
            }
            if s == 1 {
                log.oblige("sample_rate_1");
            }
            if k == 1 {
                log.oblige("occ_rate_1");
            }
            if k > 64 && (n - 1) / k as usize >= 1 {
                log.oblige("sample_occ_rate_gt64");
            }
        }
        // re-sampling: the trait's `sample` called on an already sampled array (rate s1, then s2), and
        // a Serialize/Deserialize round trip of the owned sampled array (and of BWT, less, Occ) before
        // it is asked; every index is compared with the full array as above
        let h = text.iter().map(|&c| c as usize).sum::<usize>() + n;
        const PAIRS: [(usize, usize); 12] =
            [(1, 2), (1, 3), (2, 4), (2, 6), (3, 6), (4, 8), (2, 3), (3, 2), (4, 6), (3, 4), (2, 2), (6, 3)];
        let mut pairs: Vec<(usize, usize)> = vec![PAIRS[h % 12], PAIRS[(h / 12 + 5) % 12]];
        if n <= 8 {
            pairs.push(PAIRS[(h / 3 + 1) % 6]); // a multiple pair for every small text
        }
        let k0 = plan.samples[0].1;
        for &(s1, s2) in &pairs {
            log.call("sample", json!({"sa": usizes(&sa), "s": s2, "k": k0, "own": 1, "s1": s1, "serde": 0}), || {
                let occ = Occ::new(&b, k0, &alphabet);
                let first = sa.sample(text, b.clone(), l.clone(), occ.clone(), s1);
                let smp = first.sample(text, &b, &l, &occ, s2);
                let v: Vec<usize> = (0..smp.len()).map(|i| smp.get(i).unwrap_or(usize::MAX >> 34)).collect();
                let oob = smp.get(n).map(|x| x as i64).unwrap_or(-1);
                json!({"v": usizes(&v), "oob": oob})
            });
            log.oblige(if s2 % s1 == 0 { "resample_multiple_rate" } else { "resample_non_multiple_rate" });
            if multi && s2 % s1 == 0 && s2 > s1 {
                log.oblige("resample_multiple_rate_multi_sentinel");
            }
        }
        // sampling rates at and beyond 2^32 (legal usize values; only row 0 is sampled). The value does not
        // fit the checker's integers: it is logged as a decimal string, "s" carries the surrogate 2^31-1
        // (any rate > n behaves alike)
        if n <= 9 || h % 7 == 0 {
            const HUGE: [usize; 8] = [(1 << 32) - 1, 1 << 32, (1 << 32) + 1, (1 << 32) + 2, (1 << 32) + 3, (1 << 33) + 5, 1 << 40, usize::MAX];
            for &big in &[HUGE[h % 8], HUGE[(h / 8 + 3) % 8]] {
                let kc = plan.samples[0].1;
                log.call("sample", json!({"sa": usizes(&sa), "s": 2147483647, "s_str": big.to_string(), "k": kc, "own": 0, "s1": 0, "serde": 0}), || {
                    let occ = Occ::new(&b, kc, &alphabet);
                    let smp = sa.sample(text, &b, &l, &occ, big);
                    let v: Vec<usize> = (0..smp.len()).map(|i| smp.get(i).unwrap_or(usize::MAX >> 34)).collect();
                    let oob = smp.get(n).map(|x| x as i64).unwrap_or(-1);
                    json!({"v": usizes(&v), "oob": oob})
                });
                log.oblige("sample_rate_ge_2p32");
            }
        }
        // clone() of the sampled array, and clone_from() into a sampled array that was built for ANOTHER
        // text and has already answered; the copy and the original are both asked afterwards
        {
            let (sc, kc, _) = plan.samples[0];
            let sc = if sc < 2 { 2 } else { sc };
            let mode = 1 + h % 2; // 1 = clone, 2 = clone_from
            log.call("sample", json!({"sa": usizes(&sa), "s": sc, "k": kc, "own": 1, "s1": 0, "serde": 0, "clone": mode}), || {
                let occ = Occ::new(&b, kc, &alphabet);
                let orig = sa.sample(text, b.clone(), l.clone(), occ.clone(), sc);
                let copy = if mode == 1 {
                    orig.clone()
                } else {
                    let mut other_text: Vec<u8> = text[..n - 1].iter().rev().cloned().collect();
                    other_text.push(text[0].max(sent)); // another text over the same symbols
                    other_text.push(sent);
                    let osa = suffix_array(&other_text);
                    let ob = bwt(&other_text, &osa);
                    let ol = less(&ob, &Alphabet::new(&other_text));
                    let oo = Occ::new(&ob, kc, &Alphabet::new(&other_text));
                    let mut used = osa.sample(&other_text, ob, ol, oo, sc + 1);
                    let _ = used.get(0);
                    used.clone_from(&orig);
                    used
                };
                let v: Vec<usize> = (0..copy.len()).map(|i| copy.get(i).unwrap_or(usize::MAX >> 34)).collect();
                let oob = copy.get(n).map(|x| x as i64).unwrap_or(-1);
                let v0: Vec<usize> = (0..orig.len()).map(|i| orig.get(i).unwrap_or(usize::MAX >> 34)).collect();
                json!({"v": usizes(&v), "oob": oob, "v0": usizes(&v0)})
            });
            log.oblige(if mode == 1 { "clone_sampled_sa" } else { "clone_from_sampled_sa_other_text" });
        }
        let (s0, _, _) = plan.samples[plan.samples.len() - 1];
        let s0 = if s0 < 2 { 2 } else { s0 };
        log.call("sample", json!({"sa": usizes(&sa), "s": s0, "k": k0, "own": 1, "s1": 0, "serde": 1}), || {
            let rt_b: BWT = serde_json::from_str(&serde_json::to_string(&b).unwrap()).unwrap();
            let rt_l: Less = serde_json::from_str(&serde_json::to_string(&l).unwrap()).unwrap();
            let rt_o: Occ = serde_json::from_str(&serde_json::to_string(&Occ::new(&b, k0, &alphabet)).unwrap()).unwrap();
            let rt_sa: Vec<usize> = serde_json::from_str(&serde_json::to_string(&sa).unwrap()).unwrap();
            let smp = rt_sa.sample(text, rt_b, rt_l, rt_o, s0);
            let js = serde_json::to_string(&smp).unwrap();
            let smp: SampledSuffixArray<BWT, Less, Occ> = serde_json::from_str(&js).unwrap();
            let v: Vec<usize> = (0..smp.len()).map(|i| smp.get(i).unwrap_or(usize::MAX >> 34)).collect();
            let oob = smp.get(n).map(|x| x as i64).unwrap_or(-1);
            json!({"v": usizes(&v), "oob": oob})
        });
        log.oblige("serde_roundtrip_sampled_sa");
        if multi {
            log.oblige("serde_roundtrip_sampled_sa_multi_sentinel");
        }
    }
}

/// A read collection with more sentinel occurrences than fit into 16 bit ranks. The array is logged
/// together with `rk` (rk[p] = row of the sentinel at position p, -1 elsewhere): a re-indexing of the
/// observed array, which the specification verifies against the array before using it.
fn run_big(log: &mut Log, tag: &str, text: &[u8]) {
    let n = text.len();
    if !log.begin(tag, json!({"kind": "bytes", "text": bytes(text)})) {
        return;
    }
    log.call("suffix_array_big", json!({}), || {
        let sa = suffix_array(text);
        let sent = text[n - 1];
        let mut rk: Vec<i64> = vec![-1; n];
        for (r, &p) in sa.iter().enumerate() {
            if p < n && text[p] == sent {
                rk[p] = r as i64;
            }
        }
        json!({"sa": usizes(&sa), "rk": i64s(&rk)})
    });
}

/// Sampled suffix array of the unary text A^(n-1)$ (closed-form family: its suffix array is
/// n-1, ..., 0 and is built here without running SA-IS; the text is not logged).
fn run_unary(log: &mut Log, tag: &str, n: usize, k: u32, s: usize) {
    if !log.begin(tag, json!({"kind": "unary", "n": n, "a": b'A', "sent": b'$'})) {
        return;
    }
    let mut text = vec![b'A'; n];
    text[n - 1] = b'$';
    let sa: Vec<usize> = (0..n).rev().collect();
    // first rows, last rows, rows around 2^24 and a stride through the whole array
    let mut rows: Vec<usize> = (0..200.min(n)).collect();
    rows.extend(n.saturating_sub(200)..n);
    let mid = 1usize << 24;
    if n > mid {
        rows.extend(mid - 100..(mid + 100).min(n));
    }
    rows.extend((0..n).step_by(104_729));
    log.call("sample_unary", json!({"k": k, "s": s, "rows": usizes(&rows)}), || {
        let alphabet = Alphabet::new(b"$A");
        let b = bwt(&text, &sa);
        let l = less(&b, &alphabet);
        let occ = Occ::new(&b, k, &alphabet);
        let smp = sa.sample(&text, &b, &l, &occ, s);
        let vals: Vec<i64> = rows.iter().map(|&i| smp.get(i).map(|x| x as i64).unwrap_or(-1)).collect();
        json!({"len": smp.len(), "vals": i64s(&vals)})
    });
}

fn run_int(log: &mut Log, tag: &str, text: &[usize], w: u32) {
    if !log.begin(tag, json!({"kind": "int", "text": usizes(text)})) {
        return;
    }
    log.call("suffix_array_int", json!({ "w": w }), || {
        let sa = match w {
            8 => suffix_array_int(&text.iter().map(|&x| x as u8).collect::<Vec<u8>>()),
            16 => suffix_array_int(&text.iter().map(|&x| x as u16).collect::<Vec<u16>>()),
            32 => suffix_array_int(&text.iter().map(|&x| x as u32).collect::<Vec<u32>>()),
            _ => suffix_array_int(text),
        };
        json!({"sa": usizes(&sa)})
    });
}

fn all_strings(alpha: &[u8], len: usize) -> Vec<Vec<u8>> {
    let mut cur: Vec<Vec<u8>> = vec![vec![]];
    for _ in 0..len {
        let mut nxt = vec![];
        for s in &cur {
            for &c in alpha {
                let mut t = s.clone();
                t.push(c);
                nxt.push(t);
            }
        }
        cur = nxt;
    }
    cur
}

fn fib(n: usize, a: u8, b: u8) -> Vec<u8> {
    let (mut x, mut y) = (vec![a], vec![a, b]);
    while y.len() < n {
        let mut z = y.clone();
        z.extend_from_slice(&x);
        x = y;
        y = z;
    }
    y.truncate(n);
    y
}

fn thue(n: usize, a: u8, b: u8) -> Vec<u8> {
    (0..n).map(|i| if (i as u64).count_ones() % 2 == 0 { a } else { b }).collect()
}

/// every sampling rate 1..=n+1 (the MC domain) with a rotating small Occ rate
fn full_rates(n: usize, rot: u64) -> Vec<(usize, u32, u8)> {
    (1..=n + 1).map(|s| (s, [1u32, 2, 3][((rot as usize) + s) % 3], ((s as u64 + rot) % 2) as u8)).collect()
}

/// sample-rate grid of DESIGN.md: s in {1,2,3,5,n,n+1} x k
fn grid(n: usize, ks: &[u32], rot: u64, take: usize) -> Vec<(usize, u32, u8)> {
    let mut ss = vec![1usize, 2, 3, 5, n, n + 1];
    ss.sort();
    ss.dedup();
    let mut all = vec![];
    for &s in &ss {
        for &k in ks {
            all.push((s, k, ((s as u64 + k as u64) % 2) as u8));
        }
    }
    if take >= all.len() {
        return all;
    }
    (0..take).map(|i| all[((rot as usize) * 7 + i * (all.len() / take).max(1)) % all.len()]).collect()
}

pub fn drive(log: &mut Log) {
    let seed = log.opts.seed;
    let th = log.opts.thorough();
    let mut case: u64 = 0;

    // (a) exhaustive: bodies over {A,C} (single sentinel) and over {A,C,$} with <= 3 sentinels in total
    // (equal LMS substrings -- the SA-IS recursion -- first appear at n = 8: "CACACAC$")
    let l1 = if th { 11 } else { 9 };
    for l in 0..l1 {
        for body in all_strings(b"AC", l) {
            case += 1;
            if !log.mine(case) {
                continue;
            }
            let mut text = body;
            text.push(b'$');
            let n = text.len();
            let samples = if n <= 6 { full_rates(n, case) } else { grid(n, &[1, 3], case, if th { 12 } else { 3 }) };
            let plan = Plan { lcp: true, sus: true, samples };
            if text == b"CACACAC$" {
                // LMS positions 1,3,5,7 with LMS substrings ACA, ACA, AC$: two equal names => recursion
                log.oblige("recursion_smallest_witness");
            }
            if text == b"CCCAAA$" || text == b"CA$" {
                // a single LMS position (the sentinel): no sorting of LMS suffixes at all
                log.oblige("single_lms");
            }
            run_bytes(log, "ex1", &text, &plan);
        }
    }
    // (a2) every binary body of length l1..=12 (13 thorough): suffix_array only. Equal LMS substrings that
    //      are longer than the number of LMS positions first exist at body length 11 ("babbbabbbab$").
    for l in l1..=(if th { 13 } else { 12 }) {
        for body in all_strings(b"AC", l) {
            case += 1;
            if !log.mine(case) {
                continue;
            }
            let mut text = body;
            text.push(b'$');
            run_bytes(log, "ex2", &text, &Plan::default());
        }
    }
    log.oblige("exhaustive_binary_12");
    let l2 = if th { 8 } else { 7 };
    for l in 1..l2 {
        for body in all_strings(b"AC$", l) {
            let sc = body.iter().filter(|&&c| c == b'$').count();
            if sc == 0 || sc > 2 {
                continue;
            }
            case += 1;
            if !log.mine(case) {
                continue;
            }
            let mut text = body;
            text.push(b'$');
            let n = text.len();
            let samples = if n <= 6 { full_rates(n, case) } else { grid(n, &[1, 3], case, if th { 12 } else { 3 }) };
            let plan = Plan { lcp: false, sus: false, samples };
            run_bytes(log, "exm", &text, &plan);
        }
    }
    // all-sentinel texts
    for n in 1..6usize {
        case += 1;
        if log.mine(case) {
            let text = vec![b'$'; n];
            run_bytes(log, "alls", &text, &Plan { lcp: false, sus: false, samples: grid(n, &[1, 2], case, 6) });
        }
    }
    log.oblige("exhaustive_small");

    // (b) random DNA / protein / full byte range
    let nrand = log.opts.n(48, 240);
    for v in 0..nrand {
        case += 1;
        if !log.mine(case) {
            continue;
        }
        let mut rng = Rng::new(seed, 3, case);
        let alpha: Vec<u8> = match v % 4 {
            0 => b"ACGT".to_vec(),
            1 => b"ACDEFGHIKLMNPQRSTVWY".to_vec(),
            2 => b"ACGTN".to_vec(),
            _ => (37..=255u8).collect(),
        };
        let n = match v % 6 {
            0 => rng.range(2, 40),
            1 => rng.range(40, 150),
            2 => rng.range(150, 400),
            3 => rng.range(400, 900),
            4 => rng.range(900, 2000),
            _ => rng.range(20, 300),
        } as usize;
        let mut text = rng.seq(n - 1, &alpha);
        let multi = v % 3 == 1;
        if multi {
            let cnt = rng.range(1, 12) as usize;
            for _ in 0..cnt {
                let p = rng.below((n - 1) as u64) as usize;
                text[p] = b'$';
            }
        }
        text.push(b'$');
        let ks: &[u32] = if n > 140 { &[1, 3, 64, 65, 128] } else { &[1, 3, 64, 65] };
        let plan = Plan {
            lcp: true,
            sus: n <= 220,
            samples: grid(n, ks, case, if n > 600 { 2 } else if th { 10 } else { 4 }),
        };
        run_bytes(log, "rnd", &text, &plan);
        if multi {
            log.oblige("random_multi_sentinel");
        }
        if n >= 900 {
            log.oblige("random_long");
        }
    }

    // (c) repetitive texts (equal LMS substrings, recursion depth >= 2), n <= 300
    let reps: Vec<(&str, usize)> = if th {
        vec![("unary", 300), ("unary", 17), ("p2", 300), ("p2", 41), ("p3", 299), ("p4", 300), ("p5", 301 - 1),
             ("fib", 300), ("fib", 89), ("thue", 300), ("thue", 128), ("abka", 301 - 2), ("abka", 33), ("runs", 300),
             ("sq", 300), ("sq", 120)]
    } else {
        vec![("unary", 300), ("p2", 200), ("p3", 150), ("p5", 211), ("fib", 300), ("thue", 256), ("abka", 201),
             ("runs", 300), ("sq", 180)]
    };
    for (ci, (kind, n)) in reps.iter().enumerate() {
        for variant in 0..log.opts.n(1, 3) {
            case += 1;
            if !log.mine(case) {
                continue;
            }
            let mut rng = Rng::new(seed, 5, case);
            let n = *n;
            let (a, b) = if variant % 2 == 0 { (b'A', b'C') } else { (b'T', b'C') };
            let mut text: Vec<u8> = match *kind {
                "unary" => vec![a; n - 1],
                "p2" | "p3" | "p4" | "p5" => {
                    let per = kind[1..].parse::<usize>().unwrap();
                    let mut unit = rng.seq(per, b"ACGT");
                    unit[0] = a;
                    if per > 1 {
                        unit[per - 1] = b;
                    }
                    (0..n - 1).map(|i| unit[i % per]).collect()
                }
                "fib" => fib(n - 1, a, b),
                "thue" => thue(n - 1, a, b),
                "abka" => (0..n - 1).map(|i| if i % 2 == 0 { a } else { b }).collect(), // (ab)^k a
                "runs" => {
                    let mut t = vec![];
                    while t.len() < n - 1 {
                        let c = *rng.pick(b"AC");
                        for _ in 0..rng.range(1, 60) {
                            if t.len() < n - 1 {
                                t.push(c);
                            }
                        }
                    }
                    t
                }
                _ => {
                    // square: w w for a random w
                    let w = rng.seq((n - 1) / 2, b"ACGT");
                    let mut t = w.clone();
                    t.extend_from_slice(&w);
                    t
                }
            };
            // a multi-sentinel variant of the repetitive text (identical sequences joined by '$')
            if variant == 2 {
                let q = text.len() / 3;
                if q > 1 {
                    text[q] = b'$';
                    text[2 * q] = b'$';
                }
            }
            text.push(b'$');
            let plan = Plan {
                lcp: true,
                sus: text.len() <= 60,
                samples: grid(text.len(), &[1, 3, 65], case + ci as u64, 3),
            };
            run_bytes(log, "rep", &text, &plan);
            log.oblige(&format!("repetitive_{}", kind));
        }
    }

    // (d) u16 transform: alphabet classes + sentinel occurrences > 255
    for v in 0..log.opts.n(2, 6) {
        case += 1;
        if !log.mine(case) {
            continue;
        }
        let mut rng = Rng::new(seed, 6, case);
        let (nsent, nlet) = match v % 3 {
            0 => (200usize, 60usize),
            1 => (1, 255),
            _ => (130, 126), // 130 + 127 classes (letters + sentinel) = 257 > 255
        };
        let sent = 0u8;
        let letters: Vec<u8> = (1..=nlet as u8).collect();
        let mut text: Vec<u8> = letters.clone(); // every letter at least once
        let extra = rng.range(20, 200) as usize;
        text.extend(rng.seq(extra, &letters));
        for _ in 0..nsent - 1 {
            let p = rng.below(text.len() as u64 + 1) as usize;
            text.insert(p, sent);
        }
        text.push(sent);
        let n = text.len();
        let plan = Plan { lcp: nsent == 1, sus: false, samples: grid(n, &[1, 65], case, 3) };
        run_bytes(log, "u16", &text, &plan);
        log.oblige("transform_u16");
    }
    // 255 classes exactly (u8 path boundary): 195 sentinels + 60 letters incl. the sentinel class
    for v in 0..2u64 {
        case += 1;
        if !log.mine(case) {
            continue;
        }
        let mut rng = Rng::new(seed, 7, case);
        let nsent = 195 + v as usize; // alphabet.len() = 61 (60 letters + sentinel): 256 / 257 ... see below
        let letters: Vec<u8> = (1..=59u8).collect(); // alphabet.len() = 60 with the sentinel
        let mut text: Vec<u8> = letters.clone();
        text.extend(rng.seq(40, &letters));
        for _ in 0..nsent - 1 {
            let p = rng.below(text.len() as u64 + 1) as usize;
            text.insert(p, 0);
        }
        text.push(0);
        // 60 + 195 = 255 -> u8 ; 60 + 196 = 256 -> u16
        run_bytes(log, "u8b", &text, &Plan { lcp: false, sus: false, samples: grid(text.len(), &[3], case, 2) });
        log.oblige(if v == 0 { "transform_u8_limit_255" } else { "transform_u16_limit_256" });
    }

    // (e) suffix_array_int on dense integer alphabets ending in a unique 0
    for v in 0..log.opts.n(24, 80) {
        case += 1;
        if !log.mine(case) {
            continue;
        }
        let mut rng = Rng::new(seed, 8, case);
        let (mx, w): (usize, u32) = match v % 6 {
            0 => (rng.range(1, 4) as usize, 8),
            1 => (rng.range(1, 255) as usize, 8),
            2 => (rng.range(256, 700) as usize, 16),
            3 => (rng.range(2, 40) as usize, 32),
            4 => (rng.range(256, 1200) as usize, 64),
            _ => (rng.range(1, 6) as usize, 64),
        };
        let extra = match v % 4 {
            0 => 0,
            1 => rng.range(1, 30) as usize,
            2 => rng.range(30, 300) as usize,
            _ => rng.range(1, 10) as usize,
        };
        let mut text: Vec<usize> = (1..=mx).collect();
        for _ in 0..extra {
            text.push(rng.range(1, mx as i64) as usize);
        }
        // shuffle
        for i in (1..text.len()).rev() {
            let j = rng.below(i as u64 + 1) as usize;
            text.swap(i, j);
        }
        if v % 5 == 4 {
            // periodic integer text: equal LMS substrings in the integer path
            let per = rng.range(2, 4) as usize;
            let unit: Vec<usize> = (0..per).map(|i| 1 + (i * 7) % mx.min(3)).collect();
            let reps: Vec<usize> = (0..120).map(|i| unit[i % per]).collect();
            text.extend(reps);
        }
        text.push(0);
        run_int(log, "int", &text, w);
        if mx > 255 {
            log.oblige("int_alphabet_gt_255");
        }
        if w == 8 {
            log.oblige("int_u8");
        }
    }
    for l in 0..if th { 6 } else { 5 } {
        for body in all_strings(&[1, 2], l) {
            // dense: needs both 1 and 2 unless max is 1
            let mx = body.iter().cloned().max().unwrap_or(0);
            if mx == 2 && !body.contains(&1) {
                continue;
            }
            case += 1;
            if !log.mine(case) {
                continue;
            }
            let mut t: Vec<usize> = body.iter().map(|&x| x as usize).collect();
            t.push(0);
            run_int(log, "intex", &t, 64);
        }
    }

    // (f) planted repeats of length exactly L: LCP values around the SmallInts escape value 127
    for &l in &[125usize, 126, 127, 128, 129, 200, 254, 255, 256] {
        for v in 0..log.opts.n(1, 2) {
            case += 1;
            if !log.mine(case) {
                continue;
            }
            let mut rng = Rng::new(seed, 9, case);
            // text = p X q  r X s $  with p != r and q != s  (X random over ACGT, flanks over {N,M})
            let x = rng.seq(l, b"ACGT");
            let mut text = vec![];
            let f1 = rng.range(0, 20) as usize;
            text.extend(rng.seq(f1, b"ACGT"));
            text.push(b'N');
            text.extend_from_slice(&x);
            text.push(b'M');
            let f2 = rng.range(0, 20) as usize;
            text.extend(rng.seq(f2, b"ACGT"));
            text.push(b'M');
            text.extend_from_slice(&x);
            text.push(b'N');
            if v == 1 {
                let f3 = rng.range(1, 30) as usize;
                text.extend(rng.seq(f3, b"ACGT"));
            }
            text.push(b'$');
            let plan = Plan { lcp: true, sus: text.len() <= 300, samples: vec![] };
            run_bytes(log, "plant", &text, &plan);
            log.oblige(&format!("lcp_plant_{}", l));
        }
    }

    // (i) width dispatch of suffix_array(): alphabet.len() + sentinel_count = a for every a in 250..=262,
    //     varying both the number of reads (= sentinel occurrences) and the number of distinct letters
    for a in 250..=262usize {
        let ds: Vec<usize> = if th { vec![1, 4, 5, 20, 60, 120] } else { vec![5, [1, 4, 20, 60][a % 4]] };
        for &dl in &ds {
            case += 1;
            if !log.mine(case) {
                continue;
            }
            let mut rng = Rng::new(seed, 16, case);
            let letters: Vec<u8> = if dl == 5 { b"ACGTN".to_vec() } else { (0..dl as u8).map(|i| b'%' + i).collect() };
            let reads = a - (dl + 1); // alphabet.len() = dl letters + the sentinel
            let mut text: Vec<u8> = vec![];
            for r in 0..reads {
                text.push(letters[r % dl]); // every letter occurs
                for _ in 0..rng.range(0, 2) {
                    text.push(*rng.pick(&letters));
                }
                text.push(b'$');
            }
            let plan = Plan { lcp: false, sus: false, samples: grid(text.len(), &[3], case, 1) };
            run_bytes(log, "wsw", &text, &plan);
            log.oblige("width_boundary_sweep_250_262");
        }
    }
    // the 16/32 bit twin of that boundary (thorough only; validated in witness form)
    if th {
        for &a in &[65_537usize, 65_538] {
            case += 1;
            if !log.mine(case) {
                continue;
            }
            let mut rng = Rng::new(seed, 17, case);
            let reads = a - 6; // ACGTN + sentinel
            let mut text: Vec<u8> = Vec::with_capacity(reads * 2);
            for r in 0..reads {
                text.push(b"ACGTN"[r % 5]);
                if rng.chance(1, 4) {
                    text.push(*rng.pick(b"ACGTN"));
                }
                text.push(b'$');
            }
            run_big(log, "big16", &text);
            log.oblige("width_boundary_65538");
        }
    }

    // (j) few, long, repeated monotone blocks: [prefix] (a^i b^j)^r $ and [prefix] (a^i b^j c^k)^r $.
    //     The LMS substrings are a^i b^j a (resp. a^i b^j c^k a): long, all equal, and there are only
    //     about r LMS positions -- so the LMS substrings are longer than the number of LMS positions.
    {
        let steps2: &[usize] = if th { &[1, 2, 3, 4, 5, 6, 8, 10, 13, 17, 21, 25] } else { &[1, 2, 3, 5, 8, 13, 20] };
        let steps3: &[usize] = if th { &[1, 2, 3, 5, 8, 13, 20] } else { &[1, 2, 4, 9] };
        let rs: &[usize] = if th { &[2, 3, 4, 5, 6] } else { &[2, 3, 4, 6] };
        let mut fam: Vec<(Vec<usize>, usize, u8)> = vec![];
        for &i in steps2 {
            for &j in steps2 {
                for &r in rs {
                    for pre in 0..3u8 {
                        fam.push((vec![i, j], r, pre));
                    }
                }
            }
        }
        for &i in steps3 {
            for &j in steps3 {
                for &k in steps3 {
                    for &r in rs {
                        for pre in [0u8, 3u8] {
                            fam.push((vec![i, j, k], r, pre));
                        }
                    }
                }
            }
        }
        for (fi, (blk, r, pre)) in fam.iter().enumerate() {
            case += 1;
            if !log.mine(case) {
                continue;
            }
            // quick tier: a third of the family (rotating with the seed), and only texts up to 130 symbols
            let len: usize = blk.iter().sum::<usize>() * r + 2;
            if !th && ((fi as u64 + seed) % 3 != 0 || len > 130) {
                continue;
            }
            let mut text: Vec<u8> = match pre {
                1 => vec![b'A'],
                2 => vec![b'C'],
                3 => vec![b'G'],
                _ => vec![],
            };
            for _ in 0..*r {
                for (bi, &cnt) in blk.iter().enumerate() {
                    for _ in 0..cnt {
                        text.push(b"ACG"[bi]);
                    }
                }
            }
            text.push(b'$');
            run_bytes(log, "blk", &text, &Plan { lcp: fi % 5 == 0, sus: false, samples: vec![] });
            if blk.iter().sum::<usize>() > r + 1 {
                log.oblige("lms_substring_longer_than_lms_count");
            }
        }
    }

    // (k) more than 65,536 DISTINCT LMS substrings (names need 32 bits). Closed-form family for
    //     suffix_array_int: the zigzag text 2m, 1, 2m-1, 2, ..., m+1, m, 0 has pairwise distinct symbols,
    //     so its suffix array is the inverse permutation, and every small value is an LMS position.
    for &(m, w) in (if th { &[(70_000usize, 64u32), (66_000, 32)][..] } else { &[(70_000usize, 64u32)][..] }) {
        case += 1;
        if !log.mine(case) {
            continue;
        }
        let mut text: Vec<usize> = Vec::with_capacity(2 * m + 1);
        for j in 0..m {
            text.push(2 * m - j);
            text.push(j + 1);
        }
        text.push(0);
        if log.begin("zig", json!({"kind": "zigzag", "m": m})) {
            log.call("suffix_array_zigzag", json!({ "w": w }), || {
                let sa = if w == 32 {
                    suffix_array_int(&text.iter().map(|&x| x as u32).collect::<Vec<u32>>())
                } else {
                    suffix_array_int(&text)
                };
                json!({"sa": usizes(&sa)})
            });
        }
        log.oblige("more_than_65536_distinct_lms_names");
    }
    if th {
        // the byte API on a long non-repetitive text (about n/3 distinct LMS substrings), plain IsValidSA
        case += 1;
        if log.mine(case) {
            let mut rng = Rng::new(seed, 22, case);
            let letters: Vec<u8> = (1..=200u8).collect();
            let mut text = rng.seq(300_000, &letters);
            text.push(0);
            run_bytes(log, "longrnd", &text, &Plan::default());
            log.oblige("long_random_bytes_300k");
        }
    }

    // (l) suffix_array_int where the largest symbol is (close to) the integer type's maximum:
    //     u8 with max 253, 254, 255 and u16 with max 65535 (65534 in thorough); dense texts, unique 0
    for &(mx, w, reps) in &[(253usize, 8u32, 3usize), (254, 8, 2), (255, 8, 3), (255, 8, 1), (65_535, 16, 1), (65_534, 16, 1)] {
        if mx == 65_534 && !th {
            continue;
        }
        case += 1;
        if !log.mine(case) {
            continue;
        }
        let mut rng = Rng::new(seed, 26, case);
        let mut text: Vec<usize> = vec![];
        for _ in 0..reps {
            text.extend(1..=mx);
        }
        for i in (1..text.len()).rev() {
            let j = rng.below(i as u64 + 1) as usize;
            text.swap(i, j);
        }
        text.push(0);
        if w == 16 {
            // all symbols distinct: the suffix array is the inverse permutation (closed form; the general
            // predicate would rank 65,536 distinct symbols against each other)
            if log.begin("intperm", json!({"kind": "int", "text": usizes(&text)})) {
                log.call("suffix_array_perm", json!({ "w": w }), || {
                    let sa = suffix_array_int(&text.iter().map(|&x| x as u16).collect::<Vec<u16>>());
                    json!({"sa": usizes(&sa)})
                });
            }
        } else {
            run_int(log, "intmax", &text, w);
        }
        log.oblige(if w == 8 { "int_u8_max_symbol_253_to_255" } else { "int_u16_max_symbol_65535" });
    }

    // (g) more than 65,535 sentinel occurrences: ranks of the transformed text need 32 bits
    for v in 0..log.opts.n(1, 2) {
        case += 1;
        if !log.mine(case) {
            continue;
        }
        let mut rng = Rng::new(seed, 10, case);
        let reads = 66_000 + rng.range(0, 500) as usize;
        let mut text: Vec<u8> = Vec::with_capacity(reads * 4);
        for _ in 0..reads {
            let len = if v == 0 && th { rng.range(1, 4) } else { rng.range(1, 2) } as usize;
            for _ in 0..len {
                text.push(*rng.pick(b"ACGT"));
            }
            text.push(b'$');
        }
        run_big(log, "big", &text);
        log.oblige("more_than_65535_sentinels");
    }

    // (h) a text longer than 2^24 (not exactly representable as f32), sampled; unary closed-form family
    let unary: &[(usize, u32, usize)] = if th {
        &[((1 << 24) + 1, 128, 32), ((1 << 24) + 1, 65, 64), ((1 << 24) + 3, 128, 2), ((1 << 24) + 1, 128, 2), ((1 << 24) + 1, 128, 3),
          ((1 << 24) + 1, 128, 5), ((1 << 24) + 1, 128, 7)]
    } else {
        &[((1 << 24) + 1, 128, 32), ((1 << 24) + 1, 128, 2)]
    };
    for &(n, k, s) in unary {
        case += 1;
        if !log.mine(case) {
            continue;
        }
        run_unary(log, "unary", n, k, s);
        log.oblige("text_longer_than_2p24_sampled");
    }
    // the same family small enough to cross-check nothing but the event shape (n = 1000)
    case += 1;
    if log.mine(case) {
        run_unary(log, "unary", 1000, 3, 32);
    }
}

fn main() {
    bio_verif_harness::run(drive)
}
