//! X05 — `bio::scores::{blosum30, blosum45, blosum62, pam40, pam120, pam200, pam250}` and what the
//! protein alphabets have to do with them.
//!
//! One run = one matrix (cfg.m).  Events:
//!   table()       -> v = the 27 rows row(a), a in "ABCDEFGHIJKLMNOPQRSTUVWXYZ*"; first event of every run
//!   row(a)        -> v = [score(a, b) : b in "ABCDEFGHIJKLMNOPQRSTUVWXYZ*"]   (27 values, this order)
//!   score(a, b)   -> v                       any two bytes (also outside the table: the panic is data)
//!   word(t)       -> v = [score(t[i], t[i]) ...]   self scores along a word
//! and one run "alpha": is_word of the predefined protein alphabets on the letters of the table.
//! No expected value is computed here, nothing is compared.
use bio::alphabets;
use bio::scores;
use bio_verif_harness::{bytes, Log, Rng};
use serde_json::json;

const LETTERS: &[u8] = b"ABCDEFGHIJKLMNOPQRSTUVWXYZ*";

fn table(log: &mut Log, f: fn(u8, u8) -> i32) {
    log.call("table", json!({}), || {
        let v: Vec<Vec<i32>> = LETTERS.iter().map(|&a| LETTERS.iter().map(|&b| f(a, b)).collect()).collect();
        json!({ "v": v })
    });
}

pub fn drive(log: &mut Log) {
    let seed = log.opts.seed;
    let mut case = 0u64;
    let mats: [(&str, fn(u8, u8) -> i32); 7] = [
        ("blosum30", scores::blosum30),
        ("blosum45", scores::blosum45),
        ("blosum62", scores::blosum62),
        ("pam40", scores::pam40),
        ("pam120", scores::pam120),
        ("pam200", scores::pam200),
        ("pam250", scores::pam250),
    ];
    for (name, f) in mats.iter() {
        let f = *f;
        // (1) the whole table, row by row
        case += 1;
        if log.mine(case) && log.begin("rows", json!({"grp": "rows", "m": name})) {
            table(log, f);
            for &a in LETTERS {
                log.call("row", json!({"a": a}), || {
                    let v: Vec<i32> = LETTERS.iter().map(|&b| f(a, b)).collect();
                    json!({ "v": v })
                });
            }
            log.oblige("every_pair_of_the_table");
        }
        // (2) every byte in either position against a letter of the table (refused or not?)
        for part in 0..4u64 {
            case += 1;
            if !(log.mine(case) && log.begin("bytes", json!({"grp": "bytes", "m": name}))) {
                continue;
            }
            table(log, f);
            for x in (part * 64)..(part * 64 + 64) {
                let x = x as u8;
                let partner = LETTERS[(x as usize) % LETTERS.len()];
                log.call("score", json!({"a": x, "b": partner}), || json!({"v": f(x, partner)}));
                log.call("score", json!({"a": partner, "b": x}), || json!({"v": f(partner, x)}));
                if x == b'[' {
                    log.oblige("byte_behind_Z");
                }
                if x == b'@' {
                    log.oblige("byte_before_A");
                }
                if x == b'a' {
                    log.oblige("lower_case_letter");
                }
            }
            log.oblige("every_byte_in_both_positions");
        }
        // (3) random pairs of arbitrary bytes, and words over the table
        for _ in 0..log.opts.n(2, 20) {
            case += 1;
            if !log.mine(case) {
                continue;
            }
            let mut rng = Rng::new(seed, 502, case);
            if !log.begin("rnd", json!({"grp": "rnd", "m": name})) {
                continue;
            }
            table(log, f);
            for _ in 0..40 {
                let a = rng.below(256) as u8;
                let b = if rng.coin() { rng.below(256) as u8 } else { *rng.pick(LETTERS) };
                log.call("score", json!({"a": a, "b": b}), || json!({"v": f(a, b)}));
            }
            for _ in 0..4 {
                let n = rng.range(0, 30) as usize;
                let t = rng.seq(n, LETTERS);
                log.call("word", json!({"t": bytes(&t)}), || {
                    let v: Vec<i32> = t.iter().map(|&c| f(c, c)).collect();
                    json!({ "v": v })
                });
            }
            log.oblige("random_pairs");
        }
    }
    // (4) the predefined protein alphabets on single letters (which of them can be scored?)
    case += 1;
    if log.mine(case) && log.begin("alpha", json!({"grp": "alpha", "m": "none"})) {
        let std = alphabets::protein::alphabet();
        let iupac = alphabets::protein::iupac_alphabet();
        for x in 0..=255u8 {
            log.call("member", json!({"a": x}), || {
                json!({"std": std.is_word(&[x]) as u8, "iupac": iupac.is_word(&[x]) as u8})
            });
        }
        log.call("sizes", json!({}), || {
            json!({"std": std.len(), "iupac": iupac.len(),
                   "std_max": std.max_symbol().map(|x| x as i64).unwrap_or(-1),
                   "iupac_max": iupac.max_symbol().map(|x| x as i64).unwrap_or(-1),
                   "both": std.intersection(&iupac).len(), "either": std.union(&iupac).len(),
                   "only_std": std.difference(&iupac).len(), "only_iupac": iupac.difference(&std).len()})
        });
        log.oblige("protein_alphabets");
    }
}

fn main() {
    bio_verif_harness::run(drive)
}
