//! C20 — complements, alphabets, rank transform, GC content.
//! Runs: kind "compl" (dna|rna): `table` (all 256 bytes), `revcomp(t)`;
//!       kind "alpha": one Alphabet + RankTransform built from cfg.syms;
//!       kind "std": symbols of the predefined alphabets; kind "gc": gc / gc3 content.
//! Floats are projected to round(x * 10^6) here (integers only in the trace); no expected values.
use bio::alphabets::{self, Alphabet, RankTransform};
use bio::seq_analysis::gc;
use bio_verif_harness::{bytes, Log, Rng};
use serde_json::json;

fn symbols_of(a: &Alphabet) -> Vec<usize> {
    a.symbols.iter().collect()
}

fn fixed(x: f32) -> (i64, u8) {
    if x.is_nan() {
        return (-1, 1);
    }
    let v = (x as f64 * 1_000_000.0).round();
    (v.max(-1.0).min(2_000_000.0) as i64, 0)
}

fn compl_runs(log: &mut Log, case: &mut u64) {
    let seed = log.opts.seed;
    for mol in ["dna", "rna"] {
        *case += 1;
        if !log.mine(*case) {
            continue;
        }
        if !log.begin("cp", json!({"kind": "compl", "mol": mol})) {
            continue;
        }
        let comp: fn(u8) -> u8 = if mol == "dna" { alphabets::dna::complement } else { alphabets::rna::complement };
        log.call("table", json!({}), || {
            let v: Vec<u8> = (0..=255u8).map(comp).collect();
            json!({ "v": v })
        });
        log.oblige("compl_all_256_bytes");
        let mut rng = Rng::new(seed, 41, *case);
        let all: Vec<u8> = (0..=255u8).collect();
        let iupac: &[u8] = b"ACGTUacgtuRYSWKMBDHVNZryswkmbdhvnz";
        let mut texts: Vec<Vec<u8>> = vec![vec![], vec![b'A'], all.clone()];
        for i in 0..log.opts.n(12, 100) {
            let n = rng.range(1, 120) as usize;
            texts.push(if i % 2 == 0 { rng.seq(n, iupac) } else { rng.seq(n, &all) });
        }
        for (ti, t) in texts.iter().enumerate() {
            log.call("revcomp", json!({"t": bytes(t)}), || {
                let v = if mol == "dna" { alphabets::dna::revcomp(t) } else { alphabets::rna::revcomp(t) };
                json!({ "v": v })
            });
            if ti % 3 == 0 {
                log.call("revcomp_variants", json!({"t": bytes(t)}), || {
                    let half = t.len() / 2;
                    let v: Vec<Vec<u8>> = if mol == "dna" {
                        vec![
                            alphabets::dna::revcomp(t.iter().cloned()),
                            alphabets::dna::revcomp(t.clone()),
                            alphabets::dna::revcomp(t.iter().filter(|_| true)),
                            alphabets::dna::revcomp(t[..half].iter().chain(t[half..].iter())),
                        ]
                    } else {
                        vec![
                            alphabets::rna::revcomp(t.iter().cloned()),
                            alphabets::rna::revcomp(t.clone()),
                            alphabets::rna::revcomp(t.iter().filter(|_| true)),
                            alphabets::rna::revcomp(t[..half].iter().chain(t[half..].iter())),
                        ]
                    };
                    json!({ "v": v })
                });
                log.oblige("revcomp_input_iterators_by_value_and_inexact_hints");
            }
        }
    }
}

fn alpha_run(log: &mut Log, rng: &mut Rng, syms: &[u8]) {
    if !log.begin("al", json!({"kind": "alpha", "syms": bytes(syms)})) {
        return;
    }
    if syms.contains(&0) {
        log.oblige("alpha_contains_byte_0");
    }
    if syms.contains(&255) {
        log.oblige("alpha_contains_byte_255");
    }
    if syms.is_empty() {
        log.oblige("alpha_empty");
    }
    let mut alpha: Option<Alphabet> = None;
    log.call("new", json!({}), || {
        alpha = Some(Alphabet::new(syms));
        json!({})
    });
    let alpha = match alpha {
        Some(a) => a,
        None => return,
    };
    log.call("len", json!({}), || json!({"v": alpha.len()}));
    log.call("is_empty", json!({}), || json!({"v": alpha.is_empty() as u8}));
    log.call("max_symbol", json!({}), || {
        json!({"v": alpha.max_symbol().map(|x| x as i64).unwrap_or(-1)})
    });
    log.call("symbols", json!({}), || json!({"v": symbols_of(&alpha)}));
    // words: over the alphabet, with one foreign symbol at a random place, arbitrary bytes
    let all: Vec<u8> = (0..=255u8).collect();
    let mut dedup = syms.to_vec();
    dedup.sort_unstable();
    dedup.dedup();
    if dedup.len() == 256 {
        // (RankTransform::new is called on it below: ranks 0..=255 fill the u8)
        log.oblige("alphabet_of_all_256_bytes");
        log.oblige("alpha_all_256");
    }
    let mut words: Vec<Vec<u8>> = vec![vec![]];
    for i in 0..6 {
        let n = rng.range(1, 40) as usize;
        if syms.is_empty() {
            words.push(rng.seq(n, &all));
            continue;
        }
        let mut w = rng.seq(n, syms);
        if i % 2 == 1 {
            let p = rng.below(n as u64) as usize;
            w[p] = *rng.pick(&all); // may or may not be a member
            log.oblige("alpha_word_with_planted_symbol");
        }
        words.push(w);
    }
    // neighbours of members (b-1, b+1) as one-symbol words
    for &b in syms.iter().take(4) {
        words.push(vec![b.wrapping_sub(1)]);
        words.push(vec![b.wrapping_add(1)]);
    }
    for w in &words {
        log.call("is_word", json!({"t": bytes(w)}), || json!({"v": alpha.is_word(w) as u8}));
    }
    let mut rt: Option<RankTransform> = None;
    log.call("rt_new", json!({}), || {
        rt = Some(RankTransform::new(&alpha));
        json!({})
    });
    let rt = match rt {
        Some(r) => r,
        None => return,
    };
    log.call("ranks", json!({}), || {
        let v: Vec<u8> = syms.iter().map(|&a| rt.get(a)).collect();
        json!({ "v": v })
    });
    if !syms.is_empty() {
        for _ in 0..2 {
            let n = rng.range(0, 60) as usize;
            let t = rng.seq(n, syms);
            log.call("transform", json!({"t": bytes(&t)}), || json!({"v": rt.transform(&t)}));
        }
    }
    // the alphabet from other kinds of iterators, a clone, insert in another order
    log.call("new_variants", json!({}), || {
        let mut ins = Alphabet::new(Vec::<u8>::new());
        for &b in syms.iter().rev() {
            ins.insert(b);
        }
        let v: Vec<Vec<usize>> = vec![
            symbols_of(&Alphabet::new(syms.iter().cloned())),
            symbols_of(&Alphabet::new(syms.to_vec())),
            symbols_of(&Alphabet::new(syms.iter().chain(syms.iter().rev()))),
            symbols_of(&Alphabet::new(syms.iter().filter(|_| true))),
            symbols_of(&Alphabet::new(syms.iter().flat_map(|b| vec![*b, *b]))),
            symbols_of(&alpha.clone()),
            symbols_of(&ins),
        ];
        json!({ "v": v })
    });
    log.oblige("alphabet_from_iterators_with_duplicates_and_inexact_hints");
    // a rank transform of the alphabet collected from a text, and copies of the rank transform
    if !syms.is_empty() {
        let n = rng.range(1, 50) as usize;
        let t = rng.seq(n, syms);
        log.call("ranks_via_text", json!({"t": bytes(&t)}), || {
            let rt2 = RankTransform::new(&Alphabet::new(&t));
            let v: Vec<u8> = t.iter().map(|&a| rt2.get(a)).collect();
            json!({ "v": v })
        });
        log.oblige("ranktransform_of_alphabet_from_text");
        let n = rng.range(0, 40) as usize;
        let mut w = rng.seq(n, syms);
        if rng.coin() && n > 0 {
            w[n / 2] = *rng.pick(&all);
        }
        log.call("word_variants", json!({"t": bytes(&w)}), || {
            let wv: Vec<u8> = vec![
                alpha.is_word(w.iter().cloned()) as u8,
                alpha.is_word(w.clone()) as u8,
                alpha.is_word(w.iter().filter(|_| true)) as u8,
                alpha.clone().is_word(&w) as u8,
            ];
            let mut tr: Vec<Vec<u8>> = vec![];
            if alpha.is_word(&w) {
                let rt_clone = rt.clone();
                let text = serde_json::to_string(&rt).expect("serialize");
                let rt_serde: RankTransform = serde_json::from_str(&text).expect("deserialize");
                tr.push(rt.transform(w.iter().cloned()));
                tr.push(rt_clone.transform(w.iter().filter(|_| true)));
                tr.push(rt_serde.transform(&w));
                tr.push(RankTransform::new(&rt.alphabet()).transform(&w));
            }
            json!({"w": wv, "tr": tr})
        });
        log.oblige("alphabet_and_ranktransform_copies_and_input_kinds");
    }
    // set operations with a second alphabet
    let k = rng.range(0, 12) as usize;
    let mut other: Vec<u8> = (0..k).map(|_| *rng.pick(&all)).collect();
    if !syms.is_empty() {
        for _ in 0..3 {
            other.push(*rng.pick(syms));
        }
    }
    let third: Vec<u8> = (0..rng.range(0, 6)).map(|_| *rng.pick(&all)).collect();
    log.call("setops_orders", json!({"other": bytes(&other), "third": bytes(&third)}), || {
        let b = Alphabet::new(&other);
        let c = Alphabet::new(&third);
        let mut ins = Alphabet::new(Vec::<u8>::new());
        for &x in syms.iter().rev() {
            ins.insert(x);
        }
        let mut ins2 = alpha.clone();
        for &x in other.iter() {
            ins2.insert(x);
        }
        json!({"uab": symbols_of(&alpha.union(&b)), "uba": symbols_of(&b.union(&alpha)),
               "iab": symbols_of(&alpha.intersection(&b)), "iba": symbols_of(&b.intersection(&alpha)),
               "u3a": symbols_of(&alpha.union(&b).union(&c)), "u3b": symbols_of(&alpha.union(&b.union(&c))),
               "ins": symbols_of(&ins), "ins2": symbols_of(&ins2),
               "dab": symbols_of(&alpha.difference(&b)), "dba": symbols_of(&b.difference(&alpha))})
    });
    log.oblige("alphabet_set_operations_in_both_orders");
    log.call("setops", json!({"other": bytes(&other)}), || {
        let b = Alphabet::new(&other);
        json!({"u": symbols_of(&alpha.union(&b)), "i": symbols_of(&alpha.intersection(&b)),
               "d": symbols_of(&alpha.difference(&b))})
    });
}

pub fn drive(log: &mut Log) {
    let seed = log.opts.seed;
    let mut case: u64 = 0;
    compl_runs(log, &mut case);

    // predefined alphabets
    let stds: [(&str, fn() -> Alphabet); 8] = [
        ("dna", alphabets::dna::alphabet),
        ("dna_n", alphabets::dna::n_alphabet),
        ("dna_iupac", alphabets::dna::iupac_alphabet),
        ("rna", alphabets::rna::alphabet),
        ("rna_n", alphabets::rna::n_alphabet),
        ("rna_iupac", alphabets::rna::iupac_alphabet),
        ("protein", alphabets::protein::alphabet),
        ("protein_iupac", alphabets::protein::iupac_alphabet),
    ];
    for (name, f) in stds.iter() {
        case += 1;
        if !log.mine(case) {
            continue;
        }
        if log.begin("sd", json!({"kind": "std", "name": name})) {
            log.call("symbols", json!({}), || json!({"v": symbols_of(&f())}));
            log.oblige("std_alphabets");
        }
    }

    // alphabets from byte sets: fixed corner cases, then random (with duplicates, unordered)
    let all: Vec<u8> = (0..=255u8).collect();
    let mut fixed_sets: Vec<Vec<u8>> = vec![
        vec![],
        vec![0],
        vec![255],
        vec![0, 255],
        vec![255, 0, 0, 255],
        b"ACGT".to_vec(),
        b"TGCA".to_vec(),
        b"$ACGTN".to_vec(),
        all.clone(),
        (0..=255u8).rev().collect(),
        (0..=255u8).filter(|b| b % 2 == 1).collect(),
        vec![31, 32, 33, 63, 64, 65, 127, 128, 129], // bit-set word boundaries
    ];
    let nrand = log.opts.n(60, 600);
    for i in 0..(fixed_sets.len() as u64 + nrand) {
        case += 1;
        if !log.mine(case) {
            continue;
        }
        let mut rng = Rng::new(seed, 43, case);
        let syms: Vec<u8> = if (i as usize) < fixed_sets.len() {
            std::mem::take(&mut fixed_sets[i as usize])
        } else {
            let k = match i % 4 {
                0 => rng.range(1, 4),
                1 => rng.range(4, 24),
                2 => rng.range(24, 100),
                _ => rng.range(100, 300),
            } as usize;
            let mut s: Vec<u8> = (0..k).map(|_| *rng.pick(&all)).collect();
            if rng.chance(1, 4) {
                s.push(0);
            }
            if rng.chance(1, 4) {
                s.insert(0, 255);
            }
            s
        };
        alpha_run(log, &mut rng, &syms);
    }

    gc_rep_runs(log, &mut case);
    gc_segs_runs(log, &mut case);

    // GC content
    let ngc = log.opts.n(40, 400);
    for i in 0..ngc {
        case += 1;
        if !log.mine(case) {
            continue;
        }
        let mut rng = Rng::new(seed, 47, case);
        if !log.begin("gc", json!({"kind": "gc"})) {
            continue;
        }
        let alpha: &[u8] = match i % 4 {
            0 => b"ACGT",
            1 => b"ACGTacgtNnSs",
            2 => b"GCgc",
            _ => &all,
        };
        let mut texts: Vec<Vec<u8>> = vec![];
        if i == 0 {
            texts.push(vec![]);
            texts.push(b"G".to_vec());
            texts.push(b"A".to_vec());
            texts.push(b"AAG".to_vec());
            texts.push(b"AAAG".to_vec());
            log.oblige("gc_empty_and_single");
        }
        for _ in 0..6 {
            let n = rng.range(1, 300) as usize;
            texts.push(rng.seq(n, alpha));
        }
        for t in &texts {
            log.call("gc", json!({"t": bytes(t)}), || {
                let (g, nan) = fixed(gc::gc_content(t));
                json!({"g": g, "nan": nan})
            });
            log.call("gc3", json!({"t": bytes(t)}), || {
                let (g, nan) = fixed(gc::gc3_content(t));
                json!({"g": g, "nan": nan})
            });
            if t.len() % 3 != 0 {
                log.oblige("gc3_len_not_multiple_of_3");
            }
            if t.len() % 4 == 1 {
                log.call("gc_variants", json!({"t": bytes(t)}), || {
                    let g: Vec<i64> = vec![
                        fixed(gc::gc_content(t.iter().cloned())).0,
                        fixed(gc::gc_content(t.clone())).0,
                        fixed(gc::gc_content(t.iter().filter(|_| true))).0,
                        fixed(gc::gc_content(t.chunks(3).flat_map(|c| c.iter()))).0,
                        fixed(gc::gc_content(t.iter().take_while(|_| true))).0,
                    ];
                    let g3: Vec<i64> = vec![
                        fixed(gc::gc3_content(t.iter().cloned())).0,
                        fixed(gc::gc3_content(t.clone())).0,
                        fixed(gc::gc3_content(t.iter().filter(|_| true))).0,
                        fixed(gc::gc3_content(t.chunks(2).flat_map(|c| c.iter()))).0,
                    ];
                    json!({"g": g, "g3": g3})
                });
                log.oblige("gc_input_iterators_by_value_and_inexact_hints");
            }
        }
    }
}

/// `reps` repetitions of `unit`, streamed (the sequence is never materialised or logged)
fn gc_rep_runs(log: &mut Log, case: &mut u64) {
    // (unit, reps for gc, reps for gc3): more than 2^24 G/C symbols counted in one call
    let cases: [(&[u8], u64, u64); 4] = [
        (b"G", 20_000_000, 51_000_000),
        (b"GATC", 10_000_000, 30_000_000),
        (b"cgCGAT", 9_000_000, 9_000_001),
        (b"ATTAGC", 3, 100),
    ];
    for (unit, r1, r3) in cases.iter() {
        *case += 1;
        if !log.mine(*case) {
            continue;
        }
        if !log.begin("gr", json!({"kind": "gc"})) {
            continue;
        }
        let ngc = unit.iter().filter(|b| b"GCgc".contains(b)).count() as u64;
        log.call("gc_rep", json!({"unit": bytes(unit), "reps": r1}), || {
            let it = std::iter::repeat(*unit).take(*r1 as usize).flatten();
            let (g, nan) = fixed(gc::gc_content(it));
            json!({"g": g, "nan": nan})
        });
        if ngc * r1 > (1 << 24) {
            log.oblige("more_than_2p24_gc_symbols");
        }
        log.call("gc3_rep", json!({"unit": bytes(unit), "reps": r3}), || {
            let it = std::iter::repeat(*unit).take(*r3 as usize).flatten();
            let (g, nan) = fixed(gc::gc3_content(it));
            json!({"g": g, "nan": nan})
        });
        if unit.len() == 1 && ngc * r3 / 3 > (1 << 24) {
            log.oblige("more_than_2p24_gc3_symbols");
        }
    }
}

/// two streamed segments: unit_a repeated ma*chunk times, then unit_b repeated mb*chunk times; only the
/// parameters are logged. With chunk = 3 * 2^20 and ma + mb >= 1366 the call counts more than 2^32 symbols.
fn gc_segs_runs(log: &mut Log, case: &mut u64) {
    const CHUNK: u64 = 3 << 20;
    // (unit_a, ma, unit_b, mb)
    let big: (&[u8], u64, &[u8], u64) = (b"G", 2, b"A", 1365); // 1367 chunks = 4 300 210 176 > 2^32 symbols
    let mut cases: Vec<(&[u8], u64, &[u8], u64)> = vec![(b"G", 1, b"A", 4), (b"GATC", 2, b"AT", 3), (b"c", 0, b"gA", 5)];
    // (about 8 s of one core in the release build; VERIF_GC_HUGE=0 leaves it out)
    if std::env::var("VERIF_GC_HUGE").map(|v| v != "0").unwrap_or(true) {
        cases.push(big);
    }
    for (ua, ma, ub, mb) in cases.iter() {
        *case += 1;
        if !log.mine(*case) {
            continue;
        }
        if !log.begin("gs", json!({"kind": "gc"})) {
            continue;
        }
        let na = (ma * CHUNK) as usize * ua.len();
        let nb = (mb * CHUNK) as usize * ub.len();
        let args = json!({"chunk": CHUNK, "segs": [{"unit": bytes(ua), "m": ma}, {"unit": bytes(ub), "m": mb}]});
        log.call("gc_segs", args.clone(), || {
            let x = if ua.len() == 1 && ub.len() == 1 {
                // single symbols: the cheapest lazy iterator (billions of items)
                gc::gc_content(std::iter::repeat(ua[0]).take(na).chain(std::iter::repeat(ub[0]).take(nb)))
            } else {
                gc::gc_content(ua.iter().cycle().take(na).chain(ub.iter().cycle().take(nb)))
            };
            let (g, nan) = fixed(x);
            json!({"g": g, "nan": nan})
        });
        if (na + nb) as u64 > u32::MAX as u64 {
            log.oblige("more_than_2p32_symbols_in_one_gc_call");
        } else {
            log.call("gc3_segs", args, || {
                let it = ua.iter().cycle().take(na).chain(ub.iter().cycle().take(nb));
                let (g, nan) = fixed(gc::gc3_content(it));
                json!({"g": g, "nan": nan})
            });
        }
    }
}

fn main() {
    // one gc call streams more than 2^32 symbols: give the per-call watchdog room (unless set by the caller)
    if std::env::var("VERIF_CALL_TIMEOUT_MS").is_err() {
        std::env::set_var("VERIF_CALL_TIMEOUT_MS", "180000");
    }
    bio_verif_harness::run(drive)
}
