//! C18 — SmallInts<S,B>. One run = one object; `obs` after every mutation.
use bio::data_structures::smallints::SmallInts;
use bio_verif_harness::{Log, Rng};
use num_traits::{Bounded, NumCast};
use serde_json::json;

trait Big: num_integer::Integer + NumCast + Copy + std::fmt::Debug {}
impl<T: num_integer::Integer + NumCast + Copy + std::fmt::Debug> Big for T {}

fn obs<S, B>(log: &mut Log, s: &SmallInts<S, B>)
where
    S: num_integer::Integer + Bounded + NumCast + Copy,
    B: Big,
{
    log.call("obs", json!({}), || {
        let len = s.len();
        let mut nones = 0;
        let gets: Vec<i64> = (0..len)
            .map(|i| match s.get(i) {
                Some(v) => num_traits::cast::<B, i64>(v).unwrap(),
                None => {
                    nones += 1;
                    0
                }
            })
            .collect();
        let beyond_none = if s.get(len).is_none() { 1 } else { 0 };
        let it: Vec<i64> = s.iter().map(|v| num_traits::cast::<B, i64>(v).unwrap()).collect();
        let dec: Vec<i64> = s
            .decompress()
            .into_iter()
            .map(|v| num_traits::cast::<B, i64>(v).unwrap())
            .collect();
        json!({"len": len, "gets": gets, "nones": nones, "beyond_none": beyond_none, "iter": it, "dec": dec})
    });
}

fn history<S, B>(log: &mut Log, rng: &mut Rng, ty: &str, bmin: i64, bmax: i64)
where
    S: num_integer::Integer + Bounded + NumCast + Copy + std::fmt::Debug,
    B: Big,
{
    let smin: i64 = num_traits::cast(S::min_value()).unwrap();
    let smax: i64 = num_traits::cast(S::max_value()).unwrap();
    if !log.begin("si", json!({"ty": ty, "smin": smin, "smax": smax})) {
        return;
    }
    let pickv = |rng: &mut Rng| -> i64 {
        let v = match rng.below(9) {
            0 => 0,
            1 => -1,
            2 => smax - 1,
            3 => smax,
            4 => smax + 1,
            5 => smin,
            6 => smin - 1,
            7 => rng.range(-200000, 200000),
            _ => rng.range(-3, 3),
        };
        v.max(bmin).min(bmax)
    };
    let mut s: Option<SmallInts<S, B>> = None;
    let mut len;
    if rng.chance(1, 3) {
        // from_elem takes a value of the SMALL type
        let v = match rng.below(5) {
            0 => smax,
            1 => smax - 1,
            2 => smin,
            3 => 0,
            _ => rng.range(smin, smax),
        };
        let n = rng.below(6) as usize;
        if v == smax {
            log.oblige("from_elem_max_refused");
        }
        let r = log.call("from_elem", json!({"v": v, "n": n}), || {
            s = Some(SmallInts::from_elem(num_traits::cast::<i64, S>(v).unwrap(), n));
            json!({})
        });
        if r["st"] != "ok" {
            return;
        }
        len = n;
    } else {
        let cap = rng.chance(1, 2);
        log.call("new", json!({}), || {
            s = Some(if cap { SmallInts::with_capacity(5) } else { SmallInts::new() });
            json!({})
        });
        len = 0;
    }
    let mut s = match s {
        Some(s) => s,
        None => return,
    };
    obs(log, &s);
    let nops = rng.range(1, 10);
    for _ in 0..nops {
        let v = pickv(rng);
        if v == smax {
            log.oblige("value_equals_small_max");
        }
        if v > smax {
            log.oblige("value_above_small_max");
        }
        if v < smin {
            log.oblige("value_below_small_min");
        }
        let r = if len == 0 || rng.chance(3, 5) {
            len += 1;
            log.call("push", json!({"v": v}), || {
                s.push(num_traits::cast::<i64, B>(v).unwrap());
                json!({})
            })
        } else {
            let i = rng.below(len as u64) as usize;
            // big -> small overwrite of the same slot (stale overflow-map entry) and back
            log.oblige("set");
            log.call("set", json!({"i": i, "v": v}), || {
                s.set(i, num_traits::cast::<i64, B>(v).unwrap());
                json!({})
            })
        };
        if r["st"] != "ok" {
            return;
        }
        obs(log, &s);
    }
}

pub fn drive(log: &mut Log) {
    let seed = log.opts.seed;
    let n = log.opts.n(800, 8000);
    for case in 1..=n {
        if !log.mine(case) {
            continue;
        }
        let mut rng = Rng::new(seed, 19, case);
        match case % 5 {
            0 => history::<i8, isize>(log, &mut rng, "i8_isize", -2_000_000_000, 2_000_000_000),
            1 => history::<u8, usize>(log, &mut rng, "u8_usize", 0, 2_000_000_000),
            2 => history::<i8, i32>(log, &mut rng, "i8_i32", -2_000_000_000, 2_000_000_000),
            3 => history::<u8, u16>(log, &mut rng, "u8_u16", 0, 65535),
            _ => history::<i16, i64>(log, &mut rng, "i16_i64", -2_000_000_000, 2_000_000_000),
        }
    }
}

fn main() {
    bio_verif_harness::run(drive)
}
