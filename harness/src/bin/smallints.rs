//! C18 — SmallInts<S,B>. One run = one object; `obs` after every mutation.
use bio::data_structures::smallints::SmallInts;
use bio_verif_harness::{Log, Rng};
use num_traits::{Bounded, NumCast};
use serde_json::json;

trait Big: num_integer::Integer + NumCast + Copy + std::fmt::Debug {}
impl<T: num_integer::Integer + NumCast + Copy + std::fmt::Debug> Big for T {}

fn obs<S, B>(log: &mut Log, s: &SmallInts<S, B>)
where
    S: num_integer::Integer + Bounded + NumCast + Copy,
    B: Big,
{
    log.call("obs", json!({}), || {
        let len = s.len();
        let mut nones = 0;
        let gets: Vec<i64> = (0..len)
            .map(|i| match s.get(i) {
                Some(v) => num_traits::cast::<B, i64>(v).unwrap(),
                None => {
                    nones += 1;
                    0
                }
            })
            .collect();
        let beyond_none = if s.get(len).is_none() { 1 } else { 0 };
        let it: Vec<i64> = s.iter().map(|v| num_traits::cast::<B, i64>(v).unwrap()).collect();
        let dec: Vec<i64> = s
            .decompress()
            .into_iter()
            .map(|v| num_traits::cast::<B, i64>(v).unwrap())
            .collect();
        let nth_nones = (len..len + 9).filter(|&n| s.iter().nth(n).is_none()).count();
        let step3: Vec<i64> = s.iter().step_by(3).map(|v| num_traits::cast::<B, i64>(v).unwrap()).collect();
        json!({"len": len, "gets": gets, "nones": nones, "beyond_none": beyond_none, "iter": it, "dec": dec,
               "nth_nones": nth_nones, "step3": step3, "is_empty": s.is_empty() as u8})
    });
}

fn history<S, B>(log: &mut Log, rng: &mut Rng, ty: &str, bmin: i64, bmax: i64)
where
    S: num_integer::Integer + Bounded + NumCast + Copy + std::fmt::Debug,
    B: Big,
{
    let smin: i64 = num_traits::cast(S::min_value()).unwrap();
    let smax: i64 = num_traits::cast(S::max_value()).unwrap();
    if !log.begin("si", json!({"ty": ty, "smin": smin, "smax": smax})) {
        return;
    }
    let pickv = |rng: &mut Rng| -> i64 {
        let v = match rng.below(9) {
            0 => 0,
            1 => -1,
            2 => smax - 1,
            3 => smax,
            4 => smax + 1,
            5 => smin,
            6 => smin - 1,
            7 => rng.range(-200000, 200000),
            _ => rng.range(-3, 3),
        };
        v.max(bmin).min(bmax)
    };
    let mut s: Option<SmallInts<S, B>> = None;
    let mut len;
    if rng.chance(1, 3) {
        // from_elem takes a value of the SMALL type
        let v = match rng.below(5) {
            0 => smax,
            1 => smax - 1,
            2 => smin,
            3 => 0,
            _ => rng.range(smin, smax),
        };
        // (a signed small type under an unsigned big type: only values the big type can express)
        let v = v.max(bmin.max(smin));
        let n = rng.below(6) as usize;
        if v == smax {
            log.oblige("from_elem_max_refused");
        }
        let r = log.call("from_elem", json!({"v": v, "n": n}), || {
            s = Some(SmallInts::from_elem(num_traits::cast::<i64, S>(v).unwrap(), n));
            json!({})
        });
        if r["st"] != "ok" {
            return;
        }
        len = n;
    } else {
        let cap = rng.chance(1, 2);
        log.call("new", json!({}), || {
            s = Some(if cap { SmallInts::with_capacity(5) } else { SmallInts::new() });
            json!({})
        });
        len = 0;
    }
    let mut s = match s {
        Some(s) => s,
        None => return,
    };
    obs(log, &s);
    let nops = rng.range(1, 10);
    for _ in 0..nops {
        let v = pickv(rng);
        if v == smax {
            log.oblige("value_equals_small_max");
        }
        if v > smax {
            log.oblige("value_above_small_max");
        }
        if v < smin {
            log.oblige("value_below_small_min");
        }
        let r = if len == 0 || rng.chance(3, 5) {
            len += 1;
            log.call("push", json!({"v": v}), || {
                s.push(num_traits::cast::<i64, B>(v).unwrap());
                json!({})
            })
        } else {
            let i = rng.below(len as u64) as usize;
            // big -> small overwrite of the same slot (stale overflow-map entry) and back
            log.oblige("set");
            log.call("set", json!({"i": i, "v": v}), || {
                s.set(i, num_traits::cast::<i64, B>(v).unwrap());
                json!({})
            })
        };
        if r["st"] != "ok" {
            return;
        }
        obs(log, &s);
        if rng.chance(1, 6) {
            // go on with a copy (clone / clone_from into a used object)
            let how = rng.below(2);
            log.call("copy", json!({"how": how}), || {
                if how == 0 {
                    let c = s.clone();
                    s = c;
                } else {
                    let mut other: SmallInts<S, B> = SmallInts::new();
                    other.push(num_traits::cast::<i64, B>(bmax).unwrap());
                    other.push(num_traits::cast::<i64, B>(1).unwrap());
                    other.clone_from(&s);
                    s = other;
                }
                json!({})
            });
            log.oblige("smallints_copied_mid_history");
            obs(log, &s);
        }
    }
}

/// Wide type pairs: values do not fit the checker's integers, so they are logged as canonical decimal
/// strings (the specification only compares values for equality and with the small type's maximum).
fn wide_history<S, B>(log: &mut Log, rng: &mut Rng, ty: &str)
where
    S: num_integer::Integer + Bounded + NumCast + Copy + std::fmt::Display + std::str::FromStr,
    B: num_integer::Integer + Bounded + NumCast + Copy + std::fmt::Display + std::str::FromStr,
{
    let smax = S::max_value().to_string();
    let smin = S::min_value().to_string();
    if !log.begin("siw", json!({"ty": ty, "wide": 1, "smin": smin, "smax": smax})) {
        return;
    }
    // candidate values around every width boundary, as (negative, magnitude)
    let mut cands: Vec<String> = vec![];
    let p2 = |e: u32| -> u128 { 1u128 << e };
    for e in [7u32, 8, 15, 16, 24, 31, 32, 53, 63, 64, 127] {
        for d in [-2i128, -1, 0, 1, 2, 12345] {
            let m = p2(e);
            let v = if d < 0 { m - (-d) as u128 } else { m.saturating_add(d as u128) };
            cands.push(v.to_string());
            cands.push(format!("-{}", v));
        }
    }
    for v in [0u128, 1, 2, 3, 200, u128::MAX, u128::MAX - 1, (1u128 << 63) + (1u128 << 62), 0xF000_0000_0000_0001] {
        cands.push(v.to_string());
    }
    cands.push("-1".to_string());
    cands.push("-3".to_string());
    // keep what the big type can hold, in canonical form
    let cands: Vec<(B, String)> = cands
        .iter()
        .filter_map(|c| c.parse::<B>().ok().map(|b| (b, b.to_string())))
        .collect();
    let upper_half: Vec<usize> = {
        // values stored inline whose top bit (of an unsigned small type) is set
        let half = (S::max_value() / (S::one() + S::one())).to_string();
        cands
            .iter()
            .enumerate()
            .filter(|(_, (b, _))| {
                num_traits::cast::<B, S>(*b).map(|sv| sv > half.parse::<S>().ok().unwrap() && sv < S::max_value()).unwrap_or(false)
            })
            .map(|(i, _)| i)
            .collect()
    };
    let mut s: Option<SmallInts<S, B>> = None;
    let mut len;
    if rng.chance(1, 3) {
        let small: Vec<(S, String)> = cands
            .iter()
            .filter_map(|(b, _)| num_traits::cast::<B, S>(*b).map(|sv| (sv, sv.to_string())))
            .collect();
        let (v, vs) = small[rng.below(small.len() as u64) as usize].clone();
        let n = rng.below(6) as usize;
        let r = log.call("from_elem", json!({"v": vs, "n": n}), || {
            s = Some(SmallInts::from_elem(v, n));
            json!({})
        });
        if r["st"] != "ok" {
            return;
        }
        len = n;
    } else {
        log.call("new", json!({}), || {
            s = Some(SmallInts::new());
            json!({})
        });
        len = 0;
    }
    let mut s = match s {
        Some(s) => s,
        None => return,
    };
    let wobs = |log: &mut Log, s: &SmallInts<S, B>| {
        log.call("obs", json!({}), || {
            let len = s.len();
            let mut nones = 0;
            let gets: Vec<String> = (0..len)
                .map(|i| match s.get(i) {
                    Some(v) => v.to_string(),
                    None => {
                        nones += 1;
                        "none".to_string()
                    }
                })
                .collect();
            let beyond_none = if s.get(len).is_none() { 1 } else { 0 };
            let it: Vec<String> = s.iter().map(|v| v.to_string()).collect();
            let dec: Vec<String> = s.decompress().into_iter().map(|v| v.to_string()).collect();
            let nth_nones = (len..len + 9).filter(|&n| s.iter().nth(n).is_none()).count();
            let step3: Vec<String> = s.iter().step_by(3).map(|v| v.to_string()).collect();
            json!({"len": len, "gets": gets, "nones": nones, "beyond_none": beyond_none, "iter": it, "dec": dec,
                   "nth_nones": nth_nones, "step3": step3, "is_empty": s.is_empty() as u8})
        });
    };
    wobs(log, &s);
    let nops = rng.range(2, 12);
    for k in 0..nops {
        let ci = if k % 3 == 0 && !upper_half.is_empty() {
            log.oblige("small_value_with_top_bit_set");
            upper_half[rng.below(upper_half.len() as u64) as usize]
        } else {
            rng.below(cands.len() as u64) as usize
        };
        let (v, vs) = cands[ci].clone();
        let r = if len == 0 || rng.chance(3, 5) {
            len += 1;
            log.call("push", json!({"v": vs}), || {
                s.push(v);
                json!({})
            })
        } else {
            let i = rng.below(len as u64) as usize;
            log.call("set", json!({"i": i, "v": vs}), || {
                s.set(i, v);
                json!({})
            })
        };
        if r["st"] != "ok" {
            return;
        }
        wobs(log, &s);
    }
    log.oblige("wide_type_pairs");
}

pub fn drive(log: &mut Log) {
    let seed = log.opts.seed;
    let n = log.opts.n(800, 8000);
    for case in 1..=n {
        if !log.mine(case) {
            continue;
        }
        let mut rng = Rng::new(seed, 19, case);
        if case % 3 == 0 {
            match (case / 3) % 7 {
                0 => wide_history::<u64, u128>(log, &mut rng, "u64_u128"),
                1 => wide_history::<usize, u128>(log, &mut rng, "usize_u128"),
                2 => wide_history::<u32, u64>(log, &mut rng, "u32_u64"),
                3 => wide_history::<i32, i64>(log, &mut rng, "i32_i64"),
                4 => wide_history::<i64, i128>(log, &mut rng, "i64_i128"),
                5 => wide_history::<u16, u32>(log, &mut rng, "u16_u32"),
                _ => wide_history::<u8, u64>(log, &mut rng, "u8_u64"),
            }
            continue;
        }
        if case % 7 == 6 {
            // mixed signedness (accepted by the size assertion): signed small type, unsigned big type and
            // the other way round
            match (case / 7) % 4 {
                0 => history::<i8, u16>(log, &mut rng, "i8_u16", 0, 65535),
                1 => history::<i16, u32>(log, &mut rng, "i16_u32", 0, 2_000_000_000),
                2 => history::<i8, usize>(log, &mut rng, "i8_usize", 0, 2_000_000_000),
                _ => history::<u8, isize>(log, &mut rng, "u8_isize", -2_000_000_000, 2_000_000_000),
            }
            log.oblige("mixed_signedness_type_pairs");
            continue;
        }
        match case % 5 {
            0 => history::<i8, isize>(log, &mut rng, "i8_isize", -2_000_000_000, 2_000_000_000),
            1 => history::<u8, usize>(log, &mut rng, "u8_usize", 0, 2_000_000_000),
            2 => history::<i8, i32>(log, &mut rng, "i8_i32", -2_000_000_000, 2_000_000_000),
            3 => history::<u8, u16>(log, &mut rng, "u8_u16", 0, 65535),
            _ => history::<i16, i64>(log, &mut rng, "i16_i64", -2_000_000_000, 2_000_000_000),
        }
    }
}

fn main() {
    bio_verif_harness::run(drive)
}
