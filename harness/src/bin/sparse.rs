//! C19 — k-mer matches and chaining (alignment::sparse).
//! One run = one sequence pair (x, y, k); events: `kmer_matches`, `kmer_matches_h1/_h2` (prehashed
//! variants), `lcskpp(m)`, `sdpkpp(m, ms, go, ge)`, `union(m, ms, go, ge)`, `expand(m, mm)`.
//! `m` is either the match list the code itself returned, a sub-list of it, the expanded list, or
//! (x = y = []) an arbitrary strictly sorted list of pairs.
use bio::alignment::sparse;
use bio_verif_harness::{bytes, Log, Rng};
use serde_json::{json, Value};

type M = Vec<(u32, u32)>;

fn pairs(m: &[(u32, u32)]) -> Value {
    Value::Array(m.iter().map(|&(a, b)| json!([a, b])).collect())
}

const MAX_CHAIN_M: usize = 150;

/// chain events over one match list
fn chains(log: &mut Log, rng: &mut Rng, m: &M, k: usize) {
    if m.len() > MAX_CHAIN_M {
        return;
    }
    if m.is_empty() {
        log.oblige("empty_match_list");
    }
    let mut path: Vec<usize> = vec![];
    log.call("lcskpp", json!({"m": pairs(m)}), || {
        let r = sparse::lcskpp(m, k);
        path = r.path.clone();
        let dp: Vec<Value> = r.dp_vector.iter().map(|&(sc, prev)| json!([sc, prev])).collect();
        json!({"path": r.path, "score": r.score, "dp": dp})
    });
    if k == 1 && path.len() > 1 {
        log.oblige("k_equals_1_chain");
    }
    if m.len() >= 4
        && m.windows(2).any(|w| w[0].0 == w[1].0)
        && m.iter().any(|a| m.iter().any(|b| a.1 == b.1 && a.0 != b.0))
    {
        log.oblige("matches_sharing_x_and_sharing_y");
    }
    // the documented precondition: an unsorted list (two neighbours swapped) is refused
    if m.len() >= 2 && m.len() % 3 == 0 {
        let mut u = m.clone();
        let i = m.len() / 2;
        u.swap(i - 1, i);
        log.call("lcskpp_unsorted", json!({"m": pairs(&u)}), || {
            let r = sparse::lcskpp(&u, k);
            json!({"path": r.path, "score": r.score})
        });
        log.call("sdpkpp_unsorted", json!({"m": pairs(&u)}), || {
            let r = sparse::sdpkpp(&u, k, 1, -1, -1);
            json!({"path": r.path, "score": r.score})
        });
        log.oblige("unsorted_match_list_offered");
    }
    // coverage of the two kinds of chain steps (looks at the returned path only to count)
    for w in path.windows(2) {
        if w[0] < m.len() && w[1] < m.len() {
            let (a, b) = (m[w[0]], m[w[1]]);
            if b.0 == a.0 + 1 && b.1 == a.1 + 1 && k > 1 {
                log.oblige("chain_step_continuation");
            } else {
                log.oblige("chain_step_jump");
            }
        }
    }
    if path.len() > 1 {
        log.oblige("nontrivial");
    }
    let ms = *rng.pick(&[1u32, 1, 2, 5]);
    let go = *rng.pick(&[0i32, -1, -5]);
    let ge = *rng.pick(&[0i32, -1, -2]);
    gapped(log, m, k, ms, go, ge);
}

/// sdpkpp and the union path for one parameter set
fn gapped(log: &mut Log, m: &M, k: usize, ms: u32, go: i32, ge: i32) {
    log.call("sdpkpp", json!({"m": pairs(m), "ms": ms, "go": go, "ge": ge}), || {
        let r = sparse::sdpkpp(m, k, ms, go, ge);
        json!({"path": r.path, "score": r.score})
    });
    log.call("union", json!({"m": pairs(m), "ms": ms, "go": go, "ge": ge}), || {
        let p = sparse::sdpkpp_union_lcskpp_path(m, k, ms, go, ge);
        json!({ "path": p })
    });
}

fn pair_run(log: &mut Log, rng: &mut Rng, tag: &str, x: &[u8], y: &[u8], k: usize) {
    if !log.begin(tag, json!({"x": bytes(x), "y": bytes(y), "k": k})) {
        return;
    }
    if x.len() < y.len() {
        log.oblige("hash_side_seq1");
    } else {
        log.oblige("hash_side_seq2");
    }
    if k > x.len() || k > y.len() {
        log.oblige("k_longer_than_a_sequence");
    }
    let mut m: M = vec![];
    log.call("kmer_matches", json!({}), || {
        m = sparse::find_kmer_matches(x, y, k);
        json!({"v": pairs(&m)})
    });
    log.call("kmer_matches_h1", json!({}), || {
        let set = sparse::hash_kmers(x, k);
        json!({"v": pairs(&sparse::find_kmer_matches_seq1_hashed(&set, y, k))})
    });
    log.call("kmer_matches_h2", json!({}), || {
        let set = sparse::hash_kmers(y, k);
        json!({"v": pairs(&sparse::find_kmer_matches_seq2_hashed(x, &set, k))})
    });
    chains(log, rng, &m, k);
    // a thinned-out sub-list (still sorted): gaps on the diagonals for expand to fill
    let sub: M = m.iter().filter(|_| rng.chance(1, 3)).cloned().collect();
    for (which, input) in [(0, &m), (1, &sub)] {
        if input.len() > MAX_CHAIN_M {
            continue;
        }
        let mm = *rng.pick(&[0usize, 1, 2]);
        let mut out: M = vec![];
        log.call("expand", json!({"m": pairs(input), "mm": mm}), || {
            out = sparse::expand_kmer_matches(x, y, k, input, mm);
            json!({"v": pairs(&out)})
        });
        if out.len() > input.len() {
            log.oblige("expand_grew");
        }
        if which == 1 || mm > 0 {
            chains(log, rng, &out, k);
            log.oblige("chains_on_expanded");
        }
    }
}

fn all_strings(alpha: &[u8], maxlen: usize) -> Vec<Vec<u8>> {
    let mut out = vec![vec![]];
    let mut cur: Vec<Vec<u8>> = vec![vec![]];
    for _ in 0..maxlen {
        let mut nxt = vec![];
        for s in &cur {
            for &c in alpha {
                let mut t = s.clone();
                t.push(c);
                nxt.push(t);
            }
        }
        out.extend(nxt.iter().cloned());
        cur = nxt;
    }
    out
}

/// y = x with substitutions / insertions / deletions: long shared diagonals with offsets
fn mutate(rng: &mut Rng, x: &[u8], alpha: &[u8], rate: u64) -> Vec<u8> {
    let mut y = vec![];
    for &c in x {
        let r = rng.below(100);
        if r < rate {
            y.push(*rng.pick(alpha));
        } else if r < rate + rate / 2 {
            // deletion
        } else if r < 2 * rate {
            y.push(c);
            y.push(*rng.pick(alpha));
        } else {
            y.push(c);
        }
    }
    y
}

fn random_sorted_pairs(rng: &mut Rng, variant: u64, k: usize) -> M {
    let range = rng.range(3, 30) as u32;
    let mut m: M = vec![];
    match variant % 5 {
        0 => {
            let n = rng.range(1, 40);
            for _ in 0..n {
                m.push((rng.below(range as u64) as u32, rng.below(range as u64) as u32));
            }
        }
        1 => {
            // a few diagonal runs
            for _ in 0..rng.range(1, 5) {
                let (mut a, mut b) = (rng.below(range as u64) as u32, rng.below(range as u64) as u32);
                for _ in 0..rng.range(1, 9) {
                    m.push((a, b));
                    a += 1;
                    b += 1;
                }
            }
        }
        2 => {
            // lattice with spacing around k: the ">= k later" boundary
            let step = (k as u32 + rng.below(2) as u32).max(1) - if k > 1 && rng.coin() { 1 } else { 0 };
            let step = step.max(1);
            for i in 0..6u32 {
                for j in 0..6u32 {
                    if rng.chance(2, 3) {
                        m.push((i * step, j * step + (i % 2)));
                    }
                }
            }
        }
        4 => {
            // a few full rows and columns: many matches with equal x, many with equal y
            let g = rng.range(4, 9) as u32;
            for _ in 0..rng.range(1, 3) {
                let x = rng.below(g as u64) as u32;
                for j in 0..g {
                    m.push((x, j));
                }
                let y = rng.below(g as u64) as u32;
                for i in 0..g {
                    m.push((i, y));
                }
            }
        }
        _ => {
            // dense small grid
            let g = rng.range(2, 6) as u32;
            for i in 0..g {
                for j in 0..g {
                    if rng.chance(3, 4) {
                        m.push((i, j));
                    }
                }
            }
        }
    }
    m.sort_unstable();
    m.dedup();
    m.truncate(40);
    m
}

/// chains A, A+(k,k), A+2(k,k), .. WITHOUT the diagonal steps in between (the end corner of one match is
/// the start corner of the next: end and start events at the same point), mixed with random matches;
/// 17..40 entries
fn exact_jump_chains(rng: &mut Rng, k: usize) -> M {
    let k = k as u32;
    let mut m: M = vec![];
    let nchains = rng.range(3, 7);
    for _ in 0..nchains {
        let (mut a, mut b) = (rng.below(12) as u32, rng.below(12) as u32);
        for _ in 0..rng.range(2, 5) {
            m.push((a, b));
            a += k;
            b += k;
        }
    }
    let range = 12 + 5 * k as u64;
    while m.len() < 17 || (m.len() < 40 && rng.chance(2, 3)) {
        m.push((rng.below(range) as u32, rng.below(range) as u32));
    }
    m.sort_unstable();
    m.dedup();
    m.truncate(40);
    m
}

pub fn drive(log: &mut Log) {
    let seed = log.opts.seed;
    let thorough = log.opts.thorough();
    let mut case: u64 = 0;

    // (a) every pair of strings over {a,b} up to length 3 (4 thorough), k in 1..3
    let strs = all_strings(b"ab", if thorough { 4 } else { 3 });
    for x in &strs {
        for y in &strs {
            for k in 1..=3usize {
                case += 1;
                if !log.mine(case) {
                    continue;
                }
                let mut rng = Rng::new(seed, 61, case);
                pair_run(log, &mut rng, "ex", x, y, k);
            }
        }
    }
    log.oblige("pairs_exhaustive_small");

    // (b) random / related pairs up to 60, k in 1..5, alphabets of size 2, 4, 20
    let nb = log.opts.n(160, 2000);
    for i in 0..nb {
        case += 1;
        if !log.mine(case) {
            continue;
        }
        let mut rng = Rng::new(seed, 62, case);
        let alpha: &[u8] = match i % 3 {
            0 => b"ab",
            1 => b"ACGT",
            _ => b"ARNDCEQGHILKMFPSTWYV",
        };
        let k = (i / 3 % 5 + 1) as usize;
        let n = rng.range(0, 60) as usize;
        let x = rng.seq(n, alpha);
        let y = match i % 4 {
            0 => {
                let l = rng.range(0, 60) as usize;
                rng.seq(l, alpha)
            }
            1 => mutate(&mut rng, &x, alpha, 6),
            2 => {
                // a shifted copy inside junk
                let l = rng.range(0, 10) as usize;
                let mut y = rng.seq(l, alpha);
                y.extend_from_slice(&x[n / 3..]);
                let l = rng.range(0, 5) as usize;
                y.extend(rng.seq(l, alpha));
                y
            }
            _ => mutate(&mut rng, &x, alpha, 20),
        };
        let mut y = y;
        y.truncate(60);
        pair_run(log, &mut rng, "rd", &x, &y, k);
    }

    // (d) the domain of the model-checked sweep machine on the real code: every strictly sorted list of
    //     up to 3 (4 thorough) points of the 4x4 grid, k in {1,2}; 60 lists per run
    {
        let pts: Vec<(u32, u32)> = (0..4u32).flat_map(|a| (0..4u32).map(move |b| (a, b))).collect();
        let maxm = if thorough { 4 } else { 3 };
        let mut lists: Vec<M> = vec![vec![]];
        let mut frontier: Vec<(M, usize)> = vec![(vec![], 0)];
        for _ in 0..maxm {
            let mut nxt = vec![];
            for (l, from) in &frontier {
                for j in *from..pts.len() {
                    let mut l2 = l.clone();
                    l2.push(pts[j]);
                    lists.push(l2.clone());
                    nxt.push((l2, j + 1));
                }
            }
            frontier = nxt;
        }
        for k in 1..=2usize {
            for chunk in lists.chunks(60) {
                case += 1;
                if !log.mine(case) {
                    continue;
                }
                let mut rng = Rng::new(seed, 64, case);
                let empty: Vec<u8> = vec![];
                if !log.begin("gr", json!({"x": bytes(&empty), "y": bytes(&empty), "k": k})) {
                    continue;
                }
                for m in chunk {
                    chains(log, &mut rng, m, k);
                }
                log.oblige("grid_exhaustive_small");
            }
        }
    }

    // (e) two matches on one diagonal at every distance 1..2k (not closed under the steps between them),
    //     alone and among a few random matches, k in 1..6, all gap parameter sets: distance 1 is a
    //     continuation, distances 2..k-1 are NOT a legal chain step, distances >= k are jumps
    for k in 1..=6usize {
        case += 1;
        if !log.mine(case) {
            continue;
        }
        let mut rng = Rng::new(seed, 65, case);
        let empty: Vec<u8> = vec![];
        if !log.begin("dg", json!({"x": bytes(&empty), "y": bytes(&empty), "k": k})) {
            continue;
        }
        for d in 1..=(2 * k as u32) {
            let (a, b) = (rng.below(4) as u32, rng.below(4) as u32);
            let pair: M = vec![(a, b), (a + d, b + d)];
            let mut three: M = vec![(a, b), (a + d, b + d), (a + 2 * d, b + 2 * d)];
            let mut mixed: M = pair.clone();
            for _ in 0..rng.range(1, 4) {
                mixed.push((rng.below(3 * k as u64 + 6) as u32, rng.below(3 * k as u64 + 6) as u32));
            }
            mixed.sort_unstable();
            mixed.dedup();
            three.dedup();
            for (ms, go, ge) in [(1u32, 0i32, 0i32), (1, -1, -1), (3, -5, -2)] {
                gapped(log, &pair, k, ms, go, ge);
                gapped(log, &mixed, k, ms, go, ge);
            }
            gapped(log, &three, k, 1, -1, -1);
            let mut path: Vec<usize> = vec![];
            log.call("lcskpp", json!({"m": pairs(&mixed)}), || {
                let r = sparse::lcskpp(&mixed, k);
                path = r.path.clone();
                json!({"path": r.path, "score": r.score})
            });
            if d >= 2 && (d as usize) < k {
                log.oblige("same_diagonal_pair_closer_than_k");
            }
        }
        log.oblige("same_diagonal_pairs_every_distance");
    }

    // (c) arbitrary strictly sorted pair lists (not k-mer matches of anything), M <= 40, k in 1..5
    let nc = log.opts.n(240, 3000);
    for i in 0..nc {
        case += 1;
        if !log.mine(case) {
            continue;
        }
        let mut rng = Rng::new(seed, 63, case);
        let k = (i % 5 + 1) as usize;
        let empty: Vec<u8> = vec![];
        if !log.begin("ar", json!({"x": bytes(&empty), "y": bytes(&empty), "k": k})) {
            continue;
        }
        for v in 0..3u64 {
            let m = random_sorted_pairs(&mut rng, i / 5 + v, k);
            chains(log, &mut rng, &m, k);
        }
        for _ in 0..2 {
            let m = exact_jump_chains(&mut rng, k);
            if m.len() >= 17 && k >= 2 && m.iter().any(|&(x, y)| {
                m.binary_search(&(x + k as u32, y + k as u32)).is_ok() && m.binary_search(&(x + 1, y + 1)).is_err()
            }) {
                log.oblige("exact_k_jump_chains_in_long_list");
            }
            chains(log, &mut rng, &m, k);
        }
        log.oblige("arbitrary_match_list");
    }
}

fn main() {
    bio_verif_harness::run(drive)
}
