//! C09 — Ukkonen's cut-off matcher. One run = one `Ukkonen` object (capacity, cost
//! function) reused for patterns of different lengths; events `find_all_end(p,t,k)`.
//! The cost function handed to rust-bio reads the table recorded in the run header
//! (`cost` = [] means the library's `unit_cost`).
#[path = "../am_common.rs"]
#[macro_use]
mod am_common;
use am_common::*;
use bio::pattern_matching::ukkonen::{unit_cost, Ukkonen};
use bio_verif_harness::{bytes, Log, Rng};
use serde_json::{json, Value};

struct Q {
    p: Vec<u8>,
    t: Vec<u8>,
    k: usize,
}

fn one_query<F: Fn(u8, u8) -> u32>(log: &mut Log, u: &mut Ukkonen<F>, q: &Q, on: &str, n: u64) -> bool {
    let via = n;
    let r = log.call("find_all_end", json!({"p": bytes(&q.p), "t": bytes(&q.t), "k": q.k, "on": on, "via": VIA[(via % 4) as usize]}), || {
        let v: Vec<(usize, usize)> = u.find_all_end(&q.p, text_iter(&q.t, via), q.k).collect();
        json!({"v": Value::Array(v.iter().map(|&(e, d)| json!([num(e), num(d)])).collect())})
    });
    if n % 7 == 3 {
        // the result iterator consumed through an adaptor / asked for its size hint
        let how = HOWS[((n / 7) % 6) as usize];
        let cnt = 1 + ((n / 42) % 3) as usize;
        log.call("find_all_end_via", json!({"p": bytes(&q.p), "t": bytes(&q.t), "k": q.k, "how": how, "n": cnt, "on": on}), || {
            let mut it = u.find_all_end(&q.p, text_iter(&q.t, via + 1), q.k);
            let item = |(e, d): (usize, usize)| json!([num(e), num(d)]);
            match how {
                "count" => json!({"v": [it.count()]}),
                "last" => json!({"v": it.last().map(item).into_iter().collect::<Vec<Value>>()}),
                "nth" => json!({"v": it.nth(cnt).map(item).into_iter().collect::<Vec<Value>>()}),
                "skip" => json!({"v": it.skip(cnt).map(item).collect::<Vec<Value>>()}),
                "step_by" => json!({"v": it.step_by(cnt).map(item).collect::<Vec<Value>>()}),
                _ => {
                    for _ in 0..cnt {
                        it.next();
                    }
                    let (lo, hi) = it.size_hint();
                    json!({"v": [num(lo), hi.map(num).unwrap_or(-1)]})
                }
            }
        });
        log.oblige(&format!("iterator_consumed_via_{}", how));
    }
    match r.get("v").and_then(|v| v.as_array()) {
        Some(v) => !v.is_empty() && v.len() < q.t.len(),
        None => false,
    }
}

/// `values`: the Ukkonen object is formatted (Debug) and cloned after half of the queries; the
/// rest is answered in turn by the clone and by the original, then the first half is asked
/// again in reverse order (same answers in another order).
fn events<F: Fn(u8, u8) -> u32 + Clone>(log: &mut Log, mut u: Ukkonen<F>, qs: &[Q], values: bool) {
    let mut nontrivial = false;
    let mut n: u64 = 0;
    let half = qs.len() / 2;
    let mut copy: Option<Ukkonen<F>> = None;
    for (i, q) in qs.iter().enumerate() {
        if values && i == half {
            log.call("debug", json!({}), || {
                // Debug needs a cost function that is Debug itself: a function pointer
                let mut d = Ukkonen::with_capacity(4, unit_cost as fn(u8, u8) -> u32);
                let a = format!("{:?}", d).len();
                let b = format!("{:?}", d.find_all_end(&q.p, q.t.iter(), q.k)).len();
                json!({"len": a + b})
            });
            log.call("clone", json!({}), || {
                copy = Some(u.clone());
                json!({})
            });
            log.oblige("object_cloned_mid_history_both_continue");
        }
        n += 1;
        let use_copy = values && i >= half && i % 2 == 0;
        nontrivial |= match (use_copy, copy.as_mut()) {
            (true, Some(c)) => one_query(log, c, q, "clone", n),
            _ => one_query(log, &mut u, q, "original", n),
        };
    }
    if values {
        for q in qs[..half].iter().rev() {
            n += 1;
            one_query(log, &mut u, q, "original", n);
        }
        log.oblige("same_searches_two_orders");
    }
    if nontrivial {
        log.oblige("nontrivial");
    }
}

fn run_one(log: &mut Log, tag: &str, cap: usize, cost: &[Vec<u32>], qs: &[Q]) {
    let values = tag == "ct" || tag == "inf"; // these classes treat the object as a value
    // entries >= 2^30 ("forbidden": u32::MAX, u32::MAX - 1, 2^31, 2^31 - 1) are logged as -1 = infinite
    let cj = Value::Array(cost.iter().map(|r| Value::Array(r.iter().map(|&x| if x >= (1u32 << 30) { json!(-1) } else { json!(x) }).collect())).collect());
    if cost.iter().any(|r| r.iter().any(|&x| x >= (1u32 << 30))) {
        log.oblige("cost_entries_near_u32_max");
    }
    if !log.begin(tag, json!({"cap": cap, "cost": cj})) {
        return;
    }
    if cost.iter().enumerate().any(|(i, r)| r[i] != 0) {
        log.oblige("cost_nonzero_diagonal"); // "a symbol does not even match itself"
    }
    if cost.is_empty() {
        events(log, Ukkonen::with_capacity(cap, unit_cost), qs, values);
    } else {
        let table: Vec<Vec<u32>> = cost.to_vec();
        events(log, Ukkonen::with_capacity(cap, move |a: u8, b: u8| table[a as usize][b as usize]), qs, values);
    }
}

fn all_strings(alpha: &[u8], minlen: usize, maxlen: usize) -> Vec<Vec<u8>> {
    let mut out = vec![];
    let mut cur: Vec<Vec<u8>> = vec![vec![]];
    if minlen == 0 {
        out.push(vec![]);
    }
    for l in 1..=maxlen {
        let mut nxt = vec![];
        for s in &cur {
            for &c in alpha {
                let mut t = s.clone();
                t.push(c);
                nxt.push(t);
            }
        }
        if l >= minlen {
            out.extend(nxt.iter().cloned());
        }
        cur = nxt;
    }
    out
}

fn ks_for(m: usize) -> Vec<usize> {
    let mut ks = vec![0usize, 1, 2, m.saturating_sub(1), m, m + 3, 255];
    ks.sort();
    ks.dedup();
    ks
}

pub fn drive(log: &mut Log) {
    let seed = log.opts.seed;
    let mut case: u64 = 0;

    // (a) exhaustive over {0,1}: one object per text, all patterns (lengths go up and down)
    let (pl, tl) = if log.opts.thorough() { (4, 6) } else { (3, 5) };
    let pats = all_strings(&[0, 1], 1, pl);
    let texts = all_strings(&[0, 1], 0, tl);
    let tables: Vec<Vec<Vec<u32>>> = vec![
        vec![],
        vec![vec![0, 1], vec![1, 0]],
        vec![vec![0, 2], vec![3, 0]],
        vec![vec![1, 0], vec![0, 0]],
        vec![vec![0, 3], vec![1, 2]],
    ];
    for (ci, cost) in tables.iter().enumerate() {
        for t in &texts {
            case += 1;
            if !log.mine(case) {
                continue;
            }
            if ci >= 2 && t.len() + 1 < tl {
                continue; // the non-unit tables on the longer texts only
            }
            let mut rng = Rng::new(seed, 21, case);
            let mut qs = vec![];
            // long, short, long, ... so that the rolling columns shrink and grow
            let mut order: Vec<&Vec<u8>> = pats.iter().collect();
            for i in (1..order.len()).rev() {
                let j = rng.below(i as u64 + 1) as usize;
                order.swap(i, j);
            }
            for p in order {
                for k in 0..=(p.len() + 1) {
                    qs.push(Q { p: p.clone(), t: t.clone(), k });
                }
            }
            run_one(log, "ex", 2, cost, &qs);
            log.oblige("exhaustive_small");
            if ci >= 2 {
                log.oblige("nonunit_cost");
            }
        }
    }

    // (b) random cost tables over 3-4 symbols, patterns of mixed lengths on one object
    let n = log.opts.n(40, 300);
    for i in 0..n {
        case += 1;
        if !log.mine(case) {
            continue;
        }
        let mut rng = Rng::new(seed, 22, case);
        let sigma = 2 + rng.below(3) as usize;
        let alpha: Vec<u8> = (0..sigma as u8).collect();
        let cost: Vec<Vec<u32>> = if i % 3 == 0 {
            vec![]
        } else {
            (0..sigma)
                .map(|a| {
                    (0..sigma)
                        .map(|b| {
                            if i % 3 == 1 && a == b {
                                0
                            } else {
                                rng.below(4) as u32
                            }
                        })
                        .collect()
                })
                .collect()
        };
        let mut qs = vec![];
        let npat = 3 + rng.below(3);
        for _ in 0..npat {
            let lim = if rng.coin() { 6 } else { 24 };
            let m = 1 + rng.below(lim) as usize;
            let p = rng.seq(m, &alpha);
            let nt = (m + rng.below(50) as usize).min(80);
            let t = planted(&mut rng, &p, nt, &alpha, &alpha, 2);
            for k in ks_for(m) {
                if k <= m + 3 {
                    qs.push(Q { p: p.clone(), t: t.clone(), k });
                }
            }
            // text shorter than the pattern / empty text
            qs.push(Q { p: p.clone(), t: p[..m / 2].to_vec(), k: 1 + rng.below(m as u64) as usize });
            qs.push(Q { p: p.clone(), t: vec![], k: m });
        }
        if !cost.is_empty() {
            log.oblige("nonunit_cost");
        }
        log.oblige("reuse_mixed_lengths");
        log.oblige("k_ge_m");
        run_one(log, "ct", 1 + rng.below(8) as usize, &cost, &qs);
    }

    // (b2) "forbidden" edges: cost entries u32::MAX, u32::MAX - 1, 2^31, 2^31 - 1 off the diagonal
    //      (substitutions forbidden: only insertions / deletions) and on the diagonal of single
    //      symbols (a symbol that never matches itself), mixed with 0 / 1 / 2; every k up to m + 2
    let huge = [u32::MAX, u32::MAX - 1, 1u32 << 31, (1u32 << 31) - 1];
    let n = log.opts.n(24, 160);
    for i in 0..n {
        case += 1;
        if !log.mine(case) {
            continue;
        }
        let mut rng = Rng::new(seed, 24, case);
        let sigma = 2 + (i % 3) as usize;
        let alpha: Vec<u8> = (0..sigma as u8).collect();
        let h = huge[(i % 4) as usize];
        let cost: Vec<Vec<u32>> = (0..sigma)
            .map(|a| {
                (0..sigma)
                    .map(|b| match i % 3 {
                        0 => if a == b { 0 } else { h },                                  // substitutions forbidden
                        1 => if a == b { if a == 0 { h } else { 0 } } else { 1 },         // symbol 0 never matches itself
                        _ => if rng.below(3) == 0 { *rng.pick(&huge) } else { rng.below(3) as u32 },
                    })
                    .collect()
            })
            .collect();
        let mut qs = vec![];
        for _ in 0..3 {
            let m = 2 + rng.below(9) as usize;
            let p = rng.seq(m, &alpha);
            let nt = m + 6 + rng.below(20) as usize;
            let t = planted(&mut rng, &p, nt, &alpha, &alpha, 2);
            for k in 0..=(m + 2) {
                if k <= 3 || k + 3 >= m {
                    qs.push(Q { p: p.clone(), t: t.clone(), k });
                }
            }
        }
        run_one(log, "inf", 2, &cost, &qs);
    }

    // (c) unit cost over DNA / all bytes, longer patterns and texts, capacity below |p|
    let n = log.opts.n(24, 120);
    for i in 0..n {
        case += 1;
        if !log.mine(case) {
            continue;
        }
        let mut rng = Rng::new(seed, 23, case);
        let alpha: Vec<u8> = if i % 2 == 0 { b"ACGT".to_vec() } else { (0..=255u8).collect() };
        let m = *rng.pick(&[7usize, 20, 33, 64, 65, 100]);
        let m = if log.opts.thorough() || m < 100 { m } else { 64 };
        let p = pattern(&mut rng, m, &alpha, i);
        let nt = (m + 40 + rng.below(160) as usize).min(if log.opts.thorough() { 300 } else { 180 });
        let t = planted(&mut rng, &p, nt, &alpha, &alpha, m / 8 + 2);
        let mut qs = vec![];
        // a short pattern first, then the long one on the same (too small) object
        let p0 = rng.seq(3, &alpha);
        qs.push(Q { p: p0, t: t[..t.len().min(30)].to_vec(), k: 1 });
        let kset: Vec<usize> = if log.opts.thorough() { vec![0, 2, m / 8 + 1, m, 255] } else { vec![[0, 2][i as usize % 2], m / 8 + 1, [m, 255][i as usize % 2]] };
        for k in kset {
            qs.push(Q { p: p.clone(), t: t.clone(), k });
        }
        log.oblige("capacity_below_m");
        log.oblige("k_255");
        run_one(log, "un", 4, &[], &qs);
    }
}

fn main() {
    bio_verif_harness::run(drive)
}
