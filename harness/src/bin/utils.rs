//! X03 — small utilities: `utils::scan` / `utils::prescan`, `stats::combinatorics`,
//! `data_structures::interpolation_table::InterpolationTable`, `utils::trim_newline`, `utils::Interval`.
//!
//! No expected value is computed here.  Projections (the only arithmetic of the harness):
//!   combinatorics: f64 v -> round(v) as an integer -> its number of decimal digits and the integer
//!                  itself (<= 9 digits) or its leading 9 digits; scaled variant: scale = m / 2^s is
//!                  passed in, the result is multiplied by 2^s (exact) before the projection;
//!   interpolation: argument pos -> f64 pos / q (q = 10^digits * D); result y -> round(y * q^deg).
use bio::data_structures::interpolation_table::InterpolationTable;
use bio::stats::combinatorics::{combinations, combinations_with_repl, scaled_combinations};
use bio::utils::{prescan, scan, trim_newline, Interval};
use bio_verif_harness::{bytes, i64s, Log, Rng};
use serde_json::{json, Value};

fn apply(op: &str, a: i64, b: i64) -> i64 {
    match op {
        "add" => a + b,
        "max" => a.max(b),
        "min" => a.min(b),
        "sub" => a - b,
        "left" => a,
        "right" => b,
        _ => (3 * a + b).rem_euclid(11),
    }
}
const OPS: [&str; 7] = ["add", "max", "min", "sub", "left", "right", "affine"];

fn big_proj(v: f64) -> Value {
    if v.is_nan() || v.is_infinite() || v < 0.0 || v >= 1.8e19 {
        return json!({"digits": -1, "top": -1, "bad": 1});
    }
    let r = v.round() as u64;
    let s = r.to_string();
    let digits = s.len();
    let top: u64 = if digits <= 9 { r } else { s[..9].parse().unwrap() };
    json!({"digits": digits, "top": top, "bad": 0})
}

fn fold_run(log: &mut Log, tag: &str, items: &[(bool, &'static str, Vec<i64>, i64)]) {
    if !log.begin(tag, json!({"grp": "fold"})) {
        return;
    }
    for (pre, op, a, z) in items {
        if *pre {
            log.call("prescan", json!({"op": op, "a": i64s(a), "z": z}), || {
                let mut v = a.clone();
                prescan(&mut v[..], *z, |x, y| apply(op, x, y));
                json!({"out": i64s(&v)})
            });
        } else {
            log.call("scan", json!({"op": op, "a": i64s(a)}), || {
                let mut v = a.clone();
                scan(&mut v[..], |x, y| apply(op, x, y));
                json!({"out": i64s(&v)})
            });
        }
    }
}

fn comb_run(log: &mut Log, tag: &str, items: &[(u8, u64, u64, u32, u32)]) {
    // (kind 0 combinations / 1 scaled / 2 with replacement, n, k, m, s)
    if !log.begin(tag, json!({"grp": "comb"})) {
        return;
    }
    for &(kind, n, k, m, s) in items {
        match kind {
            0 => {
                log.call("combinations", json!({"n": n, "k": k, "m": 1, "s": 0}), || big_proj(combinations(n, k)));
            }
            1 => {
                log.call("scaled_combinations", json!({"n": n, "k": k, "m": m, "s": s}), || {
                    let scale = m as f64 / 2f64.powi(s as i32);
                    big_proj(scaled_combinations(n, k, scale) * 2f64.powi(s as i32))
                });
            }
            _ => {
                log.call("combinations_with_repl", json!({"n": n, "k": k, "m": 1, "s": 0}), || {
                    big_proj(combinations_with_repl(n, k))
                });
            }
        }
    }
}

fn table_run(log: &mut Log, tag: &str, f: &'static str, digits: i32, d: i64, mnp: i64, mxp: i64, args: &[i64]) {
    let sh = 10i64.pow(digits as u32);
    let q = sh * d;
    let deg = match f {
        "lin" => 1,
        "sq" => 2,
        _ => 3,
    };
    if !log.begin(tag, json!({"grp": "table", "f": f, "digits": digits, "sh": sh, "d": d, "q": q, "mnp": mnp, "mxp": mxp})) {
        return;
    }
    let func = move |x: f64| -> f64 {
        match f {
            "lin" => 3.0 * x + 1.0,
            "sq" => x * x,
            _ => x * x * x,
        }
    };
    let mut tb = None;
    log.call("new", json!({}), || {
        tb = Some(InterpolationTable::new(mnp as f64 / q as f64, mxp as f64 / q as f64, digits, func));
        json!({"built": 1})
    });
    let tb = match tb {
        Some(t) => t,
        None => return,
    };
    let unit = (q as f64).powi(deg);
    for &pos in args {
        log.call("get", json!({"pos": pos}), || {
            let y = tb.get(pos as f64 / q as f64);
            if y.is_nan() || y.abs() * unit > 2.0e9 {
                json!({"v": 0, "bad": 1})
            } else {
                json!({"v": (y * unit).round() as i64, "bad": 0})
            }
        });
    }
}

pub fn drive(log: &mut Log) {
    let seed = log.opts.seed;
    let mut case: u64 = 0;

    // ---------------------------------------------------------------- scan / prescan
    // (0) spec -> impl: every sequence of length <= 3 over 0..2, every operator, neutral 0..1
    {
        let mut seqs: Vec<Vec<i64>> = vec![vec![]];
        for l in 1..=3usize {
            for code in 0..3usize.pow(l as u32) {
                let mut c = code;
                seqs.push((0..l).map(|_| { let v = (c % 3) as i64; c /= 3; v }).collect());
            }
        }
        for op in OPS.iter() {
            case += 1;
            if !log.mine(case) {
                continue;
            }
            let mut items = vec![];
            for a in &seqs {
                items.push((false, *op, a.clone(), 0));
                items.push((true, *op, a.clone(), 0));
                items.push((true, *op, a.clone(), 1));
            }
            log.oblige("fold_mc_family");
            log.oblige("fold_empty");
            fold_run(log, "fex", &items);
        }
    }
    // (a) random sequences, lengths 0..40
    for _ in 0..log.opts.n(300, 2000) {
        case += 1;
        if !log.mine(case) {
            continue;
        }
        let mut rng = Rng::new(seed, 301, case);
        let mut items = vec![];
        for _ in 0..8 {
            let op = *rng.pick(&OPS);
            let len = match rng.below(6) {
                0 => 0,
                1 => 1,
                2 => 2,
                _ => rng.range(3, 40) as usize,
            };
            let a: Vec<i64> = (0..len).map(|_| rng.range(-9, 9)).collect();
            let z = rng.range(-3, 3);
            if len == 0 {
                log.oblige("fold_empty");
            }
            if len == 1 {
                log.oblige("fold_single");
            }
            if op == "sub" || op == "affine" {
                log.oblige("fold_nonassociative");
            }
            items.push((rng.coin(), op, a, z));
        }
        fold_run(log, "fold", &items);
    }

    // ---------------------------------------------------------------- combinatorics
    // (b) all (n, k) with n <= 34 (values below 2^31: exact), k up to n + 2
    for n in 0..=34u64 {
        case += 1;
        if !log.mine(case) {
            continue;
        }
        let mut items = vec![];
        for k in 0..=(n + 2) {
            items.push((0u8, n, k, 1, 0));
        }
        log.oblige("comb_exact_range");
        log.oblige("comb_k_gt_n");
        comb_run(log, "cex", &items);
    }
    // (c) larger n (up to 62: values up to 4.7e17), scaled and with replacement
    for _ in 0..log.opts.n(60, 500) {
        case += 1;
        if !log.mine(case) {
            continue;
        }
        let mut rng = Rng::new(seed, 302, case);
        let mut items = vec![];
        for _ in 0..8 {
            let n = rng.range(0, 62) as u64;
            let k = match rng.below(5) {
                0 => 0,
                1 => n,
                2 => n / 2,
                3 => rng.range(0, n as i64 + 2) as u64,
                _ => rng.range(0, n as i64) as u64,
            };
            let kind = rng.below(3) as u8;
            let m = *rng.pick(&[1u32, 3, 5, 7]);
            let s = rng.range(0, 20) as u32;
            if kind == 2 {
                // C(n + k - 1, k) must stay below 60 rows
                let n2 = n % 30;
                let k2 = k % 30;
                if n2 == 0 && k2 == 0 {
                    log.oblige("comb_repl_zero_zero");
                }
                if n2 == 0 {
                    log.oblige("comb_repl_n_zero");
                }
                items.push((2, n2, k2, 1, 0));
            } else {
                if n >= 35 && k >= 10 && k + 10 <= n {
                    log.oblige("comb_big");
                }
                if kind == 1 {
                    log.oblige("comb_scaled");
                }
                items.push((kind, n, k, m, s));
            }
        }
        comb_run(log, "comb", &items);
    }
    // the corner (0, 0) with replacement, every shard-independent run
    {
        case += 1;
        if log.mine(case) {
            log.oblige("comb_repl_zero_zero");
            log.oblige("comb_repl_n_zero");
            comb_run(log, "crep", &[(2, 0, 0, 1, 0), (2, 0, 1, 1, 0), (2, 0, 5, 1, 0), (2, 1, 0, 1, 0), (2, 5, 0, 1, 0), (2, 1, 1, 1, 0)]);
        }
    }

    // ---------------------------------------------------------------- interpolation table
    // (d) ranges starting at 0 and above 0, aligned and not aligned with the grid; arguments at grid
    // points, between them, in the first and the last cell, at and beyond both ends
    for _ in 0..log.opts.n(300, 2000) {
        case += 1;
        if !log.mine(case) {
            continue;
        }
        let mut rng = Rng::new(seed, 303, case);
        let f = *rng.pick(&["lin", "sq", "cube"]);
        let (digits, d) = if f == "cube" { (1, 4i64) } else { *rng.pick(&[(1, 4i64), (1, 8), (2, 4), (2, 8), (0, 8)]) };
        let sh = 10i64.pow(digits as u32);
        // range in grid cells: keep x <= 10 (cube), 20 (sq)
        let maxcells = if f == "cube" { 10 * sh } else if digits == 2 { 6 * sh } else { 20 * sh };
        let lo_cells = if rng.chance(1, 3) { 0 } else { rng.range(0, (maxcells / 2) as i64) };
        let ncells = rng.range(1, std::cmp::min(40, maxcells - lo_cells) as i64);
        let mut mnp = lo_cells * d;
        let mut mxp = (lo_cells + ncells) * d;
        if lo_cells > 0 {
            log.oblige("table_min_above_zero");
        } else {
            log.oblige("table_min_zero");
        }
        if rng.chance(1, 3) {
            mnp += rng.range(1, d - 1);
            log.oblige("table_unaligned_min");
        }
        if rng.chance(1, 3) {
            let cut = rng.range(1, d - 1);
            if mxp - cut > mnp {
                mxp -= cut;
                log.oblige("table_unaligned_max");
            }
        }
        let mut args: Vec<i64> = vec![mnp, mxp - 1, mxp, mxp + 1, mxp + d];
        if mnp > 0 {
            args.push(mnp - 1);
            args.push(0);
            log.oblige("table_below_min");
        }
        // the last grid cell of the range
        let last_cell_start = ((mxp - 1) / d) * d;
        for r in 0..d {
            let p = last_cell_start + r;
            if p >= mnp && p < mxp {
                args.push(p);
            }
        }
        log.oblige("table_last_cell");
        for _ in 0..10 {
            args.push(rng.range(mnp, mxp - 1));
        }
        // a few grid points
        for _ in 0..3 {
            let (glo, ghi) = ((mnp + d - 1) / d, (mxp - 1) / d);
            if glo > ghi {
                break;
            }
            let g = rng.range(glo, ghi);
            if g * d >= mnp && g * d < mxp {
                args.push(g * d);
                log.oblige("table_grid_point");
            }
        }
        log.oblige("table_between_grid_points");
        table_run(log, "tab", f, digits, d, mnp, mxp, &args);
    }

    // ---------------------------------------------------------------- trim_newline / Interval
    for _ in 0..log.opts.n(40, 300) {
        case += 1;
        if !log.mine(case) {
            continue;
        }
        let mut rng = Rng::new(seed, 304, case);
        if !log.begin("misc", json!({"grp": "misc"})) {
            continue;
        }
        for _ in 0..6 {
            let len = rng.range(0, 6) as usize;
            let mut s: Vec<u8> = rng.seq(len, b"ACGT\n\r x");
            match rng.below(4) {
                0 => s.push(b'\n'),
                1 => {
                    s.push(b'\n');
                    s.push(b'\n');
                }
                2 => {
                    s.push(b'\r');
                    s.push(b'\n');
                }
                _ => {}
            }
            log.call("trim_newline", json!({"s": bytes(&s)}), || {
                let mut st = String::from_utf8(s.clone()).unwrap();
                trim_newline(&mut st);
                json!({"out": bytes(st.as_bytes())})
            });
        }
        log.oblige("trim");
        for _ in 0..6 {
            let lo = rng.range(-5, 5);
            let hi = if rng.chance(1, 4) { lo } else { rng.range(-5, 5) };
            log.call("interval_new", json!({"lo": lo, "hi": hi}), || match Interval::new(lo..hi) {
                Ok(iv) => json!({"ok": 1, "lo": iv.start, "hi": iv.end}),
                Err(_) => json!({"ok": 0, "lo": 0, "hi": 0}),
            });
            log.call("interval_from", json!({"lo": lo, "hi": hi}), || {
                let iv: Interval<i64> = if rng.coin() { Interval::from(lo..hi) } else { Interval::from(&(lo..hi)) };
                json!({"ok": 1, "lo": iv.start, "hi": iv.end})
            });
            if hi < lo {
                log.oblige("interval_negative_width");
            }
            if hi == lo {
                log.oblige("interval_empty");
            }
        }
    }
}

fn main() {
    bio_verif_harness::run(drive)
}
