//! C17 — wavelet matrix. One run = one WaveletMatrix over a text; events:
//! `new`, then `rank` for each of the six symbols (answers for every p < n).
use bio::data_structures::wavelet_matrix::WaveletMatrix;
use bio_verif_harness::{bytes, Log, Rng};
use serde_json::json;

const SYMS: &[u8; 6] = b"ACGTN$";

fn run_one(log: &mut Log, tag: &str, text: &[u8], via: u32) {
    if !log.begin(tag, json!({"text": bytes(text), "via": via})) {
        return;
    }
    let n = text.len();
    if n % 32 == 0 || n % 32 == 1 || n % 32 == 31 {
        log.oblige("wm_len_at_superblock_boundary");
    }
    if n % 8 != 0 {
        log.oblige("wm_padded_levels");
    }
    if text.iter().all(|&c| c == text[0]) {
        log.oblige("wm_single_symbol_text");
    }
    let mut wm: Option<WaveletMatrix> = None;
    log.call("new", json!({}), || {
        wm = Some(WaveletMatrix::new(text));
        json!({})
    });
    let wm = match wm {
        Some(w) => w,
        None => return,
    };
    // queries go to the object, or are split between it and a copy made mid-history (clone, serde round
    // trip through JSON, clone_from into a used matrix of another text)
    let orig = wm;
    let mut copy: Option<WaveletMatrix> = None;
    match via {
        1 => {
            log.call("clone", json!({}), || {
                copy = Some(orig.clone());
                json!({})
            });
            log.oblige("wm_clone_queried");
        }
        2 => {
            log.call("serde", json!({}), || {
                let text = serde_json::to_string(&orig).expect("serialize");
                copy = Some(serde_json::from_str(&text).expect("deserialize"));
                json!({"len": text.len()})
            });
            log.oblige("wm_serde_roundtrip_queried");
        }
        3 => {
            log.call("clone_from", json!({}), || {
                let mut used = WaveletMatrix::new(b"ACGTN$$NTGCA");
                let _ = used.rank(b'G', 7);
                used.clone_from(&orig);
                copy = Some(used);
                json!({})
            });
            log.oblige("wm_clone_from_into_used_object");
        }
        _ => {}
    }
    if via != 0 && copy.is_none() {
        return;
    }
    let mask = (n * 5 + text[0] as usize) % 64;
    if via != 0 && mask != 0 && mask != 63 {
        log.oblige("wm_original_and_copy_both_continue");
    }
    for (ci, &c) in SYMS.iter().enumerate() {
        let wm: &WaveletMatrix = match &copy {
            Some(cp) if (mask >> ci) & 1 == 0 => cp,
            _ => &orig,
        };
        log.call("rank", json!({"c": c}), || {
            let v: Vec<u64> = (0..n as u64).map(|p| wm.rank(c, p)).collect();
            json!({ "v": v })
        });
    }
}

pub fn drive(log: &mut Log) {
    let seed = log.opts.seed;
    let mut case: u64 = 0;
    // (a) all texts over ACGTN$ with 1 <= n <= 4 (5 in the thorough tier)
    let maxn = if log.opts.thorough() { 5 } else { 4 };
    let mut cur: Vec<Vec<u8>> = vec![vec![]];
    for _ in 1..=maxn {
        let mut nxt = Vec::with_capacity(cur.len() * 6);
        for s in &cur {
            for &c in SYMS.iter() {
                let mut t = s.clone();
                t.push(c);
                nxt.push(t);
            }
        }
        for t in &nxt {
            case += 1;
            if !log.mine(case) {
                continue;
            }
            run_one(log, "ex", t, (case % 4) as u32);
        }
        cur = nxt;
    }
    log.oblige("wm_exhaustive_small");
    // (b) lengths around the 32-bit superblocks of the level vectors, random and skewed compositions
    let lens: [usize; 16] = [7, 8, 9, 31, 32, 33, 63, 64, 65, 95, 96, 97, 128, 129, 200, 300];
    let reps = log.opts.n(3, 24);
    for &n in lens.iter() {
        for rep in 0..reps {
            case += 1;
            if !log.mine(case) {
                continue;
            }
            let mut rng = Rng::new(seed, 23, case);
            let text: Vec<u8> = match rep % 4 {
                0 => rng.seq(n, SYMS),
                1 => {
                    // two symbols only: whole levels are constant
                    let a = *rng.pick(SYMS);
                    let b = *rng.pick(SYMS);
                    rng.seq(n, &[a, b])
                }
                2 => {
                    // long runs
                    let mut t = Vec::with_capacity(n);
                    while t.len() < n {
                        let c = *rng.pick(SYMS);
                        let l = rng.range(1, 40) as usize;
                        for _ in 0..l.min(n - t.len()) {
                            t.push(c);
                        }
                    }
                    t
                }
                _ => vec![*rng.pick(SYMS); n],
            };
            run_one(log, "rd", &text, (case % 4) as u32);
        }
    }
}

fn main() {
    bio_verif_harness::run(drive)
}
