pub mod exact;
