//! Conformance harness for the TLA+ specifications in /verif/spec.
//!
//! The harness contains NO oracle. It drives the real rust-bio code and records
//! what it answers; TLC decides (spec/*Trace.tla) whether each recorded event is
//! explained by the specification.
//!
//! Log format (one line per record, flushed before every call so a crash, abort
//! or hang of the code under test leaves a dangling call behind):
//!   R\t<run header json: {"fam":..,"id":..,"cfg":{..}}>
//!   C\t<call json: {"op":..,"a":{..}}>
//!   E\t<return json: {"st":"ok"|"panic", ...result fields...}>
//!   O\t<obligation name>            (driver-side coverage counter, no oracle)
//! tools/check.py assembles these into the ndjson of runs that TLC reads.

pub mod aln;

use serde_json::{json, Value};
use std::fs::File;
use std::io::{BufWriter, Write};
use std::panic::{catch_unwind, AssertUnwindSafe};
use std::sync::atomic::{AtomicU64, Ordering};
use std::sync::Arc;
use std::time::{SystemTime, UNIX_EPOCH};

/// xorshift64* — all random choices of the drivers come from here.
#[derive(Clone)]
pub struct Rng(u64);

impl Rng {
    pub fn new(seed: u64, shard: u64, case: u64) -> Rng {
        let mut z = seed
            .wrapping_mul(0x9E37_79B9_7F4A_7C15)
            .wrapping_add(shard.wrapping_mul(0xBF58_476D_1CE4_E5B9))
            .wrapping_add(case.wrapping_mul(0x94D0_49BB_1331_11EB))
            .wrapping_add(0x2545_F491_4F6C_DD1D);
        z = (z ^ (z >> 30)).wrapping_mul(0xBF58_476D_1CE4_E5B9);
        z = (z ^ (z >> 27)).wrapping_mul(0x94D0_49BB_1331_11EB);
        z ^= z >> 31;
        if z == 0 {
            z = 0x1234_5678_9ABC_DEF1;
        }
        Rng(z)
    }
    pub fn next(&mut self) -> u64 {
        let mut x = self.0;
        x ^= x >> 12;
        x ^= x << 25;
        x ^= x >> 27;
        self.0 = x;
        x.wrapping_mul(0x2545_F491_4F6C_DD1D)
    }
    /// uniform in 0..n (n > 0)
    pub fn below(&mut self, n: u64) -> u64 {
        self.next() % n
    }
    /// uniform in lo..=hi
    pub fn range(&mut self, lo: i64, hi: i64) -> i64 {
        lo + (self.next() % ((hi - lo + 1) as u64)) as i64
    }
    pub fn coin(&mut self) -> bool {
        self.next() & 1 == 1
    }
    pub fn chance(&mut self, num: u64, den: u64) -> bool {
        self.below(den) < num
    }
    pub fn pick<'a, T>(&mut self, xs: &'a [T]) -> &'a T {
        &xs[self.below(xs.len() as u64) as usize]
    }
    pub fn seq(&mut self, len: usize, alphabet: &[u8]) -> Vec<u8> {
        (0..len).map(|_| *self.pick(alphabet)).collect()
    }
}

/// Command line of one driver process.
#[derive(Clone, Debug)]
pub struct Opts {
    pub fam: String,
    pub tier: String,
    pub seed: u64,
    pub shard: u64,
    pub nshards: u64,
    pub out: String,
    pub skip: u64,
    pub replay: Option<String>,
    pub budget: u64,
    pub extra: Vec<String>,
}

impl Opts {
    pub fn thorough(&self) -> bool {
        self.tier == "thorough"
    }
    /// scale a case count by the tier / explicit budget
    pub fn n(&self, quick: u64, thorough: u64) -> u64 {
        let base = if self.thorough() { thorough } else { quick };
        if self.budget > 0 {
            base * self.budget / 100
        } else {
            base
        }
    }
}

static LAST_BEAT: AtomicU64 = AtomicU64::new(0);
static LAST_CPU: AtomicU64 = AtomicU64::new(0);

/// CPU time consumed by this process so far, in milliseconds (all threads; the watchdog thread sleeps)
fn cpu_ms() -> u64 {
    let mut ts = libc::timespec { tv_sec: 0, tv_nsec: 0 };
    unsafe {
        libc::clock_gettime(libc::CLOCK_PROCESS_CPUTIME_ID, &mut ts);
    }
    ts.tv_sec as u64 * 1000 + ts.tv_nsec as u64 / 1_000_000
}
static IN_CALL: AtomicU64 = AtomicU64::new(0);

fn now_ms() -> u64 {
    SystemTime::now()
        .duration_since(UNIX_EPOCH)
        .map(|d| d.as_millis() as u64)
        .unwrap_or(0)
}

/// Event log of one driver process.
pub struct Log {
    w: BufWriter<File>,
    pub opts: Opts,
    counter: u64,
    active: bool,
    pub events: u64,
}

pub fn bytes(v: &[u8]) -> Value {
    Value::Array(v.iter().map(|&b| json!(b)).collect())
}
pub fn usizes(v: &[usize]) -> Value {
    Value::Array(v.iter().map(|&b| json!(b)).collect())
}
pub fn i64s(v: &[i64]) -> Value {
    Value::Array(v.iter().map(|&b| json!(b)).collect())
}

impl Log {
    pub fn new(opts: Opts) -> Log {
        let f = File::create(&opts.out).expect("cannot create output file");
        Log {
            w: BufWriter::with_capacity(1 << 16, f),
            opts,
            counter: 0,
            active: false,
            events: 0,
        }
    }

    /// Does run number `case` belong to this shard (and is it not skipped)?
    /// Every driver enumerates all cases deterministically and asks this.
    pub fn mine(&mut self, case: u64) -> bool {
        case % self.opts.nshards == self.opts.shard
    }

    /// Start a run. Returns false if the run must be skipped (restart after a crash).
    pub fn begin(&mut self, idtag: &str, cfg: Value) -> bool {
        let n = self.counter;
        self.counter += 1;
        if n < self.opts.skip {
            self.active = false;
            return false;
        }
        self.active = true;
        let id = format!("{}-s{}-{}-{}", idtag, self.opts.shard, self.opts.seed, n);
        let hdr = json!({"fam": self.opts.fam, "id": id, "cfg": cfg});
        writeln!(self.w, "R\t{}", hdr).unwrap();
        true
    }

    /// Count a boundary obligation reached by the drivers (vacuity guard).
    pub fn oblige(&mut self, name: &str) {
        writeln!(self.w, "O\t{}", name).unwrap();
    }

    /// One public call of the code under test. `f` returns the observed result
    /// as a JSON object (fields are merged next to "st").
    pub fn call<F>(&mut self, op: &str, args: Value, f: F) -> Value
    where
        F: FnOnce() -> Value,
    {
        assert!(self.active);
        writeln!(self.w, "C\t{}", json!({"op": op, "a": args})).unwrap();
        self.w.flush().unwrap();
        LAST_BEAT.store(now_ms(), Ordering::SeqCst);
        LAST_CPU.store(cpu_ms(), Ordering::SeqCst);
        IN_CALL.store(1, Ordering::SeqCst);
        let res = catch_unwind(AssertUnwindSafe(f));
        IN_CALL.store(0, Ordering::SeqCst);
        self.events += 1;
        let out = match res {
            Ok(mut v) => {
                if let Value::Object(ref mut m) = v {
                    m.insert("st".into(), json!("ok"));
                } else {
                    v = json!({"st": "ok", "v": v});
                }
                v
            }
            Err(e) => {
                let msg = if let Some(s) = e.downcast_ref::<&str>() {
                    s.to_string()
                } else if let Some(s) = e.downcast_ref::<String>() {
                    s.clone()
                } else {
                    "panic".to_string()
                };
                json!({"st": "panic", "msg": msg})
            }
        };
        writeln!(self.w, "E\t{}", out).unwrap();
        out
    }

    pub fn finish(mut self) {
        self.w.flush().unwrap();
    }
}

/// Limits + watchdog: a hang or runaway allocation of the code under test must
/// cost seconds, and must leave the dangling call in the log (it is data).
pub fn install_guards(call_timeout_ms: u64, mem_bytes: u64) {
    unsafe {
        let lim = libc::rlimit {
            rlim_cur: mem_bytes as libc::rlim_t,
            rlim_max: mem_bytes as libc::rlim_t,
        };
        libc::setrlimit(libc::RLIMIT_AS, &lim);
    }
    std::panic::set_hook(Box::new(|_| {})); // panics are data; keep stderr quiet
    let _ = Arc::new(());
    std::thread::spawn(move || loop {
        std::thread::sleep(std::time::Duration::from_millis(200));
        if IN_CALL.load(Ordering::SeqCst) == 1 {
            // a runaway call is one that has CONSUMED more than the limit of processor time (a loaded
            // machine must not turn a slow call into a finding); a call that blocks without computing is
            // given thirty times the limit of wall-clock time
            let t0 = LAST_BEAT.load(Ordering::SeqCst);
            let c0 = LAST_CPU.load(Ordering::SeqCst);
            if cpu_ms().saturating_sub(c0) > call_timeout_ms
                || now_ms().saturating_sub(t0) > 30 * call_timeout_ms
            {
                // the pending C line is already flushed: leave it dangling
                unsafe { libc::_exit(3) };
            }
        }
    });
}

pub fn parse_opts() -> Opts {
    let args: Vec<String> = std::env::args().collect();
    let mut o = Opts {
        fam: String::new(),
        tier: "quick".into(),
        seed: 1,
        shard: 0,
        nshards: 1,
        out: String::new(),
        skip: 0,
        replay: None,
        budget: 0,
        extra: vec![],
    };
    let mut i = 1;
    o.fam = std::path::Path::new(&args[0])
        .file_name()
        .map(|s| s.to_string_lossy().to_string())
        .unwrap_or_default();
    while i < args.len() {
        let a = args[i].as_str();
        let mut val = || {
            i += 1;
            args[i].clone()
        };
        match a {
            "--tier" => o.tier = val(),
            "--seed" => o.seed = val().parse().unwrap(),
            "--shard" => {
                let v = val();
                let mut it = v.split('/');
                o.shard = it.next().unwrap().parse().unwrap();
                o.nshards = it.next().unwrap().parse().unwrap();
            }
            "--out" => o.out = val(),
            "--skip" => o.skip = val().parse().unwrap(),
            "--replay" => o.replay = Some(val()),
            "--budget" => o.budget = val().parse().unwrap(),
            other => o.extra.push(other.to_string()),
        }
        i += 1;
    }
    o
}

/// Read adaptor with a scripted schedule of short reads and an optional cut:
/// the "environment" of the buffered readers (C11, C12).
pub struct SchedReader {
    pub data: Vec<u8>,
    pub pos: usize,
    pub sched: Vec<usize>,
    pub si: usize,
    pub log: Vec<(u8, u64, u64)>, // (kind 0=read 1=seek, arg, result)
}

impl SchedReader {
    pub fn new(data: Vec<u8>, sched: Vec<usize>) -> SchedReader {
        SchedReader {
            data,
            pos: 0,
            sched,
            si: 0,
            log: vec![],
        }
    }
}

impl std::io::Read for SchedReader {
    fn read(&mut self, buf: &mut [u8]) -> std::io::Result<usize> {
        let want = if self.sched.is_empty() {
            usize::MAX
        } else {
            let k = self.sched[self.si % self.sched.len()];
            self.si += 1;
            k.max(1)
        };
        let avail = self.data.len().saturating_sub(self.pos);
        let k = want.min(buf.len()).min(avail);
        if k > 0 {
            buf[..k].copy_from_slice(&self.data[self.pos..self.pos + k]);
        }
        self.pos += k;
        self.log.push((0, buf.len() as u64, k as u64));
        Ok(k)
    }
}

impl std::io::Seek for SchedReader {
    fn seek(&mut self, p: std::io::SeekFrom) -> std::io::Result<u64> {
        let np = match p {
            std::io::SeekFrom::Start(o) => o as i64,
            std::io::SeekFrom::End(o) => self.data.len() as i64 + o,
            std::io::SeekFrom::Current(o) => self.pos as i64 + o,
        };
        if np < 0 {
            return Err(std::io::Error::new(
                std::io::ErrorKind::InvalidInput,
                "negative seek",
            ));
        }
        self.pos = np as usize;
        self.log.push((1, np as u64, np as u64));
        Ok(np as u64)
    }
}

/// `fn main() { bio_verif_harness::run(drive) }` — every family is its own binary
/// `src/bin/<family>.rs`, so a family that does not compile cannot break another check.
pub fn run(drive: fn(&mut Log)) {
    run_with_mem(drive, 4 << 30)
}

/// the same with another limit on the address space (families whose inputs are lazily committed
/// allocations larger than 4 GiB, of which only a few pages are ever touched)
pub fn run_with_mem(drive: fn(&mut Log), mem_bytes: u64) {
    let opts = parse_opts();
    if opts.out.is_empty() {
        eprintln!("usage: <family> --out FILE [--tier quick|thorough] [--seed N] [--shard i/n] [--skip N] [--replay FILE] [--budget PCT]");
        std::process::exit(2);
    }
    let timeout: u64 = std::env::var("VERIF_CALL_TIMEOUT_MS")
        .ok()
        .and_then(|s| s.parse().ok())
        .unwrap_or(10_000);
    install_guards(timeout, mem_bytes);
    let mut log = Log::new(opts);
    drive(&mut log);
    log.finish();
}
