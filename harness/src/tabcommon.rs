//! Shared by the `bed` and `gff` drivers (C13): token generators and the fault
//! injector (the "environment" that corrupts the written bytes). No oracle here:
//! nothing in this file knows what a reader should answer.
use bio_verif_harness::{bytes, Rng};
use serde_json::{json, Value};

/// bytes of plain fields: printable ASCII without the double quote (csv quoting is
/// outside the modelled wire format) and without a lower-case 'x' (no "0x" tokens)
pub const FIELD: &[u8] = b"abcXYZ0189 =;,#:_-.|'+/%";
/// replacement bytes of the modelled ("safe") faults
pub const SAFE_REP: &[u8] = b"abc0189 =;,#:.'+-\t\n";

pub fn tok(rng: &mut Rng, lo: usize, hi: usize, alpha: &[u8]) -> Vec<u8> {
    let n = rng.range(lo as i64, hi as i64) as usize;
    rng.seq(n, alpha)
}

/// first column: must not look like a comment line
pub fn first_tok(rng: &mut Rng) -> Vec<u8> {
    let mut t = tok(rng, 0, 6, FIELD);
    if !t.is_empty() && t[0] == b'#' {
        t[0] = b'c';
    }
    t
}

/// a token with double quotes: fully quoted, starting with a quote only, inner quote,
/// trailing quote, a lone quote, an empty quoted string (the csv layer must quote / unquote them)
pub fn qtok(rng: &mut Rng) -> Vec<u8> {
    let body = tok(rng, 1, 5, b"abcXYZ0189 ;,=_-");
    let mut t = vec![];
    match rng.below(7) {
        0 => {
            t.push(b'"');
            t.extend_from_slice(&body);
            t.push(b'"');
        }
        1 => {
            t.push(b'"');
            t.extend_from_slice(&body);
        }
        2 => {
            t.extend_from_slice(&body);
            t.push(b'"');
            t.extend_from_slice(b"c");
        }
        3 => {
            t.extend_from_slice(&body);
            t.push(b'"');
        }
        4 => t.push(b'"'),
        5 => t.extend_from_slice(b"\"\""),
        _ => {
            t.push(b'"');
            t.extend_from_slice(&body);
            t.extend_from_slice(b"\"\"");
            t.extend_from_slice(&body);
        }
    }
    t
}

pub fn coord(rng: &mut Rng) -> u64 {
    match rng.below(12) {
        0 => 0,
        1 => 1,
        2 => 9,
        3 => 10,
        4 => u32::MAX as u64,
        5 => u32::MAX as u64 + 1,
        6 => i64::MAX as u64,
        7 => i64::MAX as u64 + 1,
        8 => u64::MAX - 1,
        9 => u64::MAX,
        10 => rng.next(),
        _ => rng.below(100_000),
    }
}

pub fn dec(x: u64) -> Value {
    bytes(x.to_string().as_bytes())
}

pub fn s(b: &[u8]) -> String {
    String::from_utf8(b.to_vec()).unwrap()
}

/// One fault of the modelled kinds applied to the written bytes. `numcols` = 0-based
/// indices of the numeric columns, `phasecol` = index of the phase column (usize::MAX: none).
/// Returns (kind, corrupted bytes).
pub fn safe_fault(rng: &mut Rng, data: &[u8], numcols: &[usize], phasecol: usize) -> (&'static str, Vec<u8>) {
    let mut lines: Vec<Vec<u8>> = data.split(|&b| b == b'\n').map(|l| l.to_vec()).collect();
    let had_final_nl = data.last() == Some(&b'\n');
    if had_final_nl {
        lines.pop();
    }
    let nl = lines.len();
    let join = |ls: &Vec<Vec<u8>>, final_nl: bool| -> Vec<u8> {
        let mut out = vec![];
        for (i, l) in ls.iter().enumerate() {
            out.extend_from_slice(l);
            if i + 1 < ls.len() || final_nl {
                out.push(b'\n');
            }
        }
        out
    };
    let kinds = if phasecol == usize::MAX { 8 } else { 9 };
    let kind = if data.is_empty() || nl == 0 { 6 } else { rng.below(kinds) };
    match kind {
        0 => {
            let mut d = data.to_vec();
            let i = rng.below(d.len() as u64) as usize;
            d.remove(i);
            ("del_byte", d)
        }
        1 => {
            let mut d = data.to_vec();
            let i = rng.below(d.len() as u64) as usize;
            d[i] = *rng.pick(SAFE_REP);
            ("rep_byte", d)
        }
        2 => {
            let li = rng.below(nl as u64) as usize;
            let mut f: Vec<Vec<u8>> = lines[li].split(|&b| b == b'\t').map(|x| x.to_vec()).collect();
            let ci = rng.below(f.len() as u64) as usize;
            f.remove(ci);
            lines[li] = f.join(&b'\t');
            ("drop_col", join(&lines, had_final_nl))
        }
        3 => {
            let li = rng.below(nl as u64) as usize;
            let mut f: Vec<Vec<u8>> = lines[li].split(|&b| b == b'\t').map(|x| x.to_vec()).collect();
            let ci = *rng.pick(numcols);
            let bad: &[&[u8]] = &[b"12a", b"", b"-5", b"1.5", b"18446744073709551616", b" 7", b"7 ", b"+7", b"007",
                b"1e3", b"99999999999999999999999", b"18446744073709551615"];
            if ci < f.len() {
                f[ci] = rng.pick(bad).to_vec();
            }
            lines[li] = f.join(&b'\t');
            ("bad_coord", join(&lines, had_final_nl))
        }
        4 => {
            let cut = rng.below(data.len() as u64) as usize;
            ("truncate", data[..cut].to_vec())
        }
        5 => {
            let li = rng.below(nl as u64 + 1) as usize;
            lines.insert(li, if rng.coin() { b"#comment\tline".to_vec() } else { b"# 1\t2\t3\t4\t5\t6\t7\t8\t9".to_vec() });
            ("comment_line", join(&lines, had_final_nl))
        }
        6 => {
            let li = rng.below(nl as u64 + 1) as usize;
            lines.insert(li, vec![]);
            ("empty_line", join(&lines, had_final_nl))
        }
        7 => {
            let li = rng.below(nl as u64) as usize;
            lines[li].extend_from_slice(b"\textra");
            ("extra_col", join(&lines, had_final_nl))
        }
        _ => {
            let li = rng.below(nl as u64) as usize;
            let mut f: Vec<Vec<u8>> = lines[li].split(|&b| b == b'\t').map(|x| x.to_vec()).collect();
            let bad: &[&[u8]] = &[b"3", b"x", b"10", b"", b"-1", b"255", b"256", b"02", b"+1", b"..", b"4", b"9"];
            if phasecol < f.len() {
                f[phasecol] = rng.pick(bad).to_vec();
            }
            lines[li] = f.join(&b'\t');
            ("bad_phase", join(&lines, had_final_nl))
        }
    }
}

/// arbitrary bytes (quotes, CR, NUL, non-UTF-8): only totality is claimed for these
pub fn wild_fault(rng: &mut Rng, data: &[u8]) -> Vec<u8> {
    let mut d = data.to_vec();
    let n = rng.range(1, 3);
    for _ in 0..n {
        if d.is_empty() {
            d.push(rng.below(256) as u8);
            continue;
        }
        let i = rng.below(d.len() as u64) as usize;
        match rng.below(4) {
            0 => d[i] = rng.below(256) as u8,
            1 => d[i] = *rng.pick(&[b'"', b'\r', 0u8, 0xffu8, 0xc3u8]),
            2 => d.insert(i, *rng.pick(&[b'"', b'\r', b'\n', b'\t'])),
            _ => {
                d.remove(i);
            }
        }
    }
    d
}

/// comment lines with arbitrary content (the csv layer must not tokenise them)
pub fn comment_line(rng: &mut Rng) -> Vec<u8> {
    let fixed: &[&[u8]] = &[
        b"#", b"##gff-version 3", b"###", b"#columns:\t\"seqname\tsource", b"#\t", b"#\"", b"# a \"quoted\" word",
        b"#\t\"unterminated", b"#\t\t\t\t\t\t\t\t\t\t\t\t", b"# track name=\"x y\" description='z'", b"#\\\"", b"#a\tb\tc\t1\t2",
    ];
    match rng.below(14) {
        0 => {
            let mut l = b"# ".to_vec();
            l.extend(tok(rng, 3000, 9000, b"abc \t\"'=;,#"));
            l
        }
        1 => {
            let mut l = b"#".to_vec();
            l.extend(tok(rng, 0, 12, b"ab \t\"'\\#%;=,"));
            l
        }
        _ => rng.pick(fixed).to_vec(),
    }
}

/// insert 1..4 comment lines into `data` (whole lines, at the first / last / inner line boundaries)
pub fn with_comments(rng: &mut Rng, data: &[u8]) -> (Vec<u8>, Vec<&'static str>) {
    let mut lines: Vec<Vec<u8>> = data.split(|&b| b == b'\n').map(|l| l.to_vec()).collect();
    let had_final_nl = data.last() == Some(&b'\n');
    if had_final_nl {
        lines.pop();
    }
    let mut where_: Vec<&'static str> = vec![];
    for _ in 0..rng.range(1, 4) {
        let pos = match rng.below(3) {
            0 => 0,
            1 => lines.len(),
            _ => rng.below(lines.len() as u64 + 1) as usize,
        };
        where_.push(if pos == 0 { "comment_first_line" } else if pos == lines.len() { "comment_last_line" } else { "comment_between_lines" });
        lines.insert(pos, comment_line(rng));
    }
    let mut out = vec![];
    for l in lines.iter() {
        out.extend_from_slice(l);
        out.push(b'\n');
    }
    if !had_final_nl && rng.coin() {
        out.pop();
    }
    (out, where_)
}

/// every string of length 1..=3 over the "CSV-hostile" alphabet
pub fn hostile_strings() -> Vec<Vec<u8>> {
    let alpha: &[u8] = b"\"\\'#%;=, ";
    let mut out: Vec<Vec<u8>> = vec![];
    let mut cur: Vec<Vec<u8>> = vec![vec![]];
    for _ in 0..3 {
        let mut nxt = vec![];
        for c in &cur {
            for &b in alpha {
                let mut t = c.clone();
                t.push(b);
                nxt.push(t);
            }
        }
        out.extend(nxt.iter().cloned());
        cur = nxt;
    }
    out
}

pub fn mode_json(mode: &str, data: &[u8], fault: &str) -> Value {
    json!({"bytes": bytes(data), "mode": mode, "fault": fault})
}
