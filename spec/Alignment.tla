------------------------------ MODULE Alignment ------------------------------
(***************************************************************************)
(* C01 / C02 -- pairwise alignment with affine gaps and clipping            *)
(* (src/alignment/pairwise/mod.rs, banded.rs).                              *)
(*                                                                         *)
(* Scoring scheme sc = [S, go, ge, xp, xs, yp, ys]:                         *)
(*   S    substitution table S[a][b] over symbols 1..sigma (a from x)       *)
(*   go,ge gap open / extend (<= 0); a gap of length L costs go + L*ge      *)
(*   xp,xs,yp,ys  penalties for clipping a non-empty prefix / suffix of x / *)
(*        y; the value MIN_SCORE forbids that clip                          *)
(*                                                                         *)
(* Definition layer                                                         *)
(*   GotohBrute(a,b)       best global affine alignment, by enumeration     *)
(*   BestBrute(x,y,sc)     max over all sub-ranges of x and y of            *)
(*                         GotohBrute + penalties of the non-empty clipped  *)
(*                         ends  (the documented model, literally)          *)
(*   BestClip(x,y,sc)      the same value by an O(mn) multi-source          *)
(*                         three-state DP built eagerly (used on traces);   *)
(*                         AlignmentMC proves BestClip = BestBrute          *)
(*   ValidAlignment(..)    the operations and coordinates describe a real   *)
(*                         alignment whose recomputed score is the reported *)
(*                         one                                              *)
(* Operation encoding <<code, len>>: 0 Match 1 Subst 2 Del 3 Ins 4 Xclip    *)
(* 5 Yclip; Ins consumes x, Del consumes y (rust-bio's convention).         *)
(***************************************************************************)
EXTENDS Naturals, Integers, Sequences, FiniteSets

MIN_SCORE == -858993459
NEG == -100000000                     \* "impossible"; real scores stay far above NEG \div 2
Max2(a, b) == IF a >= b THEN a ELSE b
Min2(a, b) == IF a <= b THEN a ELSE b
Max3(a, b, c) == Max2(a, Max2(b, c))
Max4(a, b, c, d) == Max2(Max2(a, b), Max2(c, d))
Forbidden(p) == p = MIN_SCORE
\* penalty of clipping `len` symbols at an end with penalty p
Pen(p, len) == IF len = 0 THEN 0 ELSE IF Forbidden(p) THEN NEG ELSE p
Plus(a, b) == IF a <= NEG \div 2 \/ b <= NEG \div 2 THEN NEG ELSE a + b

\* ------------------------------------------------------------ brute force
\* best alignment of a[i..] with b[j..]; st = 0 after a match/subst (or at the start), 1 inside an
\* insertion run (x consumed), 2 inside a deletion run (y consumed)
RECURSIVE GB(_, _, _, _, _, _)
GB(a, b, sc, i, j, st) ==
    IF i > Len(a) /\ j > Len(b) THEN 0
    ELSE LET mm == IF i <= Len(a) /\ j <= Len(b)
                   THEN sc.S[a[i]][b[j]] + GB(a, b, sc, i + 1, j + 1, 0) ELSE NEG
             ii == IF i <= Len(a)
                   THEN (IF st = 1 THEN sc.ge ELSE sc.go + sc.ge) + GB(a, b, sc, i + 1, j, 1) ELSE NEG
             dd == IF j <= Len(b)
                   THEN (IF st = 2 THEN sc.ge ELSE sc.go + sc.ge) + GB(a, b, sc, i, j + 1, 2) ELSE NEG
         IN  Max3(mm, ii, dd)
GotohBrute(a, b, sc) == GB(a, b, sc, 1, 1, 0)

Sub(s, lo, hi) == SubSeq(s, lo + 1, hi)            \* s[lo..hi) with 0-based half-open bounds

ClipCost(sc, m, n, xs, xe, ys, ye) ==
    LET c1 == Pen(sc.xp, xs) c2 == Pen(sc.xs, m - xe) c3 == Pen(sc.yp, ys) c4 == Pen(sc.ys, n - ye)
    IN  Plus(Plus(c1, c2), Plus(c3, c4))

BestBrute(x, y, sc) ==
    LET m == Len(x)  n == Len(y)
        cand == {Plus(GotohBrute(Sub(x, r[1], r[2]), Sub(y, r[3], r[4]), sc),
                      ClipCost(sc, m, n, r[1], r[2], r[3], r[4])) :
                    r \in {q \in (0..m) \X (0..m) \X (0..n) \X (0..n) : q[1] <= q[2] /\ q[3] <= q[4]}}
    IN  CHOOSE v \in cand : \A w \in cand : w <= v

\* ------------------------------------------------- O(mn) clip-state DP (eager)
\* Columns over j = 0..n; a column is a sequence over i = 0..m (index i+1) of <<S, I, D>>.
\* S(i,j): best (start penalties + alignment of x[xs..i) with y[ys..j)) over all starts (xs,ys);
\* starting at (i,j) itself costs StartCost(i,j).
StartCost(sc, i, j) == Plus(Pen(sc.xp, i), Pen(sc.yp, j))
EndCost(sc, m, n, i, j) == Plus(Pen(sc.xs, m - i), Pen(sc.ys, n - j))

\* one cell <<S, I, D>> of column j at row i; prev: previous column (or << >> for j = 0);
\* cur: cells of rows 0..i-1 of this column
Cell(x, yj, sc, prev, cur, i, j) ==
    LET st  == StartCost(sc, i, j)
        iv  == IF i = 0 THEN NEG
               ELSE Max2(Plus(cur[i][2], sc.ge), Plus(cur[i][1], sc.go + sc.ge))     \* from (i-1, j)
        dv  == IF prev = << >> THEN NEG
               ELSE Max2(Plus(prev[i + 1][3], sc.ge), Plus(prev[i + 1][1], sc.go + sc.ge))   \* from (i, j-1)
        mv  == IF i = 0 \/ prev = << >> THEN NEG
               ELSE Plus(prev[i][1], sc.S[x[i]][yj])                                  \* from (i-1, j-1)
    IN  <<Max4(st, mv, iv, dv), iv, dv>>

RECURSIVE ColFill(_, _, _, _, _, _, _)
ColFill(x, yj, sc, prev, cur, i, j) ==
    IF i > Len(x) THEN cur
    ELSE ColFill(x, yj, sc, prev, Append(cur, Cell(x, yj, sc, prev, cur, i, j)), i + 1, j)

RECURSIVE ColBest(_, _, _, _, _, _)
ColBest(col, sc, m, n, j, i) ==
    IF i > m THEN NEG ELSE Max2(Plus(col[i + 1][1], EndCost(sc, m, n, i, j)), ColBest(col, sc, m, n, j, i + 1))

RECURSIVE ClipCols(_, _, _, _, _, _)
ClipCols(x, y, sc, prev, j, best) ==
    IF j > Len(y) THEN best
    ELSE LET col == ColFill(x, IF j = 0 THEN 0 ELSE y[j], sc, prev, << >>, 0, j)
         IN  ClipCols(x, y, sc, col, j + 1, Max2(best, ColBest(col, sc, Len(x), Len(y), j, 0)))

BestClip(x, y, sc) == ClipCols(x, y, sc, << >>, 0, NEG)

\* effective penalties of the four modes (what Aligner::global/semiglobal/local temporarily install)
Effective(sc, mode) ==
    CASE mode = "global"     -> [sc EXCEPT !.xp = MIN_SCORE, !.xs = MIN_SCORE, !.yp = MIN_SCORE, !.ys = MIN_SCORE]
      [] mode = "semiglobal" -> [sc EXCEPT !.xp = MIN_SCORE, !.xs = MIN_SCORE, !.yp = 0, !.ys = 0]
      [] mode = "local"      -> [sc EXCEPT !.xp = 0, !.xs = 0, !.yp = 0, !.ys = 0]
      [] OTHER               -> sc
ModeCode(mode) == CASE mode = "local" -> 0 [] mode = "semiglobal" -> 1 [] mode = "global" -> 2 [] OTHER -> 3

\* --------------------------------------------------------- path validity
\* al = [score, xstart, xend, ystart, yend, xlen, ylen, mode, ops]
ConsX(op) == IF op[1] \in {0, 1, 3} THEN 1 ELSE IF op[1] = 4 THEN op[2] ELSE 0
ConsY(op) == IF op[1] \in {0, 1, 2} THEN 1 ELSE IF op[1] = 5 THEN op[2] ELSE 0
WellFormedOps(ops) == \A k \in 1..Len(ops) :
    /\ Len(ops[k]) = 2 /\ ops[k][1] \in 0..5 /\ ops[k][2] >= 0
    /\ (ops[k][1] \in 0..3 => ops[k][2] = 1)

\* walk: px, py = symbols of x / y consumed so far. Checks per operation:
\*   aligned operations lie inside [xstart,xend) x [ystart,yend), Match/Subst agree with the symbols,
\*   a non-empty Xclip either is the prefix clip (px = 0, length xstart) or the suffix clip (ends at m,
\*   starts at xend); same for Yclip.
RECURSIVE WalkOK(_, _, _, _, _, _, _)
WalkOK(ops, k, x, y, al, px, py) ==
    IF k > Len(ops) THEN px = Len(x) /\ py = Len(y)
    ELSE LET op == ops[k] c == op[1] IN
         CASE c \in {0, 1} ->
                /\ px >= al.xstart /\ px < al.xend /\ py >= al.ystart /\ py < al.yend
                /\ (c = 0) = (x[px + 1] = y[py + 1])
                /\ WalkOK(ops, k + 1, x, y, al, px + 1, py + 1)
           [] c = 3 -> /\ px >= al.xstart /\ px < al.xend          \* judged on the x projection only: a y clip
                       /\ WalkOK(ops, k + 1, x, y, al, px + 1, py)   \* may stand anywhere between x-only operations
           [] c = 2 -> /\ py >= al.ystart /\ py < al.yend
                       /\ WalkOK(ops, k + 1, x, y, al, px, py + 1)
           [] c = 4 -> /\ (op[2] = 0 \/ (px = 0 /\ op[2] = al.xstart) \/ (px = al.xend /\ px + op[2] = Len(x)))
                       /\ WalkOK(ops, k + 1, x, y, al, px + op[2], py)
           [] OTHER -> /\ (op[2] = 0 \/ (py = 0 /\ op[2] = al.ystart) \/ (py = al.yend /\ py + op[2] = Len(y)))
                       /\ WalkOK(ops, k + 1, x, y, al, px, py + op[2])

\* operations with clips removed; with `keepclips` a clip between two equal gap operations is kept as a
\* separator (code 9) so that the run is split there (the upstream fuzz target's convention)
RECURSIVE Core(_, _, _)
Core(ops, k, keepclips) ==
    IF k > Len(ops) THEN << >>
    ELSE IF ops[k][1] \in {4, 5}
         THEN (IF keepclips THEN << 9 >> ELSE << >>) \o Core(ops, k + 1, keepclips)
         ELSE << ops[k][1] >> \o Core(ops, k + 1, keepclips)

RECURSIVE ScoreCore(_, _, _, _, _, _, _, _)
\* codes: sequence of 0,1,2,3,9; prev = previous code (or -1)
ScoreCore(codes, k, x, y, sc, px, py, prev) ==
    IF k > Len(codes) THEN 0
    ELSE LET c == codes[k] IN
         CASE c \in {0, 1} -> sc.S[x[px + 1]][y[py + 1]] + ScoreCore(codes, k + 1, x, y, sc, px + 1, py + 1, c)
           [] c = 3 -> (IF prev = 3 THEN sc.ge ELSE sc.go + sc.ge) + ScoreCore(codes, k + 1, x, y, sc, px + 1, py, c)
           [] c = 2 -> (IF prev = 2 THEN sc.ge ELSE sc.go + sc.ge) + ScoreCore(codes, k + 1, x, y, sc, px, py + 1, c)
           [] OTHER -> ScoreCore(codes, k + 1, x, y, sc, px, py, c)

Rescore(al, x, y, sc, keepclips) ==
    Plus(ScoreCore(Core(al.ops, 1, keepclips), 1, x, y, sc, al.xstart, al.ystart, -1),
         ClipCost(sc, Len(x), Len(y), al.xstart, al.xend, al.ystart, al.yend))

\* number of aligned x / y symbols in ops = extent of the aligned ranges
CountX(ops) == Len(SelectSeq(ops, LAMBDA o : o[1] \in {0, 1, 3}))
CountY(ops) == Len(SelectSeq(ops, LAMBDA o : o[1] \in {0, 1, 2}))
ClipLenX(ops) == LET RECURSIVE F(_)
                     F(k) == IF k > Len(ops) THEN 0 ELSE (IF ops[k][1] = 4 THEN ops[k][2] ELSE 0) + F(k + 1)
                 IN F(1)
ClipLenY(ops) == LET RECURSIVE F(_)
                     F(k) == IF k > Len(ops) THEN 0 ELSE (IF ops[k][1] = 5 THEN ops[k][2] ELSE 0) + F(k + 1)
                 IN F(1)

\* In semiglobal/local results the clip operations are filtered out. If a y clip stood between two Ins
\* operations (or an x clip between two Del operations) the code charged a second gap opening (split
\* convention); without the clip operation the place is not visible any more, so up to one extra opening
\* per non-empty clipped end is accepted, provided a gap run of length >= 2 of the right kind exists.
HasRun2(ops, code) == \E k \in 1..(Len(ops) - 1) : ops[k][1] = code /\ ops[k + 1][1] = code
HiddenSplits(al, m, n) ==
    (IF HasRun2(al.ops, 3) THEN (IF al.ystart > 0 THEN 1 ELSE 0) + (IF al.yend < n THEN 1 ELSE 0) ELSE 0)
  + (IF HasRun2(al.ops, 2) THEN (IF al.xstart > 0 THEN 1 ELSE 0) + (IF al.xend < m THEN 1 ELSE 0) ELSE 0)

\* clipsrequired: the operations must spell out the clipped ends (custom / global mode); otherwise
\* (semiglobal / local, whose clip operations are documented to be filtered) clips may be absent
\* everything but the score clause (also used for witness alignments supplied by a driver)
ValidShape(al, x, y, clipsrequired) ==
    /\ WellFormedOps(al.ops)
    /\ al.xlen = Len(x) /\ al.ylen = Len(y)
    /\ 0 <= al.xstart /\ al.xstart <= al.xend /\ al.xend <= Len(x)
    /\ 0 <= al.ystart /\ al.ystart <= al.yend /\ al.yend <= Len(y)
    /\ CountX(al.ops) = al.xend - al.xstart
    /\ CountY(al.ops) = al.yend - al.ystart
    /\ LET cx == ClipLenX(al.ops)  cy == ClipLenY(al.ops) IN
       IF cx = Len(x) - (al.xend - al.xstart) /\ cy = Len(y) - (al.yend - al.ystart)
       THEN WalkOK(al.ops, 1, x, y, al, 0, 0)                         \* clips spelled out: full walk
       ELSE /\ ~clipsrequired /\ cx = 0 /\ cy = 0                      \* clips filtered: walk the aligned part
            /\ WalkOK(al.ops, 1, Sub(x, 0, al.xend), Sub(y, 0, al.yend),
                      al, al.xstart, al.ystart)

ValidAlignment(al, x, y, sc, clipsrequired) ==
    /\ ValidShape(al, x, y, clipsrequired)
    /\ \/ al.score = Rescore(al, x, y, sc, TRUE)
       \/ al.score = Rescore(al, x, y, sc, FALSE)
       \/ /\ ~clipsrequired                                   \* clip operations filtered out: a clip that stood
          /\ ClipLenX(al.ops) = 0 /\ ClipLenY(al.ops) = 0      \* inside a gap run (split convention) is invisible
          /\ \E t \in 1..HiddenSplits(al, Len(x), Len(y)) :
                al.score = Rescore(al, x, y, sc, FALSE) + t * sc.go

\* ------------------------------------------ scores near the sentinel ("heavy")
\* Penalties of the order of MIN_SCORE / 2 are legal parameters: a clip of -440 000 000 is neither
\* "forbidden" (only the value MIN_SCORE is) nor small. The layer above collapses everything below
\* NEG \div 2; the heavy layer is the same documented model (max over sub-ranges of the best affine
\* alignment plus the penalties of the non-empty clipped ends) in max-plus arithmetic clamped at
\* FLOOR = -10^9: a clamped max-plus expression equals max(true value, FLOOR), every operand stays
\* above -2^31 (no 32-bit overflow inside TLC), and an optimum above HEAVY_TRUST is therefore exact.
\* Below HEAVY_TRUST the code's own sentinel arithmetic is within reach and nothing is demanded.
FLOOR == -1000000000
HEAVY_TRUST == -800000000
PlusH(a, b) == IF a <= FLOOR \/ b <= FLOOR THEN FLOOR ELSE Max2(a + b, FLOOR)
PenH(p, len) == IF len = 0 THEN 0 ELSE IF Forbidden(p) THEN FLOOR ELSE p

RECURSIVE GBH(_, _, _, _, _, _)
GBH(a, b, sc, i, j, st) ==
    IF i > Len(a) /\ j > Len(b) THEN 0
    ELSE LET mm == IF i <= Len(a) /\ j <= Len(b)
                   THEN PlusH(sc.S[a[i]][b[j]], GBH(a, b, sc, i + 1, j + 1, 0)) ELSE FLOOR
             ii == IF i <= Len(a)
                   THEN PlusH(IF st = 1 THEN sc.ge ELSE PlusH(sc.go, sc.ge), GBH(a, b, sc, i + 1, j, 1)) ELSE FLOOR
             dd == IF j <= Len(b)
                   THEN PlusH(IF st = 2 THEN sc.ge ELSE PlusH(sc.go, sc.ge), GBH(a, b, sc, i, j + 1, 2)) ELSE FLOOR
         IN  Max3(mm, ii, dd)

ClipCostH(sc, m, n, xs, xe, ys, ye) ==
    PlusH(PlusH(PenH(sc.xp, xs), PenH(sc.xs, m - xe)), PlusH(PenH(sc.yp, ys), PenH(sc.ys, n - ye)))

BestBruteH(x, y, sc) ==
    LET m == Len(x)  n == Len(y)
        cand == {PlusH(GBH(Sub(x, r[1], r[2]), Sub(y, r[3], r[4]), sc, 1, 1, 0),
                       ClipCostH(sc, m, n, r[1], r[2], r[3], r[4])) :
                    r \in {q \in (0..m) \X (0..m) \X (0..n) \X (0..n) : q[1] <= q[2] /\ q[3] <= q[4]}}
    IN  CHOOSE v \in cand : \A w \in cand : w <= v

RECURSIVE ScoreCoreH(_, _, _, _, _, _, _, _)
ScoreCoreH(codes, k, x, y, sc, px, py, prev) ==
    IF k > Len(codes) THEN 0
    ELSE LET c == codes[k] IN
         CASE c \in {0, 1} -> PlusH(sc.S[x[px + 1]][y[py + 1]], ScoreCoreH(codes, k + 1, x, y, sc, px + 1, py + 1, c))
           [] c = 3 -> PlusH(IF prev = 3 THEN sc.ge ELSE PlusH(sc.go, sc.ge), ScoreCoreH(codes, k + 1, x, y, sc, px + 1, py, c))
           [] c = 2 -> PlusH(IF prev = 2 THEN sc.ge ELSE PlusH(sc.go, sc.ge), ScoreCoreH(codes, k + 1, x, y, sc, px, py + 1, c))
           [] OTHER -> ScoreCoreH(codes, k + 1, x, y, sc, px, py, c)

RescoreH(al, x, y, sc, keepclips) ==
    PlusH(ScoreCoreH(Core(al.ops, 1, keepclips), 1, x, y, sc, al.xstart, al.ystart, -1),
          ClipCostH(sc, Len(x), Len(y), al.xstart, al.xend, al.ystart, al.yend))

\* custom mode only (clip operations spelled out)
ValidAlignmentH(al, x, y, sc) ==
    /\ ValidShape(al, x, y, TRUE)
    /\ \/ al.score = RescoreH(al, x, y, sc, TRUE)
       \/ al.score = RescoreH(al, x, y, sc, FALSE)
=============================================================================
