CONSTANTS
  Sym = {1, 2}
  MaxLen = 2
  Gaps <- MC_Gaps
  Subst <- MC_Subst
  Clips <- MC_Clips
  Modes = {"custom", "global", "semiglobal", "local"}
SPECIFICATION Spec
INVARIANTS ColumnMeaning Final Feasible HeavyAgrees
CHECK_DEADLOCK FALSE
