----------------------------- MODULE AlignmentMC -----------------------------
(* The O(mn) clip-state DP (one action per column, three states per cell,   *)
(* alignment may start anywhere at the price of the prefix penalties and    *)
(* end anywhere at the price of the suffix penalties) against the           *)
(* documented model taken literally: the maximum over all sub-ranges of x   *)
(* and y of the best affine-gap global alignment (by enumeration of all     *)
(* alignments) plus the clip penalty of every non-empty clipped end.        *)
(* Checked for all x, y over Sym up to MaxLen, all scoring schemes of       *)
(* Scorings x Clips^4, in all four modes.                                   *)
EXTENDS Alignment, TLC
CONSTANTS Sym, MaxLen, Gaps, Subst, Clips, Modes

MC_Gaps == {<<0, -1>>, <<-3, 0>>, <<-1, -1>>}
MC_Subst == {<<1, -1>>, <<2, -2>>}
MC_Clips == {MIN_SCORE, 0, -2}
MC_Clips1 == {MIN_SCORE, 0}

VARIABLES x, y, sc, j, col, best
vars == <<x, y, sc, j, col, best>>

Strings(lo, hi) == UNION {[1..n -> Sym] : n \in lo..hi}
STab(s) == [a \in Sym |-> [b \in Sym |-> IF a = b THEN s[1] ELSE s[2]]]

Init ==
    /\ x \in Strings(0, MaxLen) /\ y \in Strings(0, MaxLen)
    /\ \E g \in Gaps, s \in Subst, c1 \in Clips, c2 \in Clips, c3 \in Clips, c4 \in Clips, md \in Modes :
         sc = Effective([S |-> STab(s), go |-> g[1], ge |-> g[2], xp |-> c1, xs |-> c2, yp |-> c3, ys |-> c4], md)
    /\ j = 0 /\ col = << >> /\ best = NEG

ColumnStep ==
    /\ j <= Len(y)
    /\ LET c == ColFill(x, IF j = 0 THEN 0 ELSE y[j], sc, col, << >>, 0, j)
       IN  /\ col' = c
           /\ best' = Max2(best, ColBest(c, sc, Len(x), Len(y), j, 0))
    /\ j' = j + 1
    /\ UNCHANGED <<x, y, sc>>
Next == ColumnStep
Spec == Init /\ [][Next]_vars

\* meaning of a finished column jj = j-1: best start-anywhere score ending exactly at (i, jj)
CellBrute(i, jj) ==
    LET cand == {Plus(GotohBrute(Sub(x, r[1], i), Sub(y, r[2], jj), sc), StartCost(sc, r[1], r[2])) :
                    r \in (0..i) \X (0..jj)}
    IN  CHOOSE v \in cand : \A w \in cand : w <= v
ColumnMeaning == j > 0 => \A i \in 0..Len(x) : col[i + 1][1] = CellBrute(i, j - 1)
Final == j = Len(y) + 1 => (best = BestBrute(x, y, sc) /\ best = BestClip(x, y, sc))
Feasible == j = Len(y) + 1 => best > NEG \div 2
\* the heavy layer (clamped arithmetic, scores near the sentinel) is the same model: it agrees with the
\* ordinary layer on every scheme of this grid
HeavyAgrees == j = Len(y) + 1 => BestBruteH(x, y, sc) = best
=============================================================================
