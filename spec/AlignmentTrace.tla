--------------------------- MODULE AlignmentTrace ---------------------------
(* Trace validation for families "pairwise" (C01) and "banded" (C02).       *)
(* cfg = [S, go, ge, clip = <<xp, xs, yp, ys>>, ...]; the state of a run is *)
(* the aligner object's clip penalties as the constructor set them: the     *)
(* mode entry points must leave them untouched, so every event is judged    *)
(* against cfg alone -- whatever the object was used for before.            *)
(*                                                                         *)
(* pairwise events: custom/global/semiglobal/local [x, y] -> alignment      *)
(*   score = BestClip under the effective penalties; valid alignment        *)
(* banded events (cfg additionally k, w): entry points op in                *)
(*   custom, custom_prehash, custom_matches, custom_expanded, custom_path,  *)
(*   global, semiglobal, semiglobal_prehash, local                          *)
(*   a = [x, y, full]   full = 1 iff the band provably covers the matrix    *)
(*   (no k-mer match exists: decided HERE from x, y, k -- or the caller     *)
(*   passed an empty match list)                                            *)
(*   valid alignment, score <= BestClip, = BestClip when full; if the       *)
(*   matrix exceeds the cell budget: the documented sentinel                *)
EXTENDS Alignment, TLC, Json, IOUtils

Rec == ndJsonDeserialize(IOEnv.TRACE)
MAX_CELLS == 5000000

\* clip = the clip penalties the object is configured with: set by the constructor, changed only by the
\* caller through banded::Aligner::get_mut_scoring (event set_clips); copies of the object (clone,
\* clone_from, a serde round trip) carry them along
VARIABLES run, idx, ok, clip
vars == <<run, idx, ok, clip>>

Scheme(cfg) == [S |-> cfg.S, go |-> cfg.go, ge |-> cfg.ge,
                xp |-> clip[1], xs |-> clip[2], yp |-> clip[3], ys |-> clip[4]]

ObjectOps == {"clone", "clone_from", "serde", "set_clips"}

ModeOf(op) ==
    CASE op \in {"global"} -> "global"
      [] op \in {"semiglobal", "semiglobal_prehash"} -> "semiglobal"
      [] op = "local" -> "local"
      [] OTHER -> "custom"

IsAlignment(r) ==
    /\ r.st = "ok"
    /\ {"score", "xstart", "xend", "ystart", "yend", "xlen", "ylen", "mode", "ops"} \subseteq DOMAIN r

\* largest entry of the substitution table (upper bound of any alignment score: every aligned pair
\* contributes at most this much, gaps and clips contribute <= 0)
MaxS(S) == LET RECURSIVE F(_, _)
               F(i, j) == IF i > Len(S) THEN -1000000
                          ELSE IF j > Len(S[i]) THEN F(i + 1, 1)
                          ELSE Max2(S[i][j], F(i, j + 1))
           IN F(1, 1)

\* inputs of more than a thousand symbols that are related (equal, one contained in the other): the DP
\* is out of TLC's reach, so optimality is judged by bounds: the result is a valid alignment whose score
\* is its rescoring, not below the score of any witness alignment the driver knows by construction (each
\* witness is itself checked to be an alignment of x and y, so a wrong witness cannot accuse the code),
\* and not above |shorter| * best pair score. For equal / contained inputs under match >= 0 >= mismatch
\* scorings the two bounds coincide. The calls after it on the same object are judged exactly.
PairwiseBigExplains(cfg, c, r) ==
    LET md == ModeOf(c.op)
        sc == Effective(Scheme(cfg), md)
        x  == c.a.x   y == c.a.y
    IN  /\ r.mode = ModeCode(md)
        /\ ValidAlignment(r, x, y, sc, md \in {"custom", "global"})
        /\ r.score <= Max2(0, MaxS(cfg.S)) * Min2(Len(x), Len(y))
        /\ \A i \in 1..Len(c.a.wit) :
              LET w == c.a.wit[i] IN
              /\ ValidShape(w, x, y, TRUE)
              /\ r.score >= Rescore(w, x, y, sc, FALSE)

\* runs whose configuration carries heavy = 1: scores of the order of MIN_SCORE / 2 (legal, not
\* "forbidden"), tiny inputs, custom mode: judged by the heavy layer of Alignment.tla (the documented
\* model by enumeration in clamped arithmetic). Demanded only where that layer is exact and the code's
\* sentinel is out of reach: optimum above HEAVY_TRUST.
PairwiseHeavyExplains(cfg, c, r) ==
    LET sc  == Scheme(cfg)
        opt == BestBruteH(c.a.x, c.a.y, sc)
    IN  \/ opt <= HEAVY_TRUST
        \* a sum of penalties that leaves the 32-bit score type: outside the domain of any i32 aligner
        \* (this class runs only in the build with overflow checks, where that boundary is a panic)
        \/ /\ r.st = "panic" /\ "msg" \in DOMAIN r /\ r.msg = "attempt to add with overflow"
        \/ /\ c.op = "custom"
           /\ IsAlignment(r)
           /\ r.mode = ModeCode("custom")
           /\ ValidAlignmentH(r, c.a.x, c.a.y, sc)
           /\ r.score = opt

PairwiseExplains(cfg, c, r) ==
    IF "heavy" \in DOMAIN cfg THEN PairwiseHeavyExplains(cfg, c, r) ELSE
    /\ c.op \in {"custom", "global", "semiglobal", "local"}
    /\ IsAlignment(r)
    /\ IF "wit" \in DOMAIN c.a THEN PairwiseBigExplains(cfg, c, r) ELSE
       LET md == ModeOf(c.op)
           sc == Effective(Scheme(cfg), md)
       IN  /\ r.mode = ModeCode(md)
           /\ ValidAlignment(r, c.a.x, c.a.y, sc, md \in {"custom", "global"})
           /\ r.score = BestClip(c.a.x, c.a.y, sc)

\* k-mer matches: is there any pair of equal k-mers?
HasKmerMatch(x, y, k) ==
    \E i \in 1..(Len(x) - k + 1) : \E j2 \in 1..(Len(y) - k + 1) :
        \A d \in 0..(k - 1) : x[i + d] = y[j2 + d]

Sentinel(r) ==
    /\ r.score = MIN_SCORE /\ r.ops = << >>
    /\ r.xstart = 0 /\ r.xend = 0 /\ r.ystart = 0 /\ r.yend = 0 /\ r.xlen = 0 /\ r.ylen = 0

\* unary inputs of the budget-guard cases are logged as (fill symbol, length)
BigExplains(cfg, c, r) ==
    LET full == c.a.nomatches = 1 \/ (c.a.internal = 1 /\ c.a.xfill # c.a.yfill)   \* no common symbol: no k-mer match
    IN  /\ full                                             \* the drivers only send such cases
        /\ r.cells = (c.a.xlen + 1) * (c.a.ylen + 1)         \* full band = whole matrix
        /\ IF (c.a.xlen + 1) * (c.a.ylen + 1) > MAX_CELLS
           THEN Sentinel(r)
           ELSE r.score > MIN_SCORE /\ r.xlen = c.a.xlen /\ r.ylen = c.a.ylen

\* long inputs with a planted copy (big = 2): the band size (hook) decides between the sentinel and a
\* real alignment; validity and rescoring are checked, optimality only against the trivial bound
\* diag = 1: the driver made sure that all k-mer matches of x and y lie on ONE diagonal (x is planted once
\* in y and shares no other k-mer with it). The documented band is then a stripe of half-width w around
\* that diagonal plus the corner pieces: its size is bounded independently of |y| (measured on the code:
\* about |x| * (4w + 1)); a band that covers whole columns of a long y is not the documented band.
PlantedExplains(cfg, c, r) ==
    LET md == ModeOf(c.op)
        sc == Effective(Scheme(cfg), md)
    IN  IF c.a.diag = 1 /\ r.cells > (Len(c.a.x) + 4 * cfg.w + 4) * (4 * cfg.w + 4) THEN FALSE ELSE
        IF r.cells > MAX_CELLS THEN Sentinel(r)
        ELSE /\ r.mode = ModeCode(md)
             /\ ValidAlignment(r, c.a.x, c.a.y, sc, md \in {"custom", "global"})
             /\ r.score <= Max2(0, MaxS(cfg.S)) * Min2(Len(c.a.x), Len(c.a.y))

BandedExplains(cfg, c, r) ==
    /\ c.op \in {"custom", "custom_prehash", "custom_matches", "custom_expanded", "custom_path",
                 "global", "semiglobal", "semiglobal_prehash", "local"}
    /\ IsAlignment(r)
    /\ "cells" \in DOMAIN r
    /\ IF c.a.big = 2 THEN PlantedExplains(cfg, c, r) ELSE
       IF c.a.big = 1 THEN BigExplains(cfg, c, r) ELSE
       LET md == ModeOf(c.op)
           sc == Effective(Scheme(cfg), md)
           x  == c.a.x   y == c.a.y
           full == \/ c.a.nomatches = 1                                   \* caller supplied an empty backbone
                   \/ (c.a.internal = 1 /\ ~HasKmerMatch(x, y, cfg.k))    \* internal k-mer search finds nothing
       IN  IF r.cells > MAX_CELLS
           THEN Sentinel(r)                                               \* budget guard (band size from the hook)
           ELSE /\ r.mode = ModeCode(md)
                /\ ValidAlignment(r, x, y, sc, md \in {"custom", "global"})
                /\ LET opt == BestClip(x, y, sc) IN
                   /\ r.score <= opt
                   /\ (full => r.score = opt)

Explains(fam, cfg, e) ==
    CASE e.c.op \in ObjectOps -> e.r.st = "ok"
      [] fam = "pairwise" -> PairwiseExplains(cfg, e.c, e.r)
      [] fam = "banded"   -> BandedExplains(cfg, e.c, e.r)
      [] OTHER -> FALSE

Init == run \in 1..Len(Rec) /\ idx = 0 /\ ok = TRUE /\ clip = Rec[run].cfg.clip
Next ==
    /\ ok /\ idx < Len(Rec[run].ev)
    /\ LET good == Explains(Rec[run].fam, Rec[run].cfg, Rec[run].ev[idx + 1])
       IN  /\ ok' = good
           /\ IF good THEN TRUE ELSE PrintT(<<"REJECT", run, idx + 1>>)
    /\ idx' = idx + 1
    /\ clip' = IF Rec[run].ev[idx + 1].c.op = "set_clips" THEN Rec[run].ev[idx + 1].c.a.clip ELSE clip
    /\ UNCHANGED run
Spec == Init /\ [][Next]_vars
=============================================================================
