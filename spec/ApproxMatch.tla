---------------------------- MODULE ApproxMatch ----------------------------
(***************************************************************************)
(* C09 / C10 -- approximate matchers of rust-bio                            *)
(*   src/pattern_matching/myers/{simple,long,myers_impl,traceback}.rs       *)
(*   src/pattern_matching/ukkonen.rs, src/alignment/distance.rs             *)
(*                                                                         *)
(* DEFINITION LAYER (the only oracle)                                       *)
(*   Sub(ctx,i,c)   cost of aligning pattern position i with text symbol c  *)
(*                  (equality relation with ambiguity codes and text        *)
(*                  wildcards for Myers, a cost table for Ukkonen)          *)
(*   Col            one column of the edit matrix, built eagerly            *)
(*   LastRow(ctx,t) r[j] = D[m][j] = min edit distance between the pattern  *)
(*                  and any substring of t ending at (1-based) position j   *)
(*   Hits, BestEnd, MinDist, Lev, Hamming, Bounded                          *)
(*   ValidHit       an alignment path explains a hit                        *)
(*                                                                         *)
(* MACHINE LAYER (shaped like the code, model-checked against the above)    *)
(*   Ukk*    Ukkonen's cut-off column machine (two rolling columns, lastk)  *)
(*   Blk*    Myers' bit-vector machine over W-bit blocks (Pv/Mv as sets of  *)
(*           bit positions, horizontal carries, lazy block activation)      *)
(*   Tb*     the column store (ring buffer / full history, sentinel column, *)
(*           stale contents after reuse) and the traceback cursor walk      *)
(*   Canon*  the walk on the complete matrix (what the traceback machine    *)
(*           answers; used for MODEL-DRIFT reports by MyersTbTrace)         *)
(* MC modules: ApproxMatchMC (Ukk), MyersBlockMC (Blk), MyersTbMC (Tb),     *)
(* MyersProtoMC (caller protocol; generates behaviours for spec -> impl).   *)
(***************************************************************************)
EXTENDS Integers, Sequences, FiniteSets

Min2(a, b) == IF a <= b THEN a ELSE b
Min3(a, b, c) == Min2(a, Min2(b, c))
Max2(a, b) == IF a >= b THEN a ELSE b
RangeOf(s) == {s[x] : x \in 1..Len(s)}

RECURSIVE IotaRec(_, _)
IotaRec(n, acc) == IF Len(acc) > n THEN acc ELSE IotaRec(n, Append(acc, Len(acc)))
Iota(n) == IotaRec(n, << >>)                      \* <<0, 1, ..., n>>

\* ------------------------------------------------------- equality relation
\* Abstract state of a MyersBuilder: a map symbol -> set of equivalents, OVERWRITTEN by
\* every ambig(symbol, equivalents) call, plus the set of text wildcards. It is recorded
\* as the sequence of calls made on the builder object up to the build:
\* ambig = sequence of <<symbol, equivalents>> in call order (the LAST call for a symbol
\* counts, also when matchers were already built from the builder in between); the symbol
\* always matches itself. wild = text symbols that match every pattern position.
\* The relation is NOT transitive and not symmetric: with X -> {Y} and Y -> {Z} a pattern X
\* matches the text symbols X and Y only, never Z; with X -> {Y} alone a pattern Y does not
\* match a text X. Only the entry of the pattern symbol itself is consulted.
AmbigOf(ambig, s) ==
    LET I == {x \in 1..Len(ambig) : ambig[x][1] = s}
    IN  IF I = {} THEN {}
        ELSE RangeOf(ambig[CHOOSE x \in I : \A y \in I : y <= x][2])

EqSym(ambig, wild, pc, tc) == tc = pc \/ tc \in AmbigOf(ambig, pc) \/ tc \in RangeOf(wild)

RECURSIVE PMRec(_, _, _)
PMRec(p, ambig, acc) ==
    IF Len(acc) = Len(p) THEN acc
    ELSE LET s == p[Len(acc) + 1] IN PMRec(p, ambig, Append(acc, {s} \cup AmbigOf(ambig, s)))

\* evaluation context of one pattern
MkEq(p, ambig, wild) ==
    [kind |-> "eq", m |-> Len(p), p |-> p, pm |-> PMRec(p, ambig, << >>), wild |-> RangeOf(wild),
     cost |-> << >>]
\* cost = << >> (unit cost) or a square table over the symbols 0..s-1
MkCost(p, cost) ==
    [kind |-> "cost", m |-> Len(p), p |-> p, pm |-> << >>, wild |-> {}, cost |-> cost]
MkPlain(p) == MkCost(p, << >>)

\* A cost-table entry -1 stands for an "infinite" cost (u32::MAX, u32::MAX - 1, 2^31, ...: every
\* value >= 2^30 is logged as -1, TLC's integers are 32-bit). An alignment through such an edge is
\* never within any threshold the drivers use and never cheaper than the all-insertion alignment
\* (D[i][j] <= i), so any value above every pattern length serves; additions stay far from 2^31.
InfCost == 1000000
Sub(ctx, i, c) ==
    IF ctx.kind = "eq" THEN (IF c \in ctx.pm[i] \/ c \in ctx.wild THEN 0 ELSE 1)
    ELSE IF ctx.cost = << >> THEN (IF ctx.p[i] = c THEN 0 ELSE 1)
    ELSE LET v == ctx.cost[ctx.p[i] + 1][c + 1] IN IF v < 0 THEN InfCost ELSE v

\* ------------------------------------------------------------- edit matrix
\* A column is the sequence <<D[0][j], ..., D[m][j]>> (row r at index r+1).
RECURSIVE ColRec(_, _, _, _, _)
ColRec(ctx, prev, c, i, acc) ==            \* Len(acc) = i = rows 0..i-1 of the new column
    IF i > ctx.m THEN acc
    ELSE ColRec(ctx, prev, c, i + 1,
                Append(acc, Min3(prev[i] + Sub(ctx, i, c), prev[i + 1] + 1, acc[i] + 1)))
Col(ctx, prev, c, top) == ColRec(ctx, prev, c, 1, << top >>)

\* all columns 0..n of the semi-global matrix (free start in the text): D[0][j] = 0
RECURSIVE ColsRec(_, _, _)
ColsRec(ctx, t, acc) ==
    IF Len(acc) > Len(t) THEN acc
    ELSE ColsRec(ctx, t, Append(acc, Col(ctx, acc[Len(acc)], t[Len(acc)], 0)))
Cols(ctx, t) == ColsRec(ctx, t, << Iota(ctx.m) >>)       \* Cols[j+1] = column j

RECURSIVE LastRowRec(_, _, _, _, _)
LastRowRec(ctx, t, j, prev, acc) ==
    IF j > Len(t) THEN acc
    ELSE LET col == Col(ctx, prev, t[j], 0)
         IN  LastRowRec(ctx, t, j + 1, col, Append(acc, col[ctx.m + 1]))
LastRow(ctx, t) == LastRowRec(ctx, t, 1, Iota(ctx.m), << >>)    \* r[j] = D[m][j], j = 1..n

\* k < 0 stands for "no bound" (usize::MAX / u32::MAX in the code)
Within(d, k) == k < 0 \/ d <= k

\* hits in text order: <<0-based end position, distance>>
RECURSIVE HitsRec(_, _, _, _)
HitsRec(row, k, j, acc) ==
    IF j > Len(row) THEN acc
    ELSE HitsRec(row, k, j + 1, IF Within(row[j], k) THEN Append(acc, << j - 1, row[j] >>) ELSE acc)
HitsOfRow(row, k) == HitsRec(row, k, 1, << >>)
Hits(ctx, t, k) == HitsOfRow(LastRow(ctx, t), k)

\* first hit whose 0-based end position is >= from, as <<end, d>>, or << >>
RECURSIVE NextHitRec(_, _, _)
NextHitRec(row, k, j) ==
    IF j > Len(row) THEN << >>
    ELSE IF Within(row[j], k) THEN << j - 1, row[j] >> ELSE NextHitRec(row, k, j + 1)
NextHit(row, k, from) == NextHitRec(row, k, from + 1)

RECURSIVE BestRec(_, _, _)
BestRec(row, j, best) ==                   \* best = <<end, d>>; first position on ties
    IF j > Len(row) THEN best
    ELSE BestRec(row, j + 1, IF row[j] < best[2] THEN << j - 1, row[j] >> ELSE best)
BestEndOfRow(row) == BestRec(row, 2, << 0, row[1] >>)        \* row non-empty
MinDistOfRow(row) == BestEndOfRow(row)[2]

\* A hit sequence h consumed through an iterator adaptor (count, last, nth(n), skip(n),
\* step_by(n)); the answer is always written as a sequence (count: << number >>).
ViaSeq(h, how, n) ==
    CASE how = "count"   -> << Len(h) >>
      [] how = "last"    -> IF h = << >> THEN << >> ELSE << h[Len(h)] >>
      [] how = "nth"     -> IF n < Len(h) THEN << h[n + 1] >> ELSE << >>
      [] how = "skip"    -> SubSeq(h, n + 1, Len(h))
      [] how = "step_by" -> [x \in 1..((Len(h) + n - 1) \div n) |-> h[(x - 1) * n + 1]]
      [] OTHER           -> << "?" >>
\* size_hint() = <<lower, upper or -1>> of an iterator that still has `left` items to give
HintOK(v, left) == Len(v) = 2 /\ v[1] <= left /\ (v[2] < 0 \/ left <= v[2])

\* ------------------------------------------------------ distance functions
RECURSIVE LevRec(_, _, _, _)
LevRec(ctx, b, j, prev) ==
    IF j > Len(b) THEN prev[ctx.m + 1] ELSE LevRec(ctx, b, j + 1, Col(ctx, prev, b[j], j))
Lev(a, b) == LevRec(MkPlain(a), b, 1, Iota(Len(a)))          \* global: D[0][j] = j

Hamming(a, b) == Cardinality({x \in 1..Len(a) : a[x] # b[x]})  \* Len(a) = Len(b)

\* ------------------------------------------------------ alignment paths (C10)
OpMatch == 0
OpSubst == 1
OpDel   == 2        \* consumes a text symbol only
OpIns   == 3        \* consumes a pattern symbol only

\* Walk ops from pattern position 0 and text position `start` (0-based, = number of
\* text symbols left of the alignment). Result <<pattern consumed, text position, cost>>
\* or <<-1,-1,-1>> if an operation is not applicable / not allowed.
RECURSIVE WalkRec(_, _, _, _, _, _, _)
WalkRec(ctx, t, ops, n, i, j, cost) ==
    IF n > Len(ops) THEN << i, j, cost >>
    ELSE LET o == ops[n] IN
         IF o = OpMatch
         THEN IF i < ctx.m /\ j < Len(t) /\ Sub(ctx, i + 1, t[j + 1]) = 0
              THEN WalkRec(ctx, t, ops, n + 1, i + 1, j + 1, cost) ELSE << -1, -1, -1 >>
         ELSE IF o = OpSubst
         THEN IF i < ctx.m /\ j < Len(t) /\ Sub(ctx, i + 1, t[j + 1]) # 0
              THEN WalkRec(ctx, t, ops, n + 1, i + 1, j + 1, cost + 1) ELSE << -1, -1, -1 >>
         ELSE IF o = OpDel
         THEN IF j < Len(t) THEN WalkRec(ctx, t, ops, n + 1, i, j + 1, cost + 1) ELSE << -1, -1, -1 >>
         ELSE IF o = OpIns
         THEN IF i < ctx.m THEN WalkRec(ctx, t, ops, n + 1, i + 1, j, cost + 1) ELSE << -1, -1, -1 >>
         ELSE << -1, -1, -1 >>

\* start/end delimit t[start..end) (0-based, end exclusive); d is the reported distance;
\* row = LastRow(ctx,t). The path consumes exactly the pattern and that substring, its
\* cost is d, and d is the DP value at the end column: so d is also the global edit
\* distance between the pattern and the substring (a cheaper path would contradict the
\* minimality of D[m][end]).
ValidPath(ctx, t, start, end, d, ops) ==
    /\ start \in 0..Len(t) /\ end \in 0..Len(t) /\ start <= end
    /\ WalkRec(ctx, t, ops, 1, 0, start, 0) = << ctx.m, end, d >>
ValidHit(ctx, t, row, start, end, d, ops) ==
    /\ end \in 1..Len(t)
    /\ d = row[end]
    /\ ValidPath(ctx, t, start, end, d, ops)

\* ==========================================================================
\*                               MACHINE LAYER
\* ==========================================================================
RECURSIVE ConstRec(_, _, _)
ConstRec(n, v, acc) == IF Len(acc) = n THEN acc ELSE ConstRec(n, v, Append(acc, v))
ConstSeq(n, v) == ConstRec(n, v, << >>)

\* ---------------------------------------------------------------- Ukkonen
\* ukkonen.rs: two rolling columns D[0], D[1] of m+1 cells (cell j at index j+1), only
\* the cells 0..lastk of the current column are written; everything below keeps
\* whatever an earlier column (or the initialisation) left there.
UkkInit(m, k) == [d0 |-> ConstSeq(m + 1, k + 1), d1 |-> Iota(m), lastk |-> Min2(k, m), hit |-> << >>]

RECURSIVE UkkFill(_, _, _, _, _, _)
UkkFill(ctx, col, prev, c, j, hi) ==
    IF j > hi THEN col
    ELSE UkkFill(ctx,
                 [col EXCEPT ![j + 1] = Min3(prev[j + 1] + 1, col[j] + 1, prev[j] + Sub(ctx, j, c))],
                 prev, c, j + 1, hi)

RECURSIVE UkkCut(_, _, _)
UkkCut(col, lastk, k) == IF col[lastk + 1] > k THEN UkkCut(col, lastk - 1, k) ELSE lastk

\* one iteration of Matches::next for text symbol c at 0-based position i
UkkStep(ctx, u, i, c, k) ==
    LET even == i % 2 = 0
        cur  == IF even THEN u.d0 ELSE u.d1
        prev == IF even THEN u.d1 ELSE u.d0
        hi   == Min2(u.lastk + 1, ctx.m)
        col  == UkkFill(ctx, [cur EXCEPT ![1] = 0], prev, c, 1, hi)
        lk   == UkkCut(col, hi, k)
    IN  [d0 |-> IF even THEN col ELSE u.d0, d1 |-> IF even THEN u.d1 ELSE col, lastk |-> lk,
         hit |-> IF lk = ctx.m THEN << i, col[ctx.m + 1] >> ELSE << >>]
UkkCur(u, i) == IF i % 2 = 1 THEN u.d0 ELSE u.d1       \* column written by step i-1 (i >= 1); d1 for i = 0

\* ------------------------------------------------------ Myers block machine
\* long.rs (simple.rs = one block, no carries): a column of the matrix is stored as
\* blocks of W rows, each block = (Pv, Mv, dist): vertical deltas +1 / -1 as W-bit words
\* (here: sets of bit positions) and the value at the last row of the block.
AllBits(W) == 0..(W - 1)
NotW(a, W) == AllBits(W) \ a
ShlW(a, W) == {x + 1 : x \in {y \in a : y + 1 < W}}
XorW(a, b) == (a \ b) \cup (b \ a)
RECURSIVE AddRec(_, _, _, _, _, _)
AddRec(a, b, W, i, carry, acc) ==                       \* addition modulo 2^W
    IF i = W THEN acc
    ELSE LET sum == (IF i \in a THEN 1 ELSE 0) + (IF i \in b THEN 1 ELSE 0) + carry
         IN  AddRec(a, b, W, i + 1, sum \div 2, IF sum % 2 = 1 THEN acc \cup {i} ELSE acc)
AddW(a, b, W) == AddRec(a, b, W, 0, 0, {})

BlkCount(m, W) == (m + W - 1) \div W
BlkRows(m, W, b) == IF b = BlkCount(m, W) - 1 /\ m % W # 0 THEN m % W ELSE W     \* b 0-based
\* equality mask of block b for text symbol c (ctx of kind "eq"); a wildcard sets ALL bits
BlkPeq(ctx, W, b, c) ==
    IF c \in ctx.wild THEN AllBits(W)
    ELSE {r \in AllBits(W) : b * W + r < ctx.m /\ c \in ctx.pm[b * W + r + 1]}

\* advance_block: returns the new block and the horizontal delta leaving its last row
BlkAdvance(s, eq0, bound, hin, W) ==
    LET xv  == eq0 \cup s.mv
        eq  == IF hin < 0 THEN eq0 \cup {0} ELSE eq0
        xh  == XorW(AddW(eq \cap s.pv, s.pv, W), s.pv) \cup eq
        ph  == s.mv \cup NotW(xh \cup s.pv, W)
        mh  == s.pv \cap xh
        hout == (IF bound \in ph THEN 1 ELSE 0) - (IF bound \in mh THEN 1 ELSE 0)
        ph1 == ShlW(ph, W) \cup (IF hin > 0 THEN {0} ELSE {})
        mh1 == ShlW(mh, W) \cup (IF hin < 0 THEN {0} ELSE {})
    IN  [s |-> [pv |-> mh1 \cup NotW(xv \cup ph1, W), mv |-> ph1 \cap xv, dist |-> s.dist + hout],
         hout |-> hout]

\* States::add_state
BlkAdd(states, m, W, offset) ==
    LET prevd == IF states = << >> THEN 0 ELSE states[Len(states)].dist
        delta == IF Len(states) = BlkCount(m, W) - 1 /\ m % W > 0 THEN m % W ELSE W
    IN  Append(states, [pv |-> AllBits(W), mv |-> {}, dist |-> prevd + delta + offset])

RECURSIVE BlkNewRec(_, _, _, _)
BlkNewRec(states, m, W, n) == IF Len(states) = n THEN states ELSE BlkNewRec(BlkAdd(states, m, W, 0), m, W, n)
\* States::new; k < 0 = unbounded
BlkNew(m, k, W) ==
    LET kk == IF k < 0 THEN m ELSE Min2(k, m)
    IN  BlkNewRec(<< >>, m, W, Max2(1, (kk + W - 1) \div W))

RECURSIVE BlkSweep(_, _, _, _, _, _, _)
BlkSweep(ctx, states, c, W, b, carry, acc) ==           \* b 1-based
    IF b > Len(states) THEN << acc, carry >>
    ELSE LET r == BlkAdvance(states[b], BlkPeq(ctx, W, b - 1, c), BlkRows(ctx.m, W, b - 1) - 1, carry, W)
         IN  BlkSweep(ctx, states, c, W, b + 1, r.hout, Append(acc, r.s))

RECURSIVE BlkDrop(_, _, _)
BlkDrop(states, last, lim) ==                           \* last 1-based
    IF last > 1 /\ states[last].dist >= lim THEN BlkDrop(states, last - 1, lim) ELSE last

\* States::step
BlkStep(ctx, states, c, k, W) ==
    LET sw    == BlkSweep(ctx, states, c, W, 1, 0, << >>)
        adv   == sw[1]
        carry == sw[2]
        last  == Len(adv)
        ldist == adv[last].dist
    IN  IF /\ Within(ldist - carry, k)
           /\ last < BlkCount(ctx.m, W)
           /\ (0 \in BlkPeq(ctx, W, last, c) \/ carry < 0)
        THEN LET grown == BlkAdd(adv, ctx.m, W, -carry)
                 r     == BlkAdvance(grown[last + 1], BlkPeq(ctx, W, last, c),
                                     BlkRows(ctx.m, W, last) - 1, carry, W)
             IN  [grown EXCEPT ![last + 1] = r.s]
        ELSE IF k < 0 THEN adv                          \* max_dist.saturating_add(w): never reached
        ELSE SubSeq(adv, 1, BlkDrop(adv, last, k + W))

BlkKnown(states, m, W) == IF Len(states) = BlkCount(m, W) THEN states[Len(states)].dist ELSE -1
\* value of matrix row g (1..m) decoded from the blocks (row g must lie in an active block)
BlkRowVal(states, m, W, g) ==
    LET b   == (g - 1) \div W
        r   == (g - 1) % W
        s   == states[b + 1]
        rng == (r + 1)..(BlkRows(m, W, b) - 1)
    IN  s.dist - Cardinality(rng \cap s.pv) + Cardinality(rng \cap s.mv)
BlkActiveRows(states, m, W) == Min2(m, Len(states) * W)

\* number of active blocks after every text symbol (the band profile of a search)
RECURSIVE BlkProfileRec(_, _, _, _, _, _)
BlkProfileRec(ctx, t, k, W, states, acc) ==
    IF Len(acc) = Len(t) THEN acc
    ELSE LET ns == BlkStep(ctx, states, t[Len(acc) + 1], k, W)
         IN  BlkProfileRec(ctx, t, k, W, ns, Append(acc, Len(ns)))
BlkProfile(ctx, t, k, W) == BlkProfileRec(ctx, t, k, W, BlkNew(ctx.m, k, W), << >>)

\* --------------------------------------------- column store and traceback (C10)
\* traceback.rs keeps the computed columns in a vector of R slots used cyclically
\* (eager API: R = m + min(k,m) + 2; lazy API: R = n + 2). Slot 0 receives a sentinel
\* column of "infinite" values, slot 1 the initial column, then one slot per text
\* symbol. The vector is reused between searches: it is only resized, so slots not
\* yet written in this search still hold columns of an earlier search.
\* Here a slot is [col, gen, j]: the column values, the search that wrote it and its
\* column index (-1 = sentinel, 0 = initial column).
INF == 1000000
TbSentinel(m, gen) == [col |-> ConstSeq(m + 1, INF), gen |-> gen, j |-> -1]
TbDefault(m) == [col |-> ConstSeq(m + 1, 0), gen |-> 0, j |-> -2]      \* State::default()

TbResize(store, R, m) ==
    IF Len(store) >= R THEN SubSeq(store, 1, R)
    ELSE store \o ConstSeq(R - Len(store), TbDefault(m))
\* Traceback::new
TbNew(store, R, m, gen) ==
    LET s1 == TbResize(store, R, m)
        s2 == [s1 EXCEPT ![1] = TbSentinel(m, gen)]
    IN  [s2 EXCEPT ![2] = [col |-> Iota(m), gen |-> gen, j |-> 0]]
\* Traceback::add_state at slot pos (0-based)
TbPut(store, pos, col, gen, j) == [store EXCEPT ![pos + 1] = [col |-> col, gen |-> gen, j |-> j]]

\* _traceback_at: cursor walk from the last row of the column in slot s. Decisions as in
\* the code: substitution if diagonal + 1 = current; else insertion if the Pv bit is set
\* (up + 1 = current); else deletion if the Mv bit of the left column is set
\* (left = diagonal - 1); else match. cj = index of the matrix column the walk believes
\* to be in slot s; `fresh` stays TRUE as long as every slot whose values were read was
\* written by search `gen` and holds exactly the expected column (cj, cj-1; the sentinel
\* left of column 0).
RECURSIVE TbWalkRec(_, _, _, _, _, _, _, _, _)
TbWalkRec(store, R, s, cj, gen, i, hoff, ops, fresh) ==
    IF i = 0 THEN [ok |-> TRUE, len |-> hoff, ops |-> ops, fresh |-> fresh]
    ELSE IF hoff > 2 * R THEN [ok |-> FALSE, len |-> hoff, ops |-> ops, fresh |-> fresh]
    ELSE LET ls    == (s + R - 1) % R
             cur   == store[s + 1].col
             left  == store[ls + 1].col
             fr2   == /\ fresh
                      /\ store[s + 1].gen = gen /\ store[s + 1].j = cj
                      /\ store[ls + 1].gen = gen /\ store[ls + 1].j = cj - 1
         IN  IF left[i] + 1 = cur[i + 1]
             THEN TbWalkRec(store, R, ls, cj - 1, gen, i - 1, hoff + 1, << OpSubst >> \o ops, fr2)
             ELSE IF cur[i + 1] = cur[i] + 1
             THEN TbWalkRec(store, R, s, cj, gen, i - 1, hoff, << OpIns >> \o ops, fr2)
             ELSE IF left[i + 1] = left[i] - 1
             THEN TbWalkRec(store, R, ls, cj - 1, gen, i, hoff + 1, << OpDel >> \o ops, fr2)
             ELSE TbWalkRec(store, R, ls, cj - 1, gen, i - 1, hoff + 1, << OpMatch >> \o ops, fr2)
TbWalk(store, R, s, cj, gen, m) ==
    LET w == TbWalkRec(store, R, s, cj, gen, m, 0, << >>, TRUE)
    IN  [ok |-> w.ok, len |-> w.len, ops |-> w.ops, fresh |-> w.fresh, dist |-> store[s + 1].col[m + 1]]

\* the same walk on the complete matrix (sentinel, column 0, ..., column n): the
\* alignment the implementation is expected to produce for the hit ending at 0-based e
RECURSIVE CanonStoreRec(_, _, _)
CanonStoreRec(cols, m, acc) ==
    IF Len(acc) > Len(cols) THEN acc
    ELSE CanonStoreRec(cols, m, Append(acc, [col |-> cols[Len(acc)], gen |-> 1, j |-> Len(acc) - 1]))
CanonStore(ctx, t) == CanonStoreRec(Cols(ctx, t), ctx.m, << TbSentinel(ctx.m, 1) >>)
Canon(ctx, t, e) == TbWalk(CanonStore(ctx, t), Len(t) + 2, e + 2, e + 1, 1, ctx.m)

\* The same walk written directly on the sequence of matrix columns (cols[j+1] = column j),
\* the sentinel left of column 0 being implicit: <<text symbols consumed, ops>>.
\* (MyersTbMC checks CanonOnCols = Canon.) Used by the trace specification to report
\* MODEL-DRIFT when the implementation chooses another optimal path than the machine layer.
RECURSIVE CanonColsRec(_, _, _, _, _)
CanonColsRec(cols, j, i, hoff, ops) ==
    IF i = 0 THEN << hoff, ops >>
    ELSE LET cur  == cols[j + 1]
             diag == IF j = 0 THEN INF ELSE cols[j][i]
             left == IF j = 0 THEN INF ELSE cols[j][i + 1]
         IN  IF diag + 1 = cur[i + 1]
             THEN CanonColsRec(cols, j - 1, i - 1, hoff + 1, << OpSubst >> \o ops)
             ELSE IF cur[i + 1] = cur[i] + 1
             THEN CanonColsRec(cols, j, i - 1, hoff, << OpIns >> \o ops)
             ELSE IF left = diag - 1
             THEN CanonColsRec(cols, j - 1, i, hoff + 1, << OpDel >> \o ops)
             ELSE CanonColsRec(cols, j - 1, i - 1, hoff + 1, << OpMatch >> \o ops)
CanonOnCols(cols, m, e) == CanonColsRec(cols, e + 1, m, 0, << >>)      \* e = 0-based end position

=============================================================================
