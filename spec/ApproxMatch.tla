---------------------------- MODULE ApproxMatch ----------------------------
(***************************************************************************)
(* C09 / C10 -- approximate matchers of rust-bio                            *)
(*   src/pattern_matching/myers/{simple,long,myers_impl,traceback}.rs       *)
(*   src/pattern_matching/ukkonen.rs, src/alignment/distance.rs             *)
(*                                                                         *)
(* DEFINITION LAYER (the only oracle)                                       *)
(*   Sub(ctx,i,c)   cost of aligning pattern position i with text symbol c  *)
(*                  (equality relation with ambiguity codes and text        *)
(*                  wildcards for Myers, a cost table for Ukkonen)          *)
(*   Col            one column of the edit matrix, built eagerly            *)
(*   LastRow(ctx,t) r[j] = D[m][j] = min edit distance between the pattern  *)
(*                  and any substring of t ending at (1-based) position j   *)
(*   Hits, BestEnd, MinDist, Lev, Hamming, Bounded                          *)
(*   ValidHit       an alignment path explains a hit                        *)
(*                                                                         *)
(* MACHINE LAYER (shaped like the code, model-checked against the above)    *)
(*   Ukk*    Ukkonen's cut-off column machine (two rolling columns, lastk)  *)
(*   Blk*    Myers' bit-vector machine over W-bit blocks (Pv/Mv as sets of  *)
(*           bit positions, horizontal carries, lazy block activation)      *)
(*   Tb*     the column store (ring buffer / full history, sentinel column, *)
(*           stale contents after reuse) and the traceback cursor walk      *)
(* The MC modules ApproxMatchMC / MyersBlockMC / MyersTbMC instantiate them.*)
(***************************************************************************)
EXTENDS Integers, Sequences, FiniteSets

Min2(a, b) == IF a <= b THEN a ELSE b
Min3(a, b, c) == Min2(a, Min2(b, c))
Max2(a, b) == IF a >= b THEN a ELSE b
RangeOf(s) == {s[x] : x \in 1..Len(s)}

RECURSIVE IotaRec(_, _)
IotaRec(n, acc) == IF Len(acc) > n THEN acc ELSE IotaRec(n, Append(acc, Len(acc)))
Iota(n) == IotaRec(n, << >>)                      \* <<0, 1, ..., n>>

\* ------------------------------------------------------- equality relation
\* ambig = sequence of <<symbol, equivalents>> in the order of MyersBuilder::ambig
\* calls (a later call for the same symbol replaces the earlier one); the symbol
\* always matches itself. wild = text symbols that match every pattern position.
AmbigOf(ambig, s) ==
    LET I == {x \in 1..Len(ambig) : ambig[x][1] = s}
    IN  IF I = {} THEN {}
        ELSE RangeOf(ambig[CHOOSE x \in I : \A y \in I : y <= x][2])

EqSym(ambig, wild, pc, tc) == tc = pc \/ tc \in AmbigOf(ambig, pc) \/ tc \in RangeOf(wild)

RECURSIVE PMRec(_, _, _)
PMRec(p, ambig, acc) ==
    IF Len(acc) = Len(p) THEN acc
    ELSE LET s == p[Len(acc) + 1] IN PMRec(p, ambig, Append(acc, {s} \cup AmbigOf(ambig, s)))

\* evaluation context of one pattern
MkEq(p, ambig, wild) ==
    [kind |-> "eq", m |-> Len(p), p |-> p, pm |-> PMRec(p, ambig, << >>), wild |-> RangeOf(wild),
     cost |-> << >>]
\* cost = << >> (unit cost) or a square table over the symbols 0..s-1
MkCost(p, cost) ==
    [kind |-> "cost", m |-> Len(p), p |-> p, pm |-> << >>, wild |-> {}, cost |-> cost]
MkPlain(p) == MkCost(p, << >>)

Sub(ctx, i, c) ==
    IF ctx.kind = "eq" THEN (IF c \in ctx.pm[i] \/ c \in ctx.wild THEN 0 ELSE 1)
    ELSE IF ctx.cost = << >> THEN (IF ctx.p[i] = c THEN 0 ELSE 1)
    ELSE ctx.cost[ctx.p[i] + 1][c + 1]

\* ------------------------------------------------------------- edit matrix
\* A column is the sequence <<D[0][j], ..., D[m][j]>> (row r at index r+1).
RECURSIVE ColRec(_, _, _, _, _)
ColRec(ctx, prev, c, i, acc) ==            \* Len(acc) = i = rows 0..i-1 of the new column
    IF i > ctx.m THEN acc
    ELSE ColRec(ctx, prev, c, i + 1,
                Append(acc, Min3(prev[i] + Sub(ctx, i, c), prev[i + 1] + 1, acc[i] + 1)))
Col(ctx, prev, c, top) == ColRec(ctx, prev, c, 1, << top >>)

\* all columns 0..n of the semi-global matrix (free start in the text): D[0][j] = 0
RECURSIVE ColsRec(_, _, _)
ColsRec(ctx, t, acc) ==
    IF Len(acc) > Len(t) THEN acc
    ELSE ColsRec(ctx, t, Append(acc, Col(ctx, acc[Len(acc)], t[Len(acc)], 0)))
Cols(ctx, t) == ColsRec(ctx, t, << Iota(ctx.m) >>)       \* Cols[j+1] = column j

RECURSIVE LastRowRec(_, _, _, _, _)
LastRowRec(ctx, t, j, prev, acc) ==
    IF j > Len(t) THEN acc
    ELSE LET col == Col(ctx, prev, t[j], 0)
         IN  LastRowRec(ctx, t, j + 1, col, Append(acc, col[ctx.m + 1]))
LastRow(ctx, t) == LastRowRec(ctx, t, 1, Iota(ctx.m), << >>)    \* r[j] = D[m][j], j = 1..n

\* k < 0 stands for "no bound" (usize::MAX / u32::MAX in the code)
Within(d, k) == k < 0 \/ d <= k

\* hits in text order: <<0-based end position, distance>>
RECURSIVE HitsRec(_, _, _, _)
HitsRec(row, k, j, acc) ==
    IF j > Len(row) THEN acc
    ELSE HitsRec(row, k, j + 1, IF Within(row[j], k) THEN Append(acc, << j - 1, row[j] >>) ELSE acc)
HitsOfRow(row, k) == HitsRec(row, k, 1, << >>)
Hits(ctx, t, k) == HitsOfRow(LastRow(ctx, t), k)

\* first hit whose 0-based end position is >= from, as <<end, d>>, or << >>
RECURSIVE NextHitRec(_, _, _)
NextHitRec(row, k, j) ==
    IF j > Len(row) THEN << >>
    ELSE IF Within(row[j], k) THEN << j - 1, row[j] >> ELSE NextHitRec(row, k, j + 1)
NextHit(row, k, from) == NextHitRec(row, k, from + 1)

RECURSIVE BestRec(_, _, _)
BestRec(row, j, best) ==                   \* best = <<end, d>>; first position on ties
    IF j > Len(row) THEN best
    ELSE BestRec(row, j + 1, IF row[j] < best[2] THEN << j - 1, row[j] >> ELSE best)
BestEndOfRow(row) == BestRec(row, 2, << 0, row[1] >>)        \* row non-empty
MinDistOfRow(row) == BestEndOfRow(row)[2]

\* ------------------------------------------------------ distance functions
RECURSIVE LevRec(_, _, _, _)
LevRec(ctx, b, j, prev) ==
    IF j > Len(b) THEN prev[ctx.m + 1] ELSE LevRec(ctx, b, j + 1, Col(ctx, prev, b[j], j))
Lev(a, b) == LevRec(MkPlain(a), b, 1, Iota(Len(a)))          \* global: D[0][j] = j

Hamming(a, b) == Cardinality({x \in 1..Len(a) : a[x] # b[x]})  \* Len(a) = Len(b)

\* ------------------------------------------------------ alignment paths (C10)
OpMatch == 0
OpSubst == 1
OpDel   == 2        \* consumes a text symbol only
OpIns   == 3        \* consumes a pattern symbol only

\* Walk ops from pattern position 0 and text position `start` (0-based, = number of
\* text symbols left of the alignment). Result <<pattern consumed, text position, cost>>
\* or <<-1,-1,-1>> if an operation is not applicable / not allowed.
RECURSIVE WalkRec(_, _, _, _, _, _, _)
WalkRec(ctx, t, ops, n, i, j, cost) ==
    IF n > Len(ops) THEN << i, j, cost >>
    ELSE LET o == ops[n] IN
         IF o = OpMatch
         THEN IF i < ctx.m /\ j < Len(t) /\ Sub(ctx, i + 1, t[j + 1]) = 0
              THEN WalkRec(ctx, t, ops, n + 1, i + 1, j + 1, cost) ELSE << -1, -1, -1 >>
         ELSE IF o = OpSubst
         THEN IF i < ctx.m /\ j < Len(t) /\ Sub(ctx, i + 1, t[j + 1]) # 0
              THEN WalkRec(ctx, t, ops, n + 1, i + 1, j + 1, cost + 1) ELSE << -1, -1, -1 >>
         ELSE IF o = OpDel
         THEN IF j < Len(t) THEN WalkRec(ctx, t, ops, n + 1, i, j + 1, cost + 1) ELSE << -1, -1, -1 >>
         ELSE IF o = OpIns
         THEN IF i < ctx.m THEN WalkRec(ctx, t, ops, n + 1, i + 1, j, cost + 1) ELSE << -1, -1, -1 >>
         ELSE << -1, -1, -1 >>

IsNat(x) == x \in Nat
IsSeqOfInt(s) == \* total test for "s is a sequence of integers" on JSON-derived values
    /\ DOMAIN s = 1..Len(s)
    /\ \A x \in 1..Len(s) : s[x] \in Int

\* start/end delimit t[start..end) (0-based, end exclusive); d is the reported distance;
\* row = LastRow(ctx,t). The path consumes exactly the pattern and that substring, its
\* cost is d, and d is the DP value at the end column: so d is also the global edit
\* distance between the pattern and the substring (a cheaper path would contradict the
\* minimality of D[m][end]).
ValidPath(ctx, t, start, end, d, ops) ==
    /\ start \in 0..Len(t) /\ end \in 0..Len(t) /\ start <= end
    /\ WalkRec(ctx, t, ops, 1, 0, start, 0) = << ctx.m, end, d >>
ValidHit(ctx, t, row, start, end, d, ops) ==
    /\ end \in 1..Len(t)
    /\ d = row[end]
    /\ ValidPath(ctx, t, start, end, d, ops)

=============================================================================
