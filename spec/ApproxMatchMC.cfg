CONSTANTS
  Sym = {0, 1}
  MaxP = 3
  MaxT = 5
  MaxK = 3
  Costs <- CostsQuick
SPECIFICATION Spec
INVARIANTS Decided Final LastkMeaning CutoffSound Lemmas
PROPERTY Progress
CHECK_DEADLOCK FALSE
