--------------------------- MODULE ApproxMatchMC ---------------------------
(* Ukkonen's cut-off machine (ukkonen.rs: two rolling columns, lastk) checked *)
(* exhaustively against the full edit matrix of the definition layer, for    *)
(* all patterns/texts over Sym, all thresholds k <= MaxK and every cost      *)
(* table in Costs (<< >> = unit cost). Also definition-level sanity lemmas   *)
(* (Lev symmetric, triangle inequality, Lev <= Hamming, Hits/BestEnd agree). *)
EXTENDS ApproxMatch, TLC
CONSTANTS Sym, MaxP, MaxT, MaxK, Costs

VARIABLES p, t, k, cost, i, u, out
vars == <<p, t, k, cost, i, u, out>>

Strings(lo, hi) == UNION {[1..n -> Sym] : n \in lo..hi}
Ctx == MkCost(p, cost)
M == Len(p)
N == Len(t)

Init ==
    /\ p \in Strings(1, MaxP)
    /\ t \in Strings(0, MaxT)
    /\ k \in 0..MaxK
    /\ cost \in Costs
    /\ i = 0                               \* number of text symbols consumed
    /\ u = UkkInit(Len(p), k)
    /\ out = << >>

Step ==
    /\ i < N
    /\ LET nu == UkkStep(Ctx, u, i, t[i + 1], k)
       IN  /\ u' = nu
           /\ out' = IF nu.hit = << >> THEN out ELSE Append(out, nu.hit)
    /\ i' = i + 1
    /\ UNCHANGED <<p, t, k, cost>>

Next == Step
Spec == Init /\ [][Next]_vars

\* ------------------------------------------------------------ invariants
Prefix == SubSeq(t, 1, i)
TrueCol == Cols(Ctx, Prefix)[i + 1]         \* column i of the full matrix (row r at index r+1)

\* every hit left of the current position has been reported, with its distance, in order
Decided == out = Hits(Ctx, Prefix, k)
Final == i = N => out = Hits(Ctx, t, k)

\* lastk is the last row of the current column whose true value is <= k
LastkMeaning ==
    /\ u.lastk \in 0..M
    /\ TrueCol[u.lastk + 1] <= k
    /\ \A r \in (u.lastk + 1)..M : TrueCol[r + 1] > k

\* cells 0..lastk of the current rolling column: exact where the true value is <= k,
\* and > k where the true value is > k (they may over-estimate there)
CutoffSound ==
    LET c == UkkCur(u, i) IN
    \A r \in 0..u.lastk :
        /\ TrueCol[r + 1] <= k => c[r + 1] = TrueCol[r + 1]
        /\ TrueCol[r + 1] > k  => c[r + 1] > k

\* definition-level lemmas, evaluated in the initial states (i = 0, k = 0)
Lemmas ==
    (i = 0 /\ k = 0 /\ cost = << >>) =>
        /\ Lev(p, t) = Lev(t, p)
        /\ (Len(p) = Len(t) => Lev(p, t) <= Hamming(p, t))
        /\ Lev(p, t) >= (IF M >= N THEN M - N ELSE N - M)
        /\ Lev(p, t) <= Max2(M, N)
        /\ \A q \in Strings(0, 2) : Lev(p, t) <= Lev(p, q) + Lev(q, t)
        /\ (N > 0 => LET row == LastRow(Ctx, t) IN
                       /\ MinDistOfRow(row) <= Lev(p, t)                 \* a substring is at least as close
                       /\ \A x \in 1..N : row[x] >= MinDistOfRow(row)
                       /\ row[BestEndOfRow(row)[1] + 1] = MinDistOfRow(row)
                       /\ \A x \in 1..BestEndOfRow(row)[1] : row[x] > MinDistOfRow(row))
        \* LastRow is the minimum over all substrings ending at x (the defining property)
        /\ \A x \in 1..N : LastRow(Ctx, t)[x] =
               LET S == {Lev(p, SubSeq(t, a, x)) : a \in 1..(x + 1)}
               IN  CHOOSE d \in S : \A d2 \in S : d <= d2

Progress == [][i' = i + 1]_vars

\* cost tables over Sym = {0,1} (row = pattern symbol, column = text symbol)
CostsQuick == { << >>, << <<1, 0>>, <<0, 0>> >>, << <<0, 1>>, <<2, 3>> >> }
CostsThorough == CostsQuick \cup {<< <<0, 2>>, <<3, 0>> >>, << <<0, 3>>, <<1, 2>> >>}
=============================================================================
