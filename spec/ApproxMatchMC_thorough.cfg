CONSTANTS
  Sym = {0, 1}
  MaxP = 4
  MaxT = 5
  MaxK = 5
  Costs <- CostsThorough
SPECIFICATION Spec
INVARIANTS Decided Final LastkMeaning CutoffSound Lemmas
PROPERTY Progress
CHECK_DEADLOCK FALSE
