-------------------------- MODULE ApproxMatchTrace --------------------------
(* Trace validation for C09: families "myers", "ukkonen", "dist".           *)
(*                                                                         *)
(* myers    run.cfg = [impl, w, p, ambig, wild, part, texts]; one matcher   *)
(*          object (the driver spreads the texts of one object over several *)
(*          runs "part" = 0,1,.. so that TLC can validate them in parallel; *)
(*          `new` is the first event of part 0)                             *)
(*          events  new | find_all_end(ti,k) | distance(ti) | best_end(ti)  *)
(*          The object has no observable state: every call must answer like *)
(*          the definition. `st` caches LastRow of every text of the run    *)
(*          (computed by the specification when it consumes `new`).         *)
(* ukkonen  run.cfg = [cap, cost]; one Ukkonen object reused for patterns   *)
(*          of different lengths; events find_all_end(p,t,k)                *)
(* dist     run.cfg = [a, b]; events hamming | simd_hamming | lev |         *)
(*          simd_lev | bounded(k); `st` caches Lev(a,b)                     *)
(* k = -1 stands for the largest value of the integer type ("no bound").    *)
EXTENDS ApproxMatch, TLC, Json, IOUtils

Rec == ndJsonDeserialize(IOEnv.TRACE)

VARIABLES run, idx, ok, st
vars == <<run, idx, ok, st>>

NoState == << >>

RECURSIVE RowsRec(_, _, _)
RowsRec(ctx, texts, acc) ==
    IF Len(acc) = Len(texts) THEN acc
    ELSE RowsRec(ctx, texts, Append(acc, LastRow(ctx, texts[Len(acc) + 1])))

\* ------------------------------------------------------------------ myers
MyersAfter(cfg, s, e) ==            \* first event of the run (unless it is a refused `new`)
    IF s = NoState /\ ~(e.c.op \in {"new", "clone_from"} /\ e.r.st # "ok")
    THEN RowsRec(MkEq(cfg.p, cfg.ambig, cfg.wild), cfg.texts, << >>)
    ELSE s

MyersExplains(cfg, s, e) ==            \* s = state after the event (the cache)
    LET c == e.c  r == e.r IN
    CASE c.op = "new" ->
           IF cfg.impl = "simple" /\ Len(cfg.p) > cfg.w
           THEN r.st = "panic"                     \* documented refusal: "Pattern too long"
           ELSE r.st = "ok"
      [] c.op = "find_all_end" ->
           /\ r.st = "ok"
           /\ r.v = HitsOfRow(s[c.a.ti], c.a.k)
      [] c.op = "distance" ->
           /\ r.st = "ok"
           /\ Len(s[c.a.ti]) > 0 => r.d = MinDistOfRow(s[c.a.ti])
      [] c.op = "best_end" ->
           /\ r.st = "ok"
           /\ Len(s[c.a.ti]) > 0 => r.v = BestEndOfRow(s[c.a.ti])
      [] c.op = "blk_profile" -> r.st = "ok"      \* not a call of rust-bio, see MyersExact
      \* the object copied in the middle of its history (clone, clone_from into a used object of
      \* another pattern, Debug formatting): must not fail; the events that follow are answered
      \* by the copy or by the original (a.on) and are judged like all others
      [] c.op \in {"clone", "clone_from", "debug", "rebuild"} -> r.st = "ok"   \* rebuild: same configuration, fresh builder
      \* the result iterator forked after j items: both continuations give the remaining hits
      [] c.op = "find_all_end_fork" ->
           LET h == HitsOfRow(s[c.a.ti], c.a.k) IN
           /\ r.st = "ok"
           /\ r.head = SubSeq(h, 1, Min2(c.a.j, Len(h)))
           /\ r.tail1 = SubSeq(h, Len(r.head) + 1, Len(h))
           /\ r.tail2 = r.tail1
      \* the result iterator consumed through count / last / nth / skip / step_by, or asked for
      \* its size_hint after n items
      [] c.op = "find_all_end_via" ->
           LET h == HitsOfRow(s[c.a.ti], c.a.k) IN
           /\ r.st = "ok"
           /\ IF c.a.how = "size_hint" THEN HintOK(r.v, Len(h) - Min2(c.a.n, Len(h)))
              ELSE r.v = ViaSeq(h, c.a.how, c.a.n)
      \* long::Myers::default() (an object without a pattern): outside the property -- whatever it does, it
      \* must return or refuse (the build with overflow checks refuses with a panic, the build without them
      \* reports no hit); only a hang or a process death is a finding here
      [] c.op = "default_long" -> r.st \in {"panic", "ok"}
      [] OTHER -> FALSE

\* `blk_profile` records what the driver's transcription of the block machine (used to steer
\* the generation towards rare band transitions and to count them) computed for this input:
\* the number of active blocks after every text symbol. It must be what BlkStep of the
\* specification computes at the real word size; a difference is reported as MODEL-DRIFT
\* (the coverage counters of the driver would then not mean what they say), never as a
\* violation of the property.
MyersExact(cfg, e) ==
    e.c.op = "blk_profile" =>
        e.r.nb = BlkProfile(MkEq(cfg.p, cfg.ambig, cfg.wild), cfg.texts[e.c.a.ti], e.c.a.k, cfg.w)

\* ---------------------------------------------------------------- ukkonen
UkkExplains(cfg, e) ==
    LET c == e.c  r == e.r IN
    CASE c.op = "find_all_end" ->
           /\ r.st = "ok"
           /\ r.v = Hits(MkCost(c.a.p, cfg.cost), c.a.t, c.a.k)
      [] c.op \in {"clone", "debug"} -> r.st = "ok"
      [] c.op = "find_all_end_via" ->
           LET h == Hits(MkCost(c.a.p, cfg.cost), c.a.t, c.a.k) IN
           /\ r.st = "ok"
           /\ IF c.a.how = "size_hint" THEN HintOK(r.v, Len(h) - Min2(c.a.n, Len(h)))
              ELSE r.v = ViaSeq(h, c.a.how, c.a.n)
      [] OTHER -> FALSE

\* ------------------------------------------------------------------- dist
DistAfter(cfg, s, e) ==               \* Lev(a,b) is computed when first needed
    IF s = NoState /\ e.c.op \in {"lev", "simd_lev", "bounded"} THEN << Lev(cfg.a, cfg.b) >> ELSE s

DistExplains(cfg, s, e) ==
    LET c == e.c  r == e.r  d == s[1] IN       \* d is only used by the three Levenshtein operations
    CASE c.op \in {"hamming", "simd_hamming"} ->
           IF Len(cfg.a) = Len(cfg.b)
           THEN r.st = "ok" /\ r.d = Hamming(cfg.a, cfg.b)
           ELSE r.st = "panic"                     \* documented refusal (assert_eq on the lengths)
      [] c.op \in {"lev", "simd_lev"} ->
           r.st = "ok" /\ r.d = d
      [] c.op = "bounded" ->
           /\ r.st = "ok"
           /\ r.d = IF Within(d, c.a.k) THEN d ELSE -1       \* -1 = None
      [] OTHER -> FALSE

\* ------------------------------------------------------------------ driver
After(fam, cfg, s, e) ==
    CASE fam = "myers" -> MyersAfter(cfg, s, e)
      [] fam = "dist"  -> DistAfter(cfg, s, e)
      [] OTHER         -> s

Explains(fam, cfg, s, e) ==
    CASE fam = "myers"   -> MyersExplains(cfg, s, e)
      [] fam = "ukkonen" -> UkkExplains(cfg, e)
      [] fam = "dist"    -> DistExplains(cfg, s, e)
      [] OTHER           -> FALSE

Exact(fam, cfg, e) == fam = "myers" => MyersExact(cfg, e)

Init == run \in 1..Len(Rec) /\ idx = 0 /\ ok = TRUE /\ st = NoState
Next ==
    /\ ok /\ idx < Len(Rec[run].ev)
    /\ LET R    == Rec[run]
           e    == R.ev[idx + 1]
           ns   == After(R.fam, R.cfg, st, e)
           good == Explains(R.fam, R.cfg, ns, e)
       IN  /\ ok' = good
           /\ st' = ns
           /\ IF good THEN (IF Exact(R.fam, R.cfg, e) THEN TRUE ELSE PrintT(<<"DRIFT", run, idx + 1>>))
              ELSE PrintT(<<"REJECT", run, idx + 1>>)
    /\ idx' = idx + 1
    /\ UNCHANGED run
Spec == Init /\ [][Next]_vars
=============================================================================
