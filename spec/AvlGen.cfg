CONSTANTS
  Starts = {1, 2, 3, 4}
  Widths = {1, 2}
  MaxN = 5
  EmitOn = TRUE
SPECIFICATION Spec
VIEW shapeview
ACTION_CONSTRAINT EmitT
CHECK_DEADLOCK FALSE
